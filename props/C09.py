"""C09 PDB/mmCIF write-read round trips preserve every atom field"""
import os

from gen import structures as G
from oracles import roundtrip_o as R
from props._util import rng_for, run_cases

LEVEL = "other"
DEDUCTIVE = []
TRUSTED = ["pandas (DataFrame construction, dtype coercion)", "mmcif IoAdapterPy reader/writer as used by the library (its quoting is part of what is exercised, not assumed)",
           "gen/emit.py + gen/atomtables_c09.py emitters and oracles/roundtrip_o.py column slicing (written from the PDB 3.3 / mmCIF descriptions, not from the library)",
           "CPython 3.12 float formatting"]
ASSUMPTIONS = [
    "formal charge is compared as a signed integer (PDB text '2+' = mmCIF integer 2); on paths that pass through PDB an explicit mmCIF charge 0 and an absent charge are not distinguished (PDB has one blank form for both); mmCIF->mmCIF distinguishes them",
    "a blank PDB chain column is the empty chain identifier; such tables can only start from PDB text (paths PDB->PDB and PDB->mmCIF->PDB)",
    "cross paths compare the identifiers PDB can carry (auth_* / PDB columns); label_* columns are compared on mmCIF->mmCIF only",
    "PDB limits leave room for the serial of the TER record that must follow a chain: atom serials <= 99998 (with a last atom 99999 write_pdb numbers the TER 100000, which cannot fit columns 7-11)",
    "a 'chain' for the TER rule is a maximal run of consecutive atom records with one chain identifier inside one model",
    "justification of the atom name inside columns 13-16 and of the residue name inside 18-20 is not judged, only that the field holds the name",
    "the starting table must itself hold the emitted values (otherwise identity would be vacuous); a mismatch there is reported with tag parse-pdb / parse-cif",
]
EXPLANATION = ("bounded only: generated atom tables within PDB limits are emitted as PDB and mmCIF text by independent emitters, read by parse_pdb_atoms / "
               "parse_cif_atoms, then sent through write_pdb / write_cif and read back along the four paths; every listed field of every row is compared with the "
               "table that was written; every PDB text produced by write_pdb is sliced by our own PDB 3.3 column table. Corpus files go through the same paths.")

CHECKS = [
    # (check name, aspect, nontrivial(info))
    ("roundtrip-pdb-pdb", "pdb-pdb", lambda i: i.get("corpus") or i["altloc"] or i["icode"] or i["wide"] or i["het"] or i["zero"]),
    ("roundtrip-cif-cif", "cif-cif", lambda i: i.get("corpus") or (not i["blank_chain"] and (i["altloc"] or i["icode"] or i["zero"] or i["het"]))),
    ("roundtrip-pdb-cif-pdb", "pdb-cif-pdb", lambda i: i.get("corpus") or i["altloc"] or i["icode"] or i["wide"] or i["het"] or i["zero"]),
    ("roundtrip-cif-pdb-cif", "cif-pdb-cif", lambda i: i.get("corpus") or (not i["blank_chain"] and (i["altloc"] or i["icode"] or i["wide"] or i["het"] or i["zero"]))),
    ("formal-charge", "charge", lambda i: i.get("corpus") or i["charge"]),
    ("pdb-80-column-layout", "layout", lambda i: True),
    ("pdb-model-endmdl", "model", lambda i: i.get("corpus") or len(i["models"]) > 1 or i["models"] != [1]),
    ("pdb-ter-after-chain", "ter", lambda i: i.get("corpus") or len(i["chains"]) > 1 or len(i["models"]) > 1),
]
RULES = {
    "roundtrip-pdb-pdb": "parse_pdb_atoms(write_pdb(T)) = T on record type, serial, atom name, altloc, residue name, chain, residue number, insertion code, x/y/z (0.001), occupancy and B (0.01), element, model; T = parse_pdb_atoms(independently emitted text) and T itself must hold the emitted values",
    "roundtrip-cif-cif": "parse_cif_atoms(write_cif(T)) = T on the same fields (auth_* and label_* identifiers, '?' or '.' null markers, quoted names, with/without pdbx_formal_charge and auth_atom_id columns)",
    "roundtrip-pdb-cif-pdb": "PDB table -> write_cif -> parse_cif_atoms -> write_pdb -> parse_pdb_atoms gives the PDB table back (also judged at the intermediate mmCIF table)",
    "roundtrip-cif-pdb-cif": "mmCIF table within PDB limits -> write_pdb -> parse_pdb_atoms -> write_cif -> parse_cif_atoms gives the same PDB-visible fields back (also judged at the intermediate PDB table)",
    "formal-charge": "formal charge (signed integer) is preserved along all four paths and by the first parse",
    "pdb-80-column-layout": "every ATOM/HETATM/TER line written by write_pdb on any path is 80 columns and holds, sliced by our own column table (1-6, 7-11, 13-16, 17, 18-20, 22, 23-26, 27, 31-38, 39-46, 47-54, 55-60, 61-66, 77-78, 79-80; blanks elsewhere; TER: 7-11 serial, 18-20, 22, 23-26, 27 of the chain's last residue), exactly the values of the table handed to write_pdb",
    "pdb-model-endmdl": "every model run of the table handed to write_pdb is enclosed by 'MODEL' (serial in columns 11-14) and 'ENDMDL', no atom outside, no nesting, MODEL numbers in table order",
    "pdb-ter-after-chain": "inside every model the record following the last atom of every chain (maximal run of one chain id) is a TER",
}


def cases_for(tier, seed):
    rng = rng_for(seed, "c09")
    n = 170 if tier == "quick" else 2200
    seeds = [rng.randrange(10 ** 9) for _ in range(n)]
    # multiples of 10 carry a blank chain identifier (PDB only): keep a tenth of the cases of that kind
    seeds = [s - s % 10 if k % 10 == 0 else (s + 1 if s % 10 == 0 else s) for k, s in enumerate(seeds)]
    limit = 800000 if tier == "quick" else 10 ** 9
    files = [os.path.basename(p) for p in G.corpus(tier) if os.path.getsize(p) < limit]
    return seeds, files


def retag(result):
    """descriptive, stable signatures: '<defect tag>@<check>:<case>'; at most two violations per tag"""
    seen = {}
    keep = []
    for v in result["violations"]:
        tag = v["what"].split(": ")[0]
        v["signature"] = f"{tag}@{result['name']}:{v['input']['case']}"
        seen[tag] = seen.get(tag, 0) + 1
        if seen[tag] <= 2 and len(keep) < 8:
            keep.append(v)
    result["violations"] = keep
    return result


def bounded(tier, seed):
    seeds, files = cases_for(tier, seed)
    cases = files + seeds
    bound = f"{len(seeds)} generated tables (1-3 models, 1-3 chains, <= ~150 atoms; a tenth with a blank chain id) + {len(files)} corpus files"
    out = []
    for name, aspect, nt in CHECKS:
        out.append(retag(run_cases(name, cases, R.aspect_oracle(aspect), lambda c, nt=nt: bool(nt(R.info_of(c))), RULES[name], bound, sig=str, max_viol=10 ** 6,
                             relates="write_pdb|write_cif|parse_pdb_atoms|parse_cif_atoms|_format_pdb_atom_line")))
    R.evaluate.cache_clear()
    return out


def replay(inp):
    aspect = dict((n, a) for n, a, _ in CHECKS)[inp["check"]]
    errs = R.replay_case(aspect, inp["case"])
    return {"fails": bool(errs), "errors": errs[:3]}
