"""C09 PDB/mmCIF write-read round trips preserve every atom field"""
import os

from gen import structures as G
from oracles import roundtrip_o as R
from props._util import rng_for, run_cases

LEVEL = "other"
DEDUCTIVE = [
    # the real functions (string obligations: cvc5 is asked right after a short z3 attempt)
    {"module": "rnapolis.parser_v2", "sidecar": "contracts.parser_v2_c",
     "targets": ["_format_pdb_atom_line", "_format_pdb_atom_line@signed_charge", "_format_pdb_ter_line", "parse_pdb_atoms@decode", "lemma:decoded_v2_snoc"],
     "opts": {"z3_probe_ms": 400, "cvc5_probe_s": 6}},
    # string lemmas: layout arithmetic, field-by-field inverse, composition write -> read of one line
    {"module": "rnapolis.parser_v2", "sidecar": "contracts.parser_v2_c",
     "targets": ["lemma:layout80", "lemma:layout_ter", "lemma:strip_digit_sign", "lemma:strip_clean", "lemma:digit_sign_clean", "lemma:signed_digit_value", "lemma:strip_digit_then_sign",
                 "lemma:inv_record", "lemma:inv_serial", "lemma:inv_name", "lemma:inv_ljust1", "lemma:inv_rjust3", "lemma:inv_rjust2",
                 "lemma:inv_resseq", "lemma:int_of_str", "lemma:roundtrip_line"]},
]
TRUSTED = ["pandas (DataFrame construction, dtype coercion)", "mmcif IoAdapterPy reader/writer as used by the library (its quoting is part of what is exercised, not assumed)",
           "gen/emit.py + gen/atomtables_c09.py emitters and oracles/roundtrip_o.py column slicing (written from the PDB 3.3 / mmCIF descriptions, not from the library)",
           "CPython 3.12 float formatting",
           # assumed externals of contracts/parser_v2_c.py (deductive part)
           "format(x, '8.3f') / format(x, '6.2f') (f-string specs of _format_pdb_atom_line): uninterpreted functions py_fmt_8_3f / py_fmt_6_2f of the value; ASSUMED: the text has >= 8 (6) characters, exactly 8 (6) when -999.9995 < x < 9999.9995 (-99.995 < x < 999.995), more when x lies strictly beyond those bounds (external builtins.format)",
           "str.strip(): uninterpreted py_strip (external str.strip); its meaning enters only through the definitional lemma strip_definition (see ASSUMPTIONS)",
           "str.splitlines(): returns some list of strings (external str.splitlines; nothing assumed about how the text is cut - the decode contract is stated per line of that list)",
           "float(str): pyvc's uninterpreted py_float / py_float_ok; int(str): pyvc ext_int_of_str (ASCII grammar, value str.to_int on digit strings, '-' negates); pandas.to_numeric on the decoded number texts is taken to be int()/float() of the text",
           "z3 / cvc5 (strings, integers <-> strings, regular expressions)"]
ASSUMPTIONS = [
    "formal charge is compared as a signed integer (PDB text '2+' = mmCIF integer 2); on paths that pass through PDB an explicit mmCIF charge 0 and an absent charge are not distinguished (PDB has one blank form for both); mmCIF->mmCIF distinguishes them",
    "a blank PDB chain column is the empty chain identifier; such tables can only start from PDB text (paths PDB->PDB and PDB->mmCIF->PDB)",
    "cross paths compare the identifiers PDB can carry (auth_* / PDB columns); label_* columns are compared on mmCIF->mmCIF only",
    "PDB limits leave room for the serial of the TER record that must follow a chain: atom serials <= 99998 (with a last atom 99999 write_pdb numbers the TER 100000, which cannot fit columns 7-11)",
    "a 'chain' for the TER rule is a maximal run of consecutive atom records with one chain identifier inside one model",
    "justification of the atom name inside columns 13-16 and of the residue name inside 18-20 is not judged, only that the field holds the name",
    "the starting table must itself hold the emitted values (otherwise identity would be vacuous); a mismatch there is reported with tag parse-pdb / parse-cif",
    # deductive part (contracts/parser_v2_c.py)
    "DEDUCTIVE quantifier 'within PDB limits' (spec fits_pdb): record name ATOM/HETATM, serial 0..99999, name 1-4 characters, altLoc / chainID / iCode 0-1 character, resName 1-3 characters, resSeq -999..9999, x/y/z strictly between -999.9995 and 9999.9995, occupancy / B strictly between -99.995 and 999.995, element 0-2 characters, charge '' or digit followed by '+'/'-'; for the read-back lemma additionally: text fields do not start or end with whitespace (spec clean_fields - such blanks are the format's own padding)",
    "modelling decision: the dict handed to _format_pdb_atom_line has exactly the keys write_pdb builds (record AtomData, .get(key, default) never falls back to the default); the dict literal of parse_pdb_atoms is the record PdbRecord",
    "definitional lemma strip_definition (NOT proved, it defines the uninterpreted py_strip): for a text of at most 8 characters strip() is the part from the first to the last non-whitespace character ('' if none), whitespace = the 29 characters with str.isspace() in the running CPython",
    "assumed-external lemma float_rejects_digit_sign: float('<digit><sign>') raises ValueError (so the formatter keeps a PDB charge text such as '2+' as it is)",
    "assumed-external lemma float_of_signed_digit (variant _format_pdb_atom_line@signed_charge: the charge handed over as a signed integer text such as '2' / '-1', the mmCIF form): float of an optionally negated single digit is defined and equals the integer it spells",
    "assumed-external lemmas fmt83_roundtrip / fmt62_roundtrip: float(strip(format(x, '8.3f'))) is defined and within 0.0005 of x (0.005 for '6.2f') when x fits the field - 'parse(format(x)) is within half a unit of the last place'",
    "real numbers stand for floats (no nan / inf, no rounding inside the engine): int(float) is truncation of a real",
]
EXPLANATION = ("DEDUCTIVE (string level, real code of parser_v2.py re-read on every run): "
               "(1) _format_pdb_atom_line under contract: for atom data within PDB limits the result has exactly 80 columns and every field sits at its PDB 3.3 columns - "
               "1-6 record name, 7-11 serial right-justified, 13-16 atom name (the code's alignment rule: a name of < 4 characters starting with a letter begins in column 14, every other name in column 13), "
               "17 altLoc, 18-20 resName right-justified, 22 chainID, 23-26 resSeq right-justified, 27 iCode, 31-38/39-46/47-54 x/y/z as format(.., '8.3f'), 55-60 / 61-66 occupancy / B as format(.., '6.2f'), "
               "77-78 element right-justified, 79-80 charge, blanks in 12, 21, 28-30, 67-76 (clauses LAYOUT; proof: each field's width where it is computed, lemma layout80 for the column arithmetic). "
               "(1b) the same function under the variant contract @signed_charge: a charge given as signed integer text ('2', '-1', '0') appears in columns 79-80 as magnitude digit then sign ('2+', '1-'), blank for 0, all other clauses as in (1). "
               "(2) _format_pdb_ter_line under contract: 80 columns, 1-6 'TER   ', 7-11 serial, 18-20 resName, 22 chainID, 23-26 resSeq, 27 iCode, blanks elsewhere. "
               "(3) parse_pdb_atoms@decode, a PREFIX contract on the real function up to (not including) the pandas DataFrame construction: the `records` list holds exactly one record per ATOM/HETATM line, in file order, "
               "every field being its PDB 3.3 column range with surrounding whitespace removed (optional fields None when blank), model = serial of the last preceding MODEL record with a readable serial, else 1. "
               "(4) lemmas inv_* (one per field), int_of_str and their composition roundtrip_line: a line that satisfies the LAYOUT clauses for atom data a (= postcondition of 1), decoded as in (3), gives back record type, serial, "
               "atom name, altLoc, resName, chain, resSeq, iCode, element, charge exactly and x/y/z to 0.0005, occupancy / B to 0.005 (numbers through int()/float() of the decoded text; float formatting/parsing assumed). "
               "NOT deductive (bounded below): the pandas row loops of write_pdb / write_cif incl. the MODEL/ENDMDL/TER state machine, the DataFrame construction and pandas.to_numeric / categorical conversion at the end of parse_pdb_atoms, "
               "everything mmCIF (parse_cif_atoms, write_cif, the mmcif library), fit_to_pdb. "
               "BOUNDED: generated atom tables within PDB limits are emitted as PDB and mmCIF text by independent emitters, read by parse_pdb_atoms / "
               "parse_cif_atoms, then sent through write_pdb / write_cif and read back along the four paths; every listed field of every row is compared with the "
               "table that was written; every PDB text produced by write_pdb is sliced by our own PDB 3.3 column table. Corpus files go through the same paths.")

CHECKS = [
    # (check name, aspect, nontrivial(info))
    ("roundtrip-pdb-pdb", "pdb-pdb", lambda i: i.get("corpus") or i["altloc"] or i["icode"] or i["wide"] or i["het"] or i["zero"]),
    ("roundtrip-cif-cif", "cif-cif", lambda i: i.get("corpus") or (not i["blank_chain"] and (i["altloc"] or i["icode"] or i["zero"] or i["het"]))),
    ("roundtrip-pdb-cif-pdb", "pdb-cif-pdb", lambda i: i.get("corpus") or i["altloc"] or i["icode"] or i["wide"] or i["het"] or i["zero"]),
    ("roundtrip-cif-pdb-cif", "cif-pdb-cif", lambda i: i.get("corpus") or (not i["blank_chain"] and (i["altloc"] or i["icode"] or i["wide"] or i["het"] or i["zero"]))),
    ("formal-charge", "charge", lambda i: i.get("corpus") or i["charge"]),
    ("pdb-80-column-layout", "layout", lambda i: True),
    ("pdb-model-endmdl", "model", lambda i: i.get("corpus") or len(i["models"]) > 1 or i["models"] != [1]),
    ("pdb-ter-after-chain", "ter", lambda i: i.get("corpus") or len(i["chains"]) > 1 or len(i["models"]) > 1),
]
RULES = {
    "roundtrip-pdb-pdb": "parse_pdb_atoms(write_pdb(T)) = T on record type, serial, atom name, altloc, residue name, chain, residue number, insertion code, x/y/z (0.001), occupancy and B (0.01), element, model; T = parse_pdb_atoms(independently emitted text) and T itself must hold the emitted values",
    "roundtrip-cif-cif": "parse_cif_atoms(write_cif(T)) = T on the same fields (auth_* and label_* identifiers, '?' or '.' null markers, quoted names, with/without pdbx_formal_charge and auth_atom_id columns)",
    "roundtrip-pdb-cif-pdb": "PDB table -> write_cif -> parse_cif_atoms -> write_pdb -> parse_pdb_atoms gives the PDB table back (also judged at the intermediate mmCIF table)",
    "roundtrip-cif-pdb-cif": "mmCIF table within PDB limits -> write_pdb -> parse_pdb_atoms -> write_cif -> parse_cif_atoms gives the same PDB-visible fields back (also judged at the intermediate PDB table)",
    "formal-charge": "formal charge (signed integer) is preserved along all four paths and by the first parse",
    "pdb-80-column-layout": "every ATOM/HETATM/TER line written by write_pdb on any path is 80 columns and holds, sliced by our own column table (1-6, 7-11, 13-16, 17, 18-20, 22, 23-26, 27, 31-38, 39-46, 47-54, 55-60, 61-66, 77-78, 79-80; blanks elsewhere; TER: 7-11 serial, 18-20, 22, 23-26, 27 of the chain's last residue), exactly the values of the table handed to write_pdb",
    "pdb-model-endmdl": "every model run of the table handed to write_pdb is enclosed by 'MODEL' (serial in columns 11-14) and 'ENDMDL', no atom outside, no nesting, MODEL numbers in table order",
    "pdb-ter-after-chain": "inside every model the record following the last atom of every chain (maximal run of one chain id) is a TER",
}


def cases_for(tier, seed):
    rng = rng_for(seed, "c09")
    n = 170 if tier == "quick" else 2200
    seeds = [rng.randrange(10 ** 9) for _ in range(n)]
    # multiples of 10 carry a blank chain identifier (PDB only): keep a tenth of the cases of that kind
    seeds = [s - s % 10 if k % 10 == 0 else (s + 1 if s % 10 == 0 else s) for k, s in enumerate(seeds)]
    limit = 800000 if tier == "quick" else 10 ** 9
    files = [os.path.basename(p) for p in G.corpus(tier) if os.path.getsize(p) < limit]
    return seeds, files


def retag(result):
    """descriptive, stable signatures: '<defect tag>@<check>:<case>'; at most two violations per tag"""
    seen = {}
    keep = []
    for v in result["violations"]:
        tag = v["what"].split(": ")[0]
        v["signature"] = f"{tag}@{result['name']}:{v['input']['case']}"
        seen[tag] = seen.get(tag, 0) + 1
        if seen[tag] <= 2 and len(keep) < 8:
            keep.append(v)
    result["violations"] = keep
    return result


def bounded(tier, seed):
    seeds, files = cases_for(tier, seed)
    cases = files + seeds
    bound = f"{len(seeds)} generated tables (1-3 models, 1-3 chains, <= ~150 atoms; a tenth with a blank chain id) + {len(files)} corpus files"
    out = []
    for name, aspect, nt in CHECKS:
        out.append(retag(run_cases(name, cases, R.aspect_oracle(aspect), lambda c, nt=nt: bool(nt(R.info_of(c))), RULES[name], bound, sig=str, max_viol=10 ** 6,
                             relates="write_pdb|write_cif|parse_pdb_atoms|parse_cif_atoms|_format_pdb_atom_line")))
    R.evaluate.cache_clear()
    return out


def replay(inp):
    aspect = dict((n, a) for n, a, _ in CHECKS)[inp["check"]]
    errs = R.replay_case(aspect, inp["case"])
    return {"fails": bool(errs), "errors": errs[:3]}
