"""C09 PDB/mmCIF write-read round trips preserve every atom field"""
import os

from gen import structures as G
from oracles import roundtrip_o as R
from props._util import rng_for, run_cases

LEVEL = "other"
DEDUCTIVE = [
    # the real functions (string obligations: cvc5 is asked right after a short z3 attempt)
    {"module": "rnapolis.parser_v2", "sidecar": "contracts.parser_v2_c",
     "targets": ["_format_pdb_atom_line", "_format_pdb_atom_line@signed_charge", "_format_pdb_ter_line", "parse_pdb_atoms@decode", "lemma:decoded_v2_snoc"],
     "opts": {"z3_probe_ms": 400, "cvc5_probe_s": 6}},
    # string lemmas: layout arithmetic, field-by-field inverse, composition write -> read of one line
    {"module": "rnapolis.parser_v2", "sidecar": "contracts.parser_v2_c",
     "targets": ["lemma:layout80", "lemma:layout_ter", "lemma:strip_digit_sign", "lemma:strip_clean", "lemma:digit_sign_clean", "lemma:signed_digit_value", "lemma:strip_digit_then_sign",
                 "lemma:inv_record", "lemma:inv_serial", "lemma:inv_name", "lemma:inv_ljust1", "lemma:inv_rjust3", "lemma:inv_rjust2",
                 "lemma:inv_resseq", "lemma:int_of_str", "lemma:roundtrip_line"]},
    # the record-level sentence: the row loop of write_pdb with its MODEL / ENDMDL / TER state machine (pandas abstracted to
    # iterrows / row.get / pd.isna / cell conversions, the text buffer to its list of written chunks)
    {"module": "rnapolis.parser_v2", "sidecar": "contracts.parser_v2_write_c", "targets": ["write_pdb"],
     "opts": {"z3_probe_ms": 400, "cvc5_probe_s": 6}},
    # the mmCIF legs: write_cif up to the hand-over to the mmcif library (which column feeds which atom_site item, what is
    # written for a missing value), parse_cif_atoms from the reader's result up to the DataFrame construction (which item
    # feeds which key, null markers -> None), and the one-row compositions PDB table -> items -> record, mmCIF table -> items -> record
    {"module": "rnapolis.parser_v2", "sidecar": "contracts.parser_v2_cif_c",
     "targets": ["_pdb_charge_to_int_str", "write_cif@rows", "parse_cif_atoms@decode", "parse_cif_atoms@decode_file", "parse_cif_atoms@decode_stringio", "lemma:signed_text_value",
                 "lemma:pdb_row_through_cif", "lemma:cif_row_through_cif",
                 "lemma:signed_digit_canonical", "lemma:int_ok_of_str", "lemma:charge_text_back", "lemma:pdb_atom_back_from_cif"],
     "opts": {"z3_probe_ms": 400, "cvc5_probe_s": 6}},
]
TRUSTED = ["pandas (DataFrame construction, dtype coercion)", "mmcif IoAdapterPy reader/writer as used by the library (its quoting is part of what is exercised, not assumed)",
           "gen/emit.py + gen/atomtables_c09.py emitters and oracles/roundtrip_o.py column slicing (written from the PDB 3.3 / mmCIF descriptions, not from the library)",
           "CPython 3.12 float formatting",
           # assumed externals of contracts/parser_v2_c.py (deductive part)
           "format(x, '8.3f') / format(x, '6.2f') (f-string specs of _format_pdb_atom_line): uninterpreted functions py_fmt_8_3f / py_fmt_6_2f of the value; ASSUMED: the text has >= 8 (6) characters, exactly 8 (6) when -999.9995 < x < 9999.9995 (-99.995 < x < 999.995), more when x lies strictly beyond those bounds (external builtins.format)",
           "str.strip(): uninterpreted py_strip (external str.strip); its meaning enters only through the definitional lemma strip_definition (see ASSUMPTIONS)",
           "str.splitlines(): returns some list of strings (external str.splitlines; nothing assumed about how the text is cut - the decode contract is stated per line of that list)",
           "float(str): pyvc's uninterpreted py_float / py_float_ok; int(str): pyvc ext_int_of_str (ASCII grammar, value str.to_int on digit strings, '-' negates); pandas.to_numeric on the decoded number texts is taken to be int()/float() of the text",
           "z3 / cvc5 (strings, integers <-> strings, regular expressions)",
           # assumed externals of contracts/parser_v2_write_c.py (deductive part: row loop of write_pdb)
           "pandas DataFrame as used by write_pdb, abstracted (contracts/parser_v2_write_c.py): df.attrs.get('format', 'PDB') returns a str (record Attrs); df.empty is a bool; "
           "df.iterrows() (external Frame.iterrows) yields the rows in table order, nrows(df) of them, row i being the value Row(df, i) (the index label is not used by the code); "
           "row.get(key[, default]) (external Row.get) returns the cell object Cell(cell_of(df, i, key)) when the table has the column (uninterpreted has_col(df, key)) and the default otherwise "
           "(None -> Optional cell; a cell default -> a cell; for a constant default the column must be present: call-site obligation row.get[key].column-present); "
           "the record-name columns record_type / group_PDB are read as str objects (obligation row.get[key].cell-is-a-str, value = cell_str of the cell)",
           "pd.isna(x) (external pandas isna): True for None, the uninterpreted cell_isna for a cell; int(cell) / float(cell) / str(cell) (externals Cell.__int__ / __float__ / __str__): "
           "the uninterpreted cell_int / cell_float / cell_str of the cell, int() / float() raising unless the uninterpreted cell_int_ok / cell_float_ok hold; str(None) is 'None'",
           "io.StringIO (externals _io.StringIO, Buffer.write, Buffer.getvalue, Buffer.close): write(s) appends s to the buffer's list of written chunks, getvalue() returns the uninterpreted "
           "`joined` of that list (standing for the concatenation of the chunks in order)",
           # assumed externals of contracts/parser_v2_cif_c.py (deductive part: mmCIF legs)
           "pandas as used by write_cif (contracts/parser_v2_cif_c.py, on top of the abstraction above): df.columns is the list of column names (field `columns` of the record Frame; every name in it is a column of the table: "
           "requires of write_cif@rows); row[key] (external Row.__getitem__) is the cell of column key and raises KeyError when the table lacks the column; row.get(key) for a computed key (external Row.get) is the cell, "
           "None when the table lacks the column (column labels are taken to be unique)",
           "format(x, '.3f') / format(x, '.2f') (f-string specs of write_cif): uninterpreted functions py_fmt__3f / py_fmt__2f of the value (external builtins.format of parser_v2_cif_c); what they compute enters only "
           "through the assumed lemmas fmt3_roundtrip / fmt2_roundtrip (see ASSUMPTIONS)",
           "mmcif writer = the tail of write_cif from `DataCategory('atom_site', attributes, rows)` on (DataContainer.append, IoAdapterPy.writeFile, temporary file, read back): NOT executed by the proof (write_cif@rows is a prefix contract); "
           "DataContainer(name) itself is modelled as a new object (external mmcif.api.PdbxContainers.DataContainer)",
           "mmcif reader = the head of parse_cif_atoms: IoAdapterPy() (external, new object); tempfile.NamedTemporaryFile(mode='w+', ..) with __enter__ / __exit__ (returns False) / write (externals tempfile.NamedTemporaryFile, TempFile.*); "
           "os.remove (external posix.remove: no effect on what the function reads afterwards, OSError not modelled); adapter.readFile(path) (external Adapter.readFile) returns the document named by the contract's ghost parameters - "
           "NB data blocks, the first has a category atom_site iff HAS, with item names ATTRS and rows ROWS - nothing is assumed about how the text becomes that document; block.getObj(name), category.getAttributeList() / getRowList() / "
           "__len__ (externals CifBlock.getObj, Category.*: the ghost document for the first block's atom_site, unknown values for every other block / name; len(category) = number of rows, which decides its truth value); "
           "pd.DataFrame() without arguments (external pandas.core.frame.DataFrame: some table, returned for a missing / empty atom_site)",
           "between write_cif@rows and parse_cif_atoms@decode lies the mmcif library (writer to text, reader from text): lemmas pdb_row_through_cif / cif_row_through_cif / pdb_atom_back_from_cif take for granted that the reader returns the item names "
           "and cell texts the writer was given (ATTRS == attributes, ROWS[i] == rows[i]); quoting / escaping is exercised by the bounded checks only",
           "pandas tail of parse_cif_atoms (`df = pd.DataFrame(records)`, pd.to_numeric, astype('Int64') / astype('category'), df.attrs): pandas from there to the end, NOT under contract; its assumed effect on one row is the "
           "spec frame_holds_record of parser_v2_cif_c (text items: cell missing iff the record holds None, else the same text; integer items: int() of the cell = int() of the text, str() of the cell = decimal text of that integer; "
           "float items: float() of the cell = float() of the text; int() of a text cell = int() of its text) - a HYPOTHESIS of lemma pdb_atom_back_from_cif, not a proved fact",
           "pyvc models str.isdigit() (used by _pdb_charge_to_int_str) for ASCII text only: the contracts require the charge text to be ASCII",
           "input objects of parse_cif_atoms (sidecar classes of parser_v2_cif_c): NamedFile = an open text file (declared: not a str, not an io.StringIO; has the attribute `name`; hasattr(obj, 'name') through the external builtins.hasattr: "
           "True for a declared field), StringIn = an io.StringIO (declared: isinstance(.., io.StringIO); seek(0) then read() return its text: externals StringIn.seek / StringIn.read); the isinstance answers are declarations of the class entries "
           "(key `isinstance`), part of the model"]
ASSUMPTIONS = [
    "formal charge is compared as a signed integer (PDB text '2+' = mmCIF integer 2); on paths that pass through PDB an explicit mmCIF charge 0 and an absent charge are not distinguished (PDB has one blank form for both); mmCIF->mmCIF distinguishes them",
    "a blank PDB chain column is the empty chain identifier; such tables can only start from PDB text (paths PDB->PDB and PDB->mmCIF->PDB)",
    "cross paths compare the identifiers PDB can carry (auth_* / PDB columns); label_* columns are compared on mmCIF->mmCIF only",
    "PDB limits leave room for the serial of the TER record that must follow a chain: atom serials <= 99998 (with a last atom 99999 write_pdb numbers the TER 100000, which cannot fit columns 7-11)",
    "a 'chain' for the TER rule is a maximal run of consecutive atom records with one chain identifier inside one model",
    "justification of the atom name inside columns 13-16 and of the residue name inside 18-20 is not judged, only that the field holds the name",
    "the starting table must itself hold the emitted values (otherwise identity would be vacuous); a mismatch there is reported with tag parse-pdb / parse-cif",
    # deductive part (contracts/parser_v2_c.py)
    "DEDUCTIVE quantifier 'within PDB limits' (spec fits_pdb): record name ATOM/HETATM, serial 0..99999, name 1-4 characters, altLoc / chainID / iCode 0-1 character, resName 1-3 characters, resSeq -999..9999, x/y/z strictly between -999.9995 and 9999.9995, occupancy / B strictly between -99.995 and 999.995, element 0-2 characters, charge '' or digit followed by '+'/'-'; for the read-back lemma additionally: text fields do not start or end with whitespace (spec clean_fields - such blanks are the format's own padding)",
    "modelling decision: the dict handed to _format_pdb_atom_line has exactly the keys write_pdb builds (record AtomData, .get(key, default) never falls back to the default); the dict literal of parse_pdb_atoms is the record PdbRecord",
    "definitional lemma strip_definition (NOT proved, it defines the uninterpreted py_strip): for a text of at most 8 characters strip() is the part from the first to the last non-whitespace character ('' if none), whitespace = the 29 characters with str.isspace() in the running CPython",
    "assumed-external lemma float_rejects_digit_sign: float('<digit><sign>') raises ValueError (so the formatter keeps a PDB charge text such as '2+' as it is)",
    "assumed-external lemma float_of_signed_digit (variant _format_pdb_atom_line@signed_charge: the charge handed over as a signed integer text such as '2' / '-1', the mmCIF form): float of an optionally negated single digit is defined and equals the integer it spells",
    "assumed-external lemmas fmt83_roundtrip / fmt62_roundtrip: float(strip(format(x, '8.3f'))) is defined and within 0.0005 of x (0.005 for '6.2f') when x fits the field - 'parse(format(x)) is within half a unit of the last place'",
    "real numbers stand for floats (no nan / inf, no rounding inside the engine): int(float) is truncation of a real",
    # deductive part, row loop of write_pdb (contracts/parser_v2_write_c.py)
    "write_pdb is verified for output=None (the text is returned); the branches that write `content` to a path / file object are not executed by the proof (the loop does not read `output`)",
    "DEDUCTIVE quantifier of write_pdb (requires of contract write_pdb): df.empty holds exactly when the table has no rows (tables with rows but no columns excluded); a table tagged 'PDB' has the 16 columns "
    "parse_pdb_atoms builds, a table tagged 'mmCIF' has group_PDB, id, label_atom_id, label_comp_id, label_seq_id, Cartn_x/y/z, occupancy, B_iso_or_equiv, pdbx_PDB_model_num (auth_* identifiers, "
    "label_alt_id, label_asym_id, pdbx_PDB_ins_code, type_symbol, pdbx_formal_charge may be missing); in every row the record-name cell is a str and the numeric cells are accepted by int() / float() "
    "(spec readable); the atom a row stands for (specs atom_pdb / atom_cif: which column feeds which PDB field, author identifiers before label identifiers, missing values -> '') is within PDB limits "
    "(spec fits_any = fits_core plus a charge that is blank, digit+sign, or an optionally negated digit); the last atom of every chain has serial <= 99998 and a residue name without leading / trailing "
    "whitespace (spec ter_fits: what _format_pdb_ter_line's contract requires)",
    "DERIVED callee contract format_atom_any (contracts/parser_v2_write_c.py, not a verify target): {RA or RB} _format_pdb_atom_line {(RA -> EA) and (RB -> EB)} obtained by the Hoare conjunction / consequence "
    "rules from the two contracts {RA} f {EA} (_format_pdb_atom_line) and {RB} f {EB} (_format_pdb_atom_line@signed_charge) proved above on the same function; built mechanically from their clause lists",
    "the contract used for _format_pdb_ter_line at write_pdb's call sites is the proved contract of parser_v2_c (same requires / ensures objects) with the additional call-site obligation that an Optional argument is not None",
    "a 'model' is a maximal run of consecutive rows with one model number, a 'chain' a maximal run of consecutive rows with one (model number, chain identifier) - as in the bounded oracle",
    # deductive part, mmCIF legs (contracts/parser_v2_cif_c.py)
    "write_cif is verified up to the hand-over to the mmcif library (prefix contract write_cif@rows, cut in front of `atom_site_category = DataCategory(..)`); the `output` parameter is not read before the cut",
    "DEDUCTIVE quantifier of write_cif@rows (requires): every name in df.columns is a column; a table whose format tag is not 'mmCIF' (the code treats every such table as PDB-format) has the 16 columns parse_pdb_atoms builds, "
    "its serial / resSeq / model cells are accepted by int(), its x / y / z / occupancy / tempFactor cells by float() (spec numbers_readable), and the text of its charge cells is ASCII",
    "the property does not say which of the two mmCIF null markers stands for a missing value: the clauses accept '?' or '.' (spec null_marker); label_entity_id (generated by write_cif, not a table field) is only required not to be a null marker",
    "parse_cif_atoms is verified under the same prefix contract for its three input forms: content a str (@decode: text -> temporary file -> reader), an io.StringIO (@decode_stringio: seek(0), read(), temporary file) and an open text file with a "
    "name (@decode_file: the reader gets content.name - the form used by splitter / aligner / unifier); the final `raise TypeError` for any other argument is not covered; "
    "everything from `category = data[0].getObj('atom_site')` on is common to the three",
    "DEDUCTIVE quantifier of parse_cif_atoms@decode (requires): NB >= 0; the item names ATTRS of the atom_site category are pairwise different (a CIF loop_ cannot name an item twice - otherwise the later column would win in the dict); "
    "rows may be shorter or longer than the item list (zip stops at the shorter one: the clauses speak about k < min(len(ATTRS), len(ROWS[j])))",
    "parse_cif_atoms raises IndexError exactly when the reader returns no data block (NB == 0; proved as raises.IndexError.only-when / whenever); a missing or empty atom_site gives pd.DataFrame() (no claim about that table)",
    "assumed-external lemmas fmt3_roundtrip / fmt2_roundtrip (parser_v2_cif_c): for x strictly between -999.9995 and 9999.9995 (-99.995 and 999.995) format(x, '.3f') (format(x, '.2f')) is a float literal within 0.0005 (0.005) of x and is not '?' / '.'",
    "hypotheses of the one-row lemmas pdb_row_through_cif / pdb_atom_back_from_cif: the row's atom is within PDB limits (spec fits_pdb of parser_v2_c on atom_pdb(r)), model number 0..9999, atom name / residue name / chain are not '?' or '.', "
    "an optional text cell (altLoc, iCode, element, charge) that holds a value holds a non-empty text other than '?' / '.' (spec texts_survive_cif - such texts cannot be told from the null markers once written); "
    "cif_row_through_cif: a present cell text is not '?' / '.'",
]
EXPLANATION = ("DEDUCTIVE (string level, real code of parser_v2.py re-read on every run): "
               "(1) _format_pdb_atom_line under contract: for atom data within PDB limits the result has exactly 80 columns and every field sits at its PDB 3.3 columns - "
               "1-6 record name, 7-11 serial right-justified, 13-16 atom name (the code's alignment rule: a name of < 4 characters starting with a letter begins in column 14, every other name in column 13), "
               "17 altLoc, 18-20 resName right-justified, 22 chainID, 23-26 resSeq right-justified, 27 iCode, 31-38/39-46/47-54 x/y/z as format(.., '8.3f'), 55-60 / 61-66 occupancy / B as format(.., '6.2f'), "
               "77-78 element right-justified, 79-80 charge, blanks in 12, 21, 28-30, 67-76 (clauses LAYOUT; proof: each field's width where it is computed, lemma layout80 for the column arithmetic). "
               "(1b) the same function under the variant contract @signed_charge: a charge given as signed integer text ('2', '-1', '0') appears in columns 79-80 as magnitude digit then sign ('2+', '1-'), blank for 0, all other clauses as in (1). "
               "(2) _format_pdb_ter_line under contract: 80 columns, 1-6 'TER   ', 7-11 serial, 18-20 resName, 22 chainID, 23-26 resSeq, 27 iCode, blanks elsewhere. "
               "(3) parse_pdb_atoms@decode, a PREFIX contract on the real function up to (not including) the pandas DataFrame construction: the `records` list holds exactly one record per ATOM/HETATM line, in file order, "
               "every field being its PDB 3.3 column range with surrounding whitespace removed (optional fields None when blank), model = serial of the last preceding MODEL record with a readable serial, else 1. "
               "(4) lemmas inv_* (one per field), int_of_str and their composition roundtrip_line: a line that satisfies the LAYOUT clauses for atom data a (= postcondition of 1), decoded as in (3), gives back record type, serial, "
               "atom name, altLoc, resName, chain, resSeq, iCode, element, charge exactly and x/y/z to 0.0005, occupancy / B to 0.005 (numbers through int()/float() of the decoded text; float formatting/parsing assumed). "
               "NOT deductive (bounded below): the pandas row loops of write_pdb / write_cif incl. the MODEL/ENDMDL/TER state machine, the DataFrame construction and pandas.to_numeric / categorical conversion at the end of parse_pdb_atoms, "
               "everything mmCIF (parse_cif_atoms, write_cif, the mmcif library), fit_to_pdb. "
               "BOUNDED: generated atom tables within PDB limits are emitted as PDB and mmCIF text by independent emitters, read by parse_pdb_atoms / "
               "parse_cif_atoms, then sent through write_pdb / write_cif and read back along the four paths; every listed field of every row is compared with the "
               "table that was written; every PDB text produced by write_pdb is sliced by our own PDB 3.3 column table. Corpus files go through the same paths. "
               "DEDUCTIVE, added later (supersedes 'NOT deductive: the pandas row loop of write_pdb' above; write_cif, the DataFrame construction and everything mmCIF-library stay bounded): "
               "(5) write_pdb under contract (contracts/parser_v2_write_c.py; whole function for output=None, real code re-read on every run; pandas abstracted to iterrows / row.get / pd.isna / cell conversions, "
               "the StringIO buffer to its list OUT of written chunks, result = joined(OUT)). Ghost maps kept along the real loop: POS[i] = position in OUT of the atom line of row i, LINES[i] = the string "
               "_format_pdb_atom_line returned for row i, TER[i] = the string _format_pdb_ter_line returned for the chain ending with row i; every quantified variable is a row index (existence-free). Clauses: "
               "[one-atom-line-per-row, atom-line-of-row-i-at-POS-i, atom-lines-in-table-order] every row has exactly one position POS[i], OUT[POS[i]] == LINES[i] + newline, POS strictly increasing; "
               "[atom-line-is-the-formatter-layout-of-the-row] LINES[i] satisfies the postcondition of _format_pdb_atom_line for the atom built from row i, i.e. 80 columns with every field at its PDB 3.3 columns; "
               "[MODEL-opens-the-first-model, ENDMDL-then-MODEL-at-every-model-change, ENDMDL-closes-the-last-model] OUT[0] is 'MODEL' + the first row's model number right-justified in 4 columns and POS[0] == 1; where the model number changes "
               "between rows i and i+1 the chunks after row i's atom line are TER, 'ENDMDL', the MODEL record of row i+1's model, then row i+1's atom line (POS[i+1] == POS[i] + 4); behind the last row: TER, 'ENDMDL' "
               "(so every atom line lies between a MODEL and the next ENDMDL, also for a single model); "
               "[TER-after-the-last-atom-of-every-chain] for every row i that ends a chain (last row, or next row has another model or chain identifier - a blank identifier is a chain identifier) OUT[POS[i] + 1] == TER[i] + newline "
               "and TER[i] satisfies the postcondition of _format_pdb_ter_line for serial = serial(i) + 1, the residue name / number / insertion code and the chain identifier of row i - before the next chain's first atom and before ENDMDL; "
               "[nothing-between-atoms-of-one-chain, only-TER-between-chains-of-one-model, END-and-nothing-more, empty-table-END-only] inside a chain POS[i+1] == POS[i] + 1, at a chain change inside a model POS[i+1] == POS[i] + 2, "
               "behind the last ENDMDL only 'END' (len(OUT) == POS[N-1] + 4), an empty table gives 'END' alone: together these fix every position of OUT. "
               "[raises.ValueError.only-when / whenever] ValueError exactly when the table has rows and its format tag is neither 'PDB' nor 'mmCIF'. "
               "Proof: loop invariants over the same maps; the string-level predicates (layout of a line, same chain / model, MODEL text) are named by explicit ghost definitions and unfolded instance by instance. "
               "DEDUCTIVE, mmCIF legs (contracts/parser_v2_cif_c.py; supersedes 'write_cif ... everything mmCIF stay bounded' above as far as stated here): "
               "(6) _pdb_charge_to_int_str under contract: with t = the cell text without surrounding whitespace, a PDB charge (digit, sign) becomes the optionally negated digit ('2+' -> '2', '1-' -> '-1'; "
               "lemma signed_text_value: that text spells the integer the PDB text stands for), the sign-first spelling likewise, every other text is handed on unchanged. "
               "(7) write_cif@rows, PREFIX contract on the real function up to (not including) the construction of the mmcif DataCategory: [item-names-..] for a table tagged 'mmCIF' the item names are the table's columns in order, "
               "for every other table the 21 names group_PDB, id, type_symbol, label_atom_id, label_alt_id, label_comp_id, label_asym_id, label_entity_id, label_seq_id, pdbx_PDB_ins_code, Cartn_x/y/z, occupancy, B_iso_or_equiv, "
               "pdbx_formal_charge, auth_seq_id, auth_comp_id, auth_asym_id, auth_atom_id, pdbx_PDB_model_num; [one-atom_site-row-per-table-row] len(rows) == number of table rows; [PDB-table-row-i-item-by-item] rows[i] has 21 texts: "
               "group_PDB = record type, id = serial, label_atom_id = auth_atom_id = atom name, label_comp_id = auth_comp_id = residue name, label_asym_id = auth_asym_id = chain, label_seq_id = auth_seq_id = residue number, "
               "pdbx_PDB_model_num = model (integers as decimal texts), Cartn_x/y/z = format(.., '.3f'), occupancy / B_iso_or_equiv = format(.., '.2f'), type_symbol / label_alt_id / pdbx_PDB_ins_code = element / altLoc / iCode or a null "
               "marker ('?' or '.') when the cell is missing, pdbx_formal_charge = a null marker when missing, else for a PDB charge text the signed integer text of (6); [mmCIF-table-row-i-column-by-column] rows[i][k] is the text of "
               "column k's cell, '?'/'.' when missing; no KeyError / ValueError under the stated requires. The tail (DataCategory, DataContainer.append, IoAdapterPy.writeFile, temporary file) is the mmcif library's writer: trusted, bounded only. "
               "(8) parse_cif_atoms@decode / @decode_stringio / @decode_file, one PREFIX contract for the three input forms (str, io.StringIO, open file with a name) up to (not including) `df = pd.DataFrame(records)`, relative to the document (NB, HAS, ATTRS, ROWS) the mmcif reader returns: "
               "[reached-only-with-a-non-empty-atom_site] the cut is reached only if the first block has an atom_site with at least one row (otherwise pd.DataFrame() is returned; IndexError exactly when NB == 0); "
               "[item-names-are-the-category's, one-record-per-atom_site-row] attributes == ATTRS, len(records) == len(ROWS); [entry-of-item-k-is-cell-k-null-markers-None] records[j][ATTRS[k]] is ROWS[j][k], None when that text is '?' or '.'; "
               "[no-other-keys] records[j] has no key besides those item names. From there on the function is pandas from top to bottom (DataFrame(records), to_numeric, astype): not under contract, bounded only. "
               "(9) one-row compositions (lemmas, proved): pdb_row_through_cif - a row of a PDB-format table within PDB limits, the 21 items of (7), decoded as in (8), gives a record holding record type, serial, atom name, altLoc (None when absent), "
               "residue name, chain, residue number, iCode, element under the mmCIF item names exactly, x/y/z to 0.0005 and occupancy / B to 0.005 through float() of the text, the charge as the signed integer text of the PDB charge, the model; "
               "cif_row_through_cif - a row of an mmCIF-format table comes back column by column (None for missing); pdb_atom_back_from_cif - if the table row built from that record is what the (trusted) pandas tail is taken to build "
               "(spec frame_holds_record), the atom write_pdb reads from it (spec atom_cif of (5): author identifiers first) has the PDB row's record name, serial, name, altLoc, residue name, chain, residue number, iCode, element, model, "
               "coordinates within 0.0005, occupancy / B within 0.005 and the charge as signed-digit text of the same integer (the form (1b) lays out as digit, sign), and the row satisfies write_pdb's precondition `readable` - "
               "so the chain PDB table -> (7) -> [mmcif writer/reader, trusted] -> (8) -> [pandas tail, trusted] -> (5) -> (1b) -> (3) -> (4) is closed at the level of one row for the cross path PDB->mmCIF->PDB. "
               "STAYS BOUNDED ONLY: the mmcif library (quoting, text form), the pandas tails of both readers, the output= branches of both writers (write_cif@rows does not read `output` before its cut), fit_to_pdb, "
               "the direction mmCIF->PDB->mmCIF beyond (5)+(3)+(4) (no lemma composes parse_pdb_atoms' table with write_cif's mmCIF-format branch: the table parse_pdb_atoms builds is PDB-format, covered by (7) [PDB-table-row-i-item-by-item]).")

CHECKS = [
    # (check name, aspect, nontrivial(info))
    ("roundtrip-pdb-pdb", "pdb-pdb", lambda i: i.get("corpus") or i["altloc"] or i["icode"] or i["wide"] or i["het"] or i["zero"]),
    ("roundtrip-cif-cif", "cif-cif", lambda i: i.get("corpus") or (not i["blank_chain"] and (i["altloc"] or i["icode"] or i["zero"] or i["het"]))),
    ("roundtrip-pdb-cif-pdb", "pdb-cif-pdb", lambda i: i.get("corpus") or i["altloc"] or i["icode"] or i["wide"] or i["het"] or i["zero"]),
    ("roundtrip-cif-pdb-cif", "cif-pdb-cif", lambda i: i.get("corpus") or (not i["blank_chain"] and (i["altloc"] or i["icode"] or i["wide"] or i["het"] or i["zero"]))),
    ("formal-charge", "charge", lambda i: i.get("corpus") or i["charge"]),
    ("pdb-80-column-layout", "layout", lambda i: True),
    ("pdb-model-endmdl", "model", lambda i: i.get("corpus") or len(i["models"]) > 1 or i["models"] != [1]),
    ("pdb-ter-after-chain", "ter", lambda i: i.get("corpus") or len(i["chains"]) > 1 or len(i["models"]) > 1),
]
RULES = {
    "roundtrip-pdb-pdb": "parse_pdb_atoms(write_pdb(T)) = T on record type, serial, atom name, altloc, residue name, chain, residue number, insertion code, x/y/z (0.001), occupancy and B (0.01), element, model; T = parse_pdb_atoms(independently emitted text) and T itself must hold the emitted values",
    "roundtrip-cif-cif": "parse_cif_atoms(write_cif(T)) = T on the same fields (auth_* and label_* identifiers, '?' or '.' null markers, quoted names, with/without pdbx_formal_charge and auth_atom_id columns)",
    "roundtrip-pdb-cif-pdb": "PDB table -> write_cif -> parse_cif_atoms -> write_pdb -> parse_pdb_atoms gives the PDB table back (also judged at the intermediate mmCIF table)",
    "roundtrip-cif-pdb-cif": "mmCIF table within PDB limits -> write_pdb -> parse_pdb_atoms -> write_cif -> parse_cif_atoms gives the same PDB-visible fields back (also judged at the intermediate PDB table)",
    "formal-charge": "formal charge (signed integer) is preserved along all four paths and by the first parse",
    "pdb-80-column-layout": "every ATOM/HETATM/TER line written by write_pdb on any path is 80 columns and holds, sliced by our own column table (1-6, 7-11, 13-16, 17, 18-20, 22, 23-26, 27, 31-38, 39-46, 47-54, 55-60, 61-66, 77-78, 79-80; blanks elsewhere; TER: 7-11 serial, 18-20, 22, 23-26, 27 of the chain's last residue), exactly the values of the table handed to write_pdb",
    "pdb-model-endmdl": "every model run of the table handed to write_pdb is enclosed by 'MODEL' (serial in columns 11-14) and 'ENDMDL', no atom outside, no nesting, MODEL numbers in table order",
    "pdb-ter-after-chain": "inside every model the record following the last atom of every chain (maximal run of one chain id) is a TER",
}


def cases_for(tier, seed):
    rng = rng_for(seed, "c09")
    n = 170 if tier == "quick" else 2200
    seeds = [rng.randrange(10 ** 9) for _ in range(n)]
    # multiples of 10 carry a blank chain identifier (PDB only): keep a tenth of the cases of that kind
    seeds = [s - s % 10 if k % 10 == 0 else (s + 1 if s % 10 == 0 else s) for k, s in enumerate(seeds)]
    limit = 800000 if tier == "quick" else 10 ** 9
    files = [os.path.basename(p) for p in G.corpus(tier) if os.path.getsize(p) < limit]
    return seeds, files


def retag(result):
    """descriptive, stable signatures: '<defect tag>@<check>:<case>'; at most two violations per tag"""
    seen = {}
    keep = []
    for v in result["violations"]:
        tag = v["what"].split(": ")[0]
        v["signature"] = f"{tag}@{result['name']}:{v['input']['case']}"
        seen[tag] = seen.get(tag, 0) + 1
        if seen[tag] <= 2 and len(keep) < 8:
            keep.append(v)
    result["violations"] = keep
    return result


def bounded(tier, seed):
    seeds, files = cases_for(tier, seed)
    cases = files + seeds
    bound = f"{len(seeds)} generated tables (1-3 models, 1-3 chains, <= ~150 atoms; a tenth with a blank chain id) + {len(files)} corpus files"
    out = []
    for name, aspect, nt in CHECKS:
        out.append(retag(run_cases(name, cases, R.aspect_oracle(aspect), lambda c, nt=nt: bool(nt(R.info_of(c))), RULES[name], bound, sig=str, max_viol=10 ** 6,
                             relates="write_pdb|write_cif|parse_pdb_atoms|parse_cif_atoms|_format_pdb_atom_line")))
    def at_a_limit(sd):  # tables that touch the largest / smallest value a PDB column holds come first
        recs = R.synthetic(sd)[0]
        return bool(recs) and (max(r["resnum"] for r in recs) == 9999 or min(r["resnum"] for r in recs) == -999 or max(r["serial"] for r in recs) >= 99990)
    ordered = sorted(seeds, key=lambda sd: not at_a_limit(sd))
    sub = ordered[:40] if tier == "quick" else ordered[:400]
    out.append(retag(run_cases("splitter-main", sub, R.splitter_case, lambda c: True,
                               "splitter.main in-process on the PDB and the mmCIF text of the table, --format PDB / mmCIF / keep: every written model file, read back, holds "
                               "exactly the rows of that model (all fields of the round trip; the data fit PDB field widths, so fitting must change nothing)",
                               f"{len(sub)} generated tables x 2 input formats x 3 output formats", sig=str, max_viol=10 ** 6,
                               relates="write_pdb|write_cif|parse_pdb_atoms|parse_cif_atoms|fit_to_pdb")))
    R.evaluate.cache_clear()
    return out


def replay(inp):
    if inp["check"] == "splitter-main":
        errs = R.splitter_case(int(inp["case"]))
        return {"fails": bool(errs), "errors": errs[:3]}
    aspect = dict((n, a) for n, a, _ in CHECKS)[inp["check"]]
    errs = R.replay_case(aspect, inp["case"])
    return {"fails": bool(errs), "errors": errs[:3]}
