"""shared driver for the 3D annotation properties (C03, C04, C11): annotate corpus variants, apply an oracle"""
import time

from gen import structures as G
from props._util import rng_for


def annotate(structure):
    from rnapolis.annotator import extract_base_interactions
    return extract_base_interactions(structure)


def run(name, tier, seed, oracle, nontrivial_count, rule, relates):
    """oracle(structure, interactions, find) -> errs; nontrivial_count(interactions) -> int"""
    rng = rng_for(seed, name)
    t0 = time.time()
    ev, nt, viol, samples = 0, 0, [], []
    for path in G.corpus(tier):
        for tag, s in G.variants(path, rng, tier):
            ev += 1
            try:
                inter = annotate(s)
                errs = oracle(s, inter, lambda nt_, s=s: s.find_residue(nt_.label, nt_.auth))
                k = nontrivial_count(inter)
            except Exception as e:
                errs, k = [f"raised {type(e).__name__}: {e}"], 0
            if k > 0:
                nt += 1
            if len(samples) < 3:
                samples.append({"check": name, "input": tag, "interactions": k})
            if errs and len(viol) < 5:
                viol.append({"what": f"{tag}: {errs[0]}"[:300], "signature": f"{name}:{tag}:{errs[0][:80]}",
                             "input": {"check": name, "case": tag, "seed": seed, "tier": tier}, "relates": relates})
    return {"name": name, "evaluations": ev, "distinct_nontrivial": nt, "violations": viol, "samples": samples, "rule": rule,
            "bound": f"{ev} structures ({tier} corpus x identity/rigid/jitter/thinning)", "wall_s": round(time.time() - t0, 1)}
