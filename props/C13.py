"""C13 Dot-bracket generation survives every solver configuration and solver fault"""
import itertools

from gen.pairings import pairings_upto, random_structure
from oracles import solver_o as S
from props._util import rng_for, run_cases
from props.C01 import knotted

LEVEL = "other"
DEDUCTIVE = []
TRUSTED = ["z3 5.1.0", "pulp's LpProblem.solve dispatches to solver.actualSolve", "CPython 3.12"]
ASSUMPTIONS = []
EXPLANATION = "see DESIGN.md 4/C13"


def bounded(tier, seed):
    rng = rng_for(seed, "c13")
    structs = [p for p in pairings_upto(6 if tier == "quick" else 7) if knotted(p)]
    structs += [random_structure(rng, rng.randint(14, 40), rng.randint(3, 6)) for _ in range(10 if tier == "quick" else 100)]
    structs += [(0, 0, 0), (3, 0, 1), ()]
    cases = [(p, c, f) for p in structs for c in S.CONFIGS for f in S.FAULTS if not (c == "none" and f != "ok")]
    return [run_cases("fault-matrix", cases, S.c13_check, lambda c: knotted(c[0]),
                      "configurations {HiGHS, CBC, none} x faults {ok, raises PulpSolverError, not-solved, infeasible, unbounded, undefined} x knotted structures, through dot_bracket and convert_to_dot_bracket",
                      f"{len(structs)} structures x 13 (config,fault) cells", sig=lambda c: f"{''.join(map(str, c[0])) if max(c[0], default=0) < 10 else c[0]}|{c[1]}|{c[2]}",
                      relates="convert_to_dot_bracket|dot_bracket")]


def replay(inp):
    c = inp["case"]
    errs = S.c13_check((tuple(c[0]), c[1], c[2]))
    return {"fails": bool(errs), "errors": errs[:3]}
