"""C13 Dot-bracket generation survives every solver configuration and solver fault"""
import itertools

from gen.pairings import pairings_upto, random_structure
from oracles import solver_o as S
from props._util import rng_for, run_cases
from props.C01 import knotted

LEVEL = "other"
DEDUCTIVE = [{"module": "rnapolis.common", "sidecar": "contracts.common_milp_c",
              "targets": ["BpSeq.dot_bracket", "BpSeq.convert_to_dot_bracket", "lemma:esum_witness"]}]
TRUSTED = ["z3 5.1.0 / cvc5 1.0.3", "pyvc encoding of Python semantics (DESIGN 2.3)", "CPython 3.12",
           # assumed contracts of third-party / stdlib calls (contracts/common_milp_c.py EXTERNALS; each is the trusted base)
           "pulp.HiGHS_CMD(): a new solver object; solver.available(): ANY truth value; pulp.LpSolverDefault (symbolic module "
           "attribute): ANY solver object or None",
           "pulp.LpProblem(name, sense): new object, no objective, empty constraint list; pulp.LpVariable(name, lo, hi, cat): new "
           "object (identity) with these attributes; variable.getName() returns the name",
           "pulp term algebra (free, nothing evaluated): var*int / int*var / mono*int -> monomial (var, coef); var+var -> two-variable "
           "sum; lpSum(list of variables | list of monomials) -> list sum; expr <=|==|>= int -> constraint (expr, sense, rhs)",
           "LpProblem.__iadd__: constraint -> appended to the constraint list; affine expression -> objective; True -> nothing; "
           "False / other -> TypeError",
           "LpProblem.variables(): the variables occurring in the objective or a constraint, each once, arbitrary order",
           "T-solver (LpProblem.solve): raises PulpSolverError or returns with status = ANY integer and arbitrary values, except: "
           "status == LpStatusOptimal and all variables Integer => every value is an integer within the variable's bounds and every "
           "constraint that was added holds (sum constraints through the running sum esum, lemma esum_definition)",
           "itertools.combinations(range(n), 2): every pair a < b exactly once; collections.defaultdict(set|list); "
           "str.split(sep) as uninterpreted parts characterised by lemma split3",
           "callee contracts proved under C01 (contracts/common_c.py): BpSeq.__regions, BpSeq.__make_dot_bracket, BpSeq.fcfs"]
ASSUMPTIONS = [
    "levels30(self): the structure needs at most 30 levels under FCFS (precondition of BpSeq.fcfs, C01; property quantifier)",
    "degree30(self) (definition lemma degree30_definition: for every stem a, a set S that holds exactly the stems crossing a has "
    "len(S) <= 29): no stem crosses more than 29 other stems, so that max_order = max degree + 1 <= 30 = number of bracket types.  This is STRONGER than the property's 'needs at most 30 levels': for a structure "
    "with a stem crossing >= 30 others the model allows levels >= 30 and only the solver's optimality (not T-solver feasibility) "
    "could keep orders[i] < 30 - out of reach, such structures are excluded here",
    "esum_definition (definition): esum(k, n) is the running sum of the values of the first n variables of list-sum constraint k",
    "numeral_definition / numeral_definition_all (definition): numeral(s) abbreviates 'matches [0-9]+'",
    "split3 (assumed fact about str.split): (a + '_' + b + '_' + c).split('_') == [a, b, c] when a, b, c contain no '_'",
    "int_str_roundtrip (assumed fact about int()/str()): for n >= 0, str(n) matches [0-9]+, contains no '_', and int(str(n)) == n",
    "len() of a set of ints is the uninterpreted function len.set of the set value, >= 0 and >= 1 for a set with a member "
    "(engine, SET_CARD_FUNCTION); nothing else about cardinalities is used",
]
EXPLANATION = (
    "Under contract (contracts/common_milp_c.py, real source re-read on every run): BpSeq.dot_bracket (solver selection: "
    "HiGHS available or not x LpSolverDefault object or None, all paths) and BpSeq.convert_to_dot_bracket(solver) with a "
    "NONDETERMINISTIC solver: solve raises PulpSolverError or returns ANY status; raises = [] (never raises: every IndexError / "
    "KeyError / ValueError / TypeError of the body is an obligation - incl. calling the DotBracket returned by the cached property "
    "self.fcfs); ensures on EVERY exit: length, sequence, lossless(self.entries, result.pairs) (C01 vocabulary), fresh; ensures "
    "'fcfs-when-no-optimum': solver is None or the solver raised or status != Optimal => the exit taken is a `return self.fcfs`. "
    "Exits: (a) no solver -> fcfs contract; (b) empty conflict graph -> __make_dot_bracket(regions, zeros), its precondition "
    "proper() proved from the graph loop invariant (edges == crossing pairs); (c) PulpSolverError and (d) status != Optimal -> "
    "fcfs; (e) read-back -> __make_dot_bracket(regions, orders): proper(regions, orders) proved from the constraints the code "
    "ADDED (one-level-per-region sums, adjacency pairs; loop invariants over the free pulp term algebra with ghost maps), "
    "T-solver feasibility, lemma esum_witness (a 0/1 sum >= 1 has a summand 1, proved by induction) and the name parsing "
    "(split/int inverse of the f-string). Bounded stand-in: fault matrix on real pulp with injected faults."
)


def bounded(tier, seed):
    rng = rng_for(seed, "c13")
    structs = [p for p in pairings_upto(6 if tier == "quick" else 7) if knotted(p)]
    structs += [random_structure(rng, rng.randint(14, 40), rng.randint(3, 6)) for _ in range(10 if tier == "quick" else 100)]
    structs += [(0, 0, 0), (3, 0, 1), ()]
    cases = [(p, c, f) for p in structs for c in S.CONFIGS for f in S.FAULTS if not (c == "none" and f != "ok")]
    return [run_cases("fault-matrix", cases, S.c13_check, lambda c: knotted(c[0]),
                      "configurations {HiGHS, CBC, none} x faults {ok, raises PulpSolverError, not-solved, infeasible, unbounded, undefined} x knotted structures, through dot_bracket and convert_to_dot_bracket",
                      f"{len(structs)} structures x 13 (config,fault) cells", sig=lambda c: f"{''.join(map(str, c[0])) if max(c[0], default=0) < 10 else c[0]}|{c[1]}|{c[2]}",
                      relates="convert_to_dot_bracket|dot_bracket")]


def replay(inp):
    c = inp["case"]
    errs = S.c13_check((tuple(c[0]), c[1], c[2]))
    return {"fails": bool(errs), "errors": errs[:3]}
