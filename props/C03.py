"""C03 Reported base pairs are geometrically justified, edge-exclusive and maximal"""
from oracles import geom_o as GO
from props import _geom

LEVEL = "other"
_PAIRS = {"module": "rnapolis.annotator", "sidecar": "contracts.annotator_pairs_c",
          # stage order: a short z3 attempt, then cvc5 (which answers these string/array obligations at once where z3 wanders), then
          # the usual z3 stages; only `unsat` discharges
          "opts": {"z3_probe_ms": 400, "cvc5_probe_s": 8, "z3_first_ms": 1000}}
DEDUCTIVE = [
    dict(_PAIRS, targets=["detect_cis_trans", "angle_between_vectors@total", "find_pairs@table", "find_pairs@contacts"]),
    dict(_PAIRS, targets=["find_pairs@labels", "find_pairs@labels_complete", "find_pairs@greedy", "find_pairs@output", "find_pairs@safe"]),
]
TRUSTED = [
    "CPython 3.12 (list / dict / set / tuple / str semantics as encoded by pyvc; dict.fromkeys(xs) as the dict comprehension {x: None for x in xs}; "
    "`if x:` on an Optional object narrows x to not None; table.get(k, dict()).get(..) on constant tables as a guarded choice of constants)",
    "scipy.spatial.KDTree(points).query_pairs(r): exactly the set {(i, j): 0 <= i < j < n, sqdist(p_i, p_j) <= r*r} with sqdist the squared Euclidean "
    "distance, left uninterpreted and shared with the specification (contracts/annotator_c.py ext_kdtree, ext_query_pairs, reused)",
    "sorted(set of (int, int)): the members, each once, in strictly increasing lexicographic order; sorted(list of (Residue3D, Residue3D, LeontisWesthof)): "
    "a permutation in which no later element is smaller under the tuple order built on Residue3D.__lt__ (contracts/annotator_pairs_c.py ext_sorted; only "
    "the consequences written there are used)",
    "collections.Counter(xs).most_common(): a list of (key, count) with each distinct key of xs once, count >= 1, and count >= 2 exactly when the key occurs at "
    "two different positions of xs (consequences of 'count = number of occurrences'); NOTHING is assumed about the order of the list (Python documents "
    "descending counts with ties in first-occurrence order; the proof holds for every order) (ext_counter, ext_most_common)",
    "rnapolis.tertiary.torsion_angle(a1, a2, a3, a4): a real number depending only on the four atoms (uninterpreted torsion_of, shared with the "
    "specification; its value is the subject of C18); math.degrees, math.acos, numpy.dot: uninterpreted, shared with the specification; "
    "numpy.linalg.norm(v): the non-negative n with n*n == v.v",
    "z3 / cvc5 1.0.3 string, array and quantifier reasoning (only `unsat` discharges; stage order z3 probe -> cvc5 -> z3, see DEDUCTIVE opts)",
]
ASSUMPTIONS = [
    "A-real (floats as reals); thresholds are EPS-sandwiched with EPS = 1e-6: a recorded contact lies inside (50 - EPS, 130 + EPS) degrees, a contact inside "
    "(50 + EPS, 130 - EPS) must be recorded; cis/trans: torsion inside (-90 + EPS, 90 - EPS) gives 'c', outside [-90 - EPS, 90 + EPS] gives 't' "
    "('contacts within 1e-6 of a threshold are undecided')",
    "requires of find_pairs@table/@contacts/@safe: distinct atoms of the residues of the analysed model have distinct coordinates (REQ_DISTINCT; the "
    "coordinate-keyed dictionaries of find_pairs lose rows otherwise - existing assumption 'listed atoms of a structure have distinct coordinates')",
    "requires of find_pairs@contacts/@safe: every atom carries the label / auth identifiers of its residue and a residue has at least one of the two "
    "(REQ_IDS: how the library's readers build Residue3D); Atom.coordinates == numpy.array([x, y, z]) (REQ_COORDS: cached property read as a stored "
    "attribute); an existing base normal is a non-zero vector (REQ_NORMAL: tertiary.py returns a unit vector; NaN is outside A-real)",
    "Residue3D.base_normal_vector (cached property) is read as a stored attribute; label / auth identifiers are opaque tokens (only copied and compared)",
    "`==` / hash of Residue3D and Atom objects met by find_pairs (set `occupied`, set `used_atoms`, Counter keys) is object identity: true when no two "
    "residue objects of the structure are field-wise equal; for listed atoms implied by REQ_DISTINCT (equal atoms would share coordinates)",
    "definitional lemmas first_idx_definition, vangle_definition, residue_order_definition (contracts/annotator_c.py): first_idx = least index of an atom "
    "of that name, vangle = arccos of the normalised dot product, rlt = lexicographic order of (model, chain, number, icode or ' '); "
    "Residue3D.find_atom, Residue3D.__lt__ and angle_between_vectors are proved to return them (C04 / C11 targets, angle_between_vectors@total here)",
    "callee contracts used at call sites: Residue3D.find_atom, Residue3D.__lt__ (verified targets of C04), detect_bph_br_classification (verified target of "
    "C11), detect_cis_trans, angle_between_vectors@total (verified here); detect_saenger@ord is ASSUMED: it re-states the C11 contract of detect_saenger "
    "(proved there for the enum parameter modelled as the record (name, value)) for the engine's ordinal encoding of an enum member read back from a list",
    "pinned reference tables: spec/tables.py BASE_EDGES / BASE_DONORS / BASE_ACCEPTORS / RIBOSE_ACCEPTORS / PHOSPHATE_ACCEPTORS / HBOND_MAX / HBOND_ANGLE; "
    "the code reads its own tables from the real module on every run, a changed entry makes code and pin disagree in a named obligation",
    "the cis/trans letter is stated for the order (residue_i, residue_j) in which the contact was enumerated; that the C1'-N...N-C1' torsion of the reversed "
    "order is the same number is geometry (C18) and is not used",
    "find_pairs is verified as a PREFIX (up to `bph_map = merge_and_clean_bph_br(...)`): `base_pairs` is complete there and is not assigned afterwards "
    "(visible in the source, not an obligation); merge_and_clean_bph_br and the BasePhosphate / BaseRibose assembly use OrderedSet / defaultdict objects, "
    "which pyvc does not model",
]
EXPLANATION = (
    "Functions under contract (pyvc, SMT): detect_cis_trans (32 obligations: None iff a C1' / N1-N9 atom is missing, else 'c' iff the torsion is inside "
    "(-90, 90) degrees, N9 for A/G else N1), angle_between_vectors@total, and find_pairs, cut at its phases. Every phase is a prefix contract on the REAL "
    "function body (symbolic execution stops in front of `bph_map = ...`); a phase variant gives the loops of the other phases the invariant `true`, so "
    "its clauses hold for EVERY value of the earlier phases' outputs - nothing is assumed about the state a phase starts from. "
    "find_pairs@table (phase 0/4, loops over residues / atom names): row k of `coordinates` is the atom named GN[k] of residue GA[k] of the model, a "
    "listed donor/acceptor name of the pinned tables, present in the residue; the three coordinate-keyed dictionaries map its coordinates to that atom, its "
    "type and its residue; DISTINCT ROWS ARE DISTINCT (residue, atom) PAIRS (the repaired defect: with `for atom_name in acceptors + donors` the obligation "
    "ghost.assert[each-atom-name-of-a-residue-is-visited-once] fails) and have distinct coordinates. "
    "find_pairs@contacts (phase 3, loop over sorted(kdtree.query_pairs(4.0))): every recorded hydrogen bond is a row pair i < j in the KD-tree pair set "
    "(squared distance <= 4.0^2) of a donor and an acceptor atom (pinned tables) whose atoms fail the label/auth same-residue test and belong to different "
    "residues, both base normals exist and the contact vector lies inside (50 - EPS, 130 + EPS) degrees off both (angle = the uninterpreted function that "
    "angle_between_vectors is proved to return); two recorded bonds are two different row pairs; COMPLETENESS: every row pair that definitely is such a "
    "contact (EPS inside) and involves no phosphate / ribose oxygen name IS recorded, whatever `used_atoms` holds. "
    "find_pairs@labels (phase 2): every label comes from one recorded bond whose atoms lie on the named edges of the pinned edge table, lower residue "
    "(Residue3D.__lt__) first, with the letter of detect_cis_trans; one bond never yields the same label twice, so two occurrences of a label come from two "
    "different bonds - with @contacts and @table: from two DISTINCT donor-acceptor atom contacts. find_pairs@labels_complete: every (edge, edge) "
    "combination the pinned table gives a recorded bond (both glycosidic frames present) has its label. "
    "find_pairs@greedy (phase 1, loop over Counter(labels).most_common(), any order): every reported triple is a label occurring at two different "
    "positions, its class is the LeontisWesthof member spelled by the label; EXCLUSIVITY: no (residue, edge) key is used by two reported pairs; "
    "MAXIMALITY: every label occurring at two different positions is reported with that class or one of its two (residue, edge) keys is taken by a "
    "reported pair (`occupied` == exactly the keys of reported pairs, it only grows). "
    "find_pairs@output (phase 5): base_pairs is sorted(base_base_pairs) (a rearrangement, ordered by residue order of first then second residue) turned "
    "into BasePair(Residue(label, auth), Residue(label, auth), lw, Saenger of the pinned table). find_pairs@safe: NO exception up to the base-pair list "
    "(IndexError / KeyError of every table and dictionary lookup, ZeroDivisionError of the angle computation, KeyError of LeontisWesthof[...]: the 18 "
    "names are exactly {c,t} x {W,H,S}^2). "
    "Not proved (bounded stand-in decides): that every listed atom present in a residue gets a row (completeness of the atom table; needs the covering "
    "axiom of the dict.fromkeys comprehension, obligations unstable), hence completeness at the level of structure atoms rather than table rows; O2' "
    "contacts in the completeness half (excluded by the property: they may be consumed by base-ribose detection); merge_and_clean_bph_br and the "
    "BasePhosphate / BaseRibose output (C11); real floating point."
)


# observe_at annotator.extract_base_interactions: the wrapper hands the given structure AND model to both searches and files each
# list under its own field (data-flow contract of contracts/glue_c.py; externals / assumptions as listed in props/_glue_text.py)
from props import _glue_text as _GT
DEDUCTIVE = list(DEDUCTIVE) + [{"module": "rnapolis.annotator", "sidecar": "contracts.glue_c", "targets": ["extract_base_interactions"]}]
TRUSTED = list(TRUSTED) + ["glue contract extract_base_interactions (contracts.glue_c): find_pairs / find_stackings are opaque callees there (ghost names for their arguments only); lists are list objects with identity"]
EXPLANATION = EXPLANATION + (" Glue: annotator.extract_base_interactions (contracts.glue_c) - both searches run on the given structure and the given model, "
                             "the four lists are filed under their own fields of BaseInteractions, otherInteractions is a new empty list; a wrapper that drops the model "
                             "for one of the searches (stackings of every model in a multi-model structure) fails `both-searches-run-on-the-given-structure-and-model`.")

def bounded(tier, seed):
    return [_geom.run("pairs-vs-contacts", tier, seed,
                      lambda s, inter, find: GO.c03_check(s.residues, inter.basePairs, find),
                      lambda inter: len(inter.basePairs),
                      "corpus structures and seeded rigid motions / jitter / thinning; contacts recomputed O(n^2); soundness (>=2 contacts on named edges, cis/trans), edge exclusivity, maximality; non-trivial = at least one base pair",
                      "find_pairs")]


from props._util import make_replay
replay = make_replay(bounded)
