"""C03 Reported base pairs are geometrically justified, edge-exclusive and maximal"""
from oracles import geom_o as GO
from props import _geom

LEVEL = "other"
DEDUCTIVE = []
TRUSTED = ["numpy", "scipy KD-tree", "CPython 3.12"]
ASSUMPTIONS = ["A-real; contacts within 1e-6 of a threshold are undecided", "listed atoms of a structure have distinct coordinates"]
EXPLANATION = "see DESIGN.md 4/C03"


def bounded(tier, seed):
    return [_geom.run("pairs-vs-contacts", tier, seed,
                      lambda s, inter, find: GO.c03_check(s.residues, inter.basePairs, find),
                      lambda inter: len(inter.basePairs),
                      "corpus structures and seeded rigid motions / jitter / thinning; contacts recomputed O(n^2); soundness (>=2 contacts on named edges, cis/trans), edge exclusivity, maximality; non-trivial = at least one base pair",
                      "find_pairs")]


from props._util import make_replay
replay = make_replay(bounded)
