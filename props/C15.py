"""C15 Both reader generations and both file formats agree on structure content"""
import os

from gen import structures as G
from oracles import readers_agree_o as A
from props._util import rng_for, run_cases

LEVEL = "other"
DEDUCTIVE = []
TRUSTED = ["gen/emit.py + gen/atomtables_c09.py emitters (independent of the library's writers, unverified)", "numpy", "pandas groupby", "mmcif IoAdapterPy tokeniser",
           "scipy KD-tree (clash filter of the residue-level reader)", "CPython 3.12"]
ASSUMPTIONS = [
    "tables carry no alternate locations and no two atoms closer than 0.5 A (the residue-level reader's clash filter is C08's subject)",
    "tables can be written in both formats: one-character non-blank chain ids (a blank PDB chain has no mmCIF counterpart, so it is outside this property)",
    "residues are compared as a set keyed by (chain, number, insertion code, name); the order in which a reader lists them is not part of the statement",
    "connectivity is compared on chain-consecutive residue pairs of the table (Residue3D.is_connected / tertiary_v2.Residue.is_connected) and, for the table-level reader, on Structure.connected_residues against the same rule (runs of length >= 2, residues ordered by number and insertion code)",
    "|chi| is compared for A,G,C,U,DA,DG,DC,DT residues whose four atoms are present; the table-level reader reports torsions only for residues inside connected segments, other residues are not compared for it",
    "the reference is the generated table itself; an error is a view departing from the table (tag names the view); a departure shared by all four views is tagged unanimous-",
    "for a multi-model table the structure is its first model (what read_3d_structure returns by default); Structure() receives the table exactly as parse_*_atoms returns it",
    "corpus structures are re-serialised from their first model after alternate locations were resolved, chains renamed to one character when needed; atoms with names over 4 characters are left out",
]
EXPLANATION = ("bounded only: generated tables (template nucleotides from small corpus files under random rigid motions incl. far-from-origin placements that need the full "
               "8-column coordinate field, renumbering with negative numbers / insertion codes, broken or near-threshold O3'-P junctions, dropped atoms, hetero groups) and corpus "
               "structures are written as PDB and mmCIF by independent emitters and read by both reader generations; residues, atoms, coordinates, O3'-P connectivity and |chi| "
               "are compared with the table and across the views.")

RULES = {
    "residues": "every view reports exactly the table's residues (chain, number, insertion code, name), each once",
    "atoms": "every reported residue holds exactly the table's atom names with coordinates equal to the emitted 3-decimal values (1e-9)",
    "connectivity": "is_connected of every chain-consecutive residue pair equals (O3'-P distance < 2.4 A) in every view; Structure.connected_residues equals the segments that rule gives",
    "chi": "|chi| reported by every view equals |dihedral(O4', C1', N9/N1, C4/C2)| computed from the table (1e-6), and the views agree pairwise",
}


def cases_for(tier, seed):
    rng = rng_for(seed, "c15")
    n, nm = (95, 20) if tier == "quick" else (1400, 150)
    single = [f"g:{rng.randrange(10 ** 9)}" for _ in range(n)]
    multi = [f"m:{rng.randrange(10 ** 9)}" for _ in range(nm)]
    limit = 120000 if tier == "quick" else 10 ** 9
    files = [f"corpus:{os.path.basename(p)}" for p in G.corpus(tier) if os.path.getsize(p) < limit]
    return single, multi, files


def retag(result):
    """descriptive, stable signatures '<defect tag>@<check>:<case>'; at most two violations per tag"""
    seen, keep = {}, []
    for v in result["violations"]:
        tag = v["what"].split(": ")[0]
        v["signature"] = f"{tag}@{result['name']}:{v['input']['case']}"
        seen[tag] = seen.get(tag, 0) + 1
        if seen[tag] <= 2 and len(keep) < 8:
            keep.append(v)
    result["violations"] = keep
    return result


def nontrivial(aspect):
    def f(case):
        n = A.notes_of(case)
        if n.get("corpus"):
            return True
        if "skipped" in n:
            return False
        if aspect == "connectivity":
            return bool(n["breaks"] or n["near"] or n["dropped"])
        if aspect == "atoms":
            return bool(n["wide"] or n["dropped"])
        if aspect == "residues":
            return bool(n["icodes"] or n["het"] or n["chains"] > 1)
        return True
    return f


def bounded(tier, seed):
    single, multi, files = cases_for(tier, seed)
    out = []
    b1 = f"{len(single)} generated single-model tables (1-3 chains of 2-6 nucleotides + hetero groups) + {len(files)} corpus structures, x 2 formats x 2 readers"
    b2 = f"{len(multi)} generated tables with 2-3 models, x 2 formats x 2 readers"
    for a in A.ASPECTS:
        out.append(retag(run_cases(a, files + single, A.aspect_oracle(a), nontrivial(a), RULES[a], b1, sig=str, max_viol=10 ** 6,
                                   relates="read_3d_structure|parse_pdb|parse_cif|residues|connected_residues|is_connected|torsion")))
    for a in A.ASPECTS:
        out.append(retag(run_cases(f"multi-model-{a}", multi, A.aspect_oracle(a), lambda c: True, RULES[a] + " - on tables with several models, the structure being the first model", b2,
                                   sig=str, max_viol=10 ** 6, relates="read_3d_structure|residues|connected_residues")))
    A.evaluate.cache_clear()
    return out


def replay(inp):
    aspect = inp["check"].replace("multi-model-", "")
    errs = A.replay_case(aspect, inp["case"])
    return {"fails": bool(errs), "errors": errs[:3]}
