"""C15 Both reader generations and both file formats agree on structure content"""
import os

from gen import structures as G
from oracles import readers_agree_o as A
from props._util import rng_for, run_cases

LEVEL = "other"
DEDUCTIVE = [
    # the residue-level reader's per-line decode (contract of contracts/parser_c.py, also a target of C08)
    {"module": "rnapolis.parser", "sidecar": "contracts.parser_c", "targets": ["parse_pdb@decode", "lemma:record_names", "lemma:decoded_snoc",
                                                                               # the duplicate / clash filter both legs of the residue-level reader end in (callee of the decode contracts)
                                                                               "filter_clashing_atoms", "filter_clashing_atoms@single"]},
    # the table-level reader's per-line decode (prefix contract up to the DataFrame construction)
    {"module": "rnapolis.parser_v2", "sidecar": "contracts.parser_v2_c", "targets": ["parse_pdb_atoms@decode", "lemma:decoded_v2_snoc"],
     "opts": {"z3_probe_ms": 400, "cvc5_probe_s": 6}},
    # one line, both decodes: where they denote the same values and where not
    {"module": "rnapolis.parser_v2", "sidecar": "contracts.parser_v2_c", "targets": ["lemma:readers_agree_on_a_line", "lemma:record_test_agrees"]},
    # residue connectivity (O3'-P below 2.4 A) in both structure models, and that the two contracts denote the same predicate
    {"module": "rnapolis.tertiary", "sidecar": "contracts.connectivity_c",
     "targets": ["Residue3D.is_connected", "Residue3D.find_atom", "lemma:same_predicate_of_coordinates", "lemma:connectivity_rules_agree"]},
    {"module": "rnapolis.tertiary_v2", "sidecar": "contracts.connectivity_v2_c", "targets": ["Residue.is_connected"]},
    # the residue-level reader's mmCIF leg: per-row decode of atom_site and try_parse_int (contracts/parser_cif_c.py, also targets of C08)
    {"module": "rnapolis.parser", "sidecar": "contracts.parser_cif_c",
     "targets": ["parse_cif@decode", "try_parse_int", "lemma:numeral_is_int_literal", "lemma:signed_numeral_shape"],
     "opts": {"z3_probe_ms": 400, "cvc5_probe_s": 6}},
]
TRUSTED = ["gen/emit.py + gen/atomtables_c09.py emitters (independent of the library's writers, unverified)", "numpy", "pandas groupby", "mmcif IoAdapterPy tokeniser",
           "scipy KD-tree (clash filter of the residue-level reader)", "CPython 3.12",
           # deductive part
           "str.strip(): uninterpreted py_strip in both sidecars (the same symbol); float(str) / int(str): pyvc's py_float / py_float_ok / ext_int_of_str; pandas.to_numeric on the table-level reader's number texts is taken to be int()/float() of the text",
           "str.splitlines() (table-level reader) / IO.readlines() after seek(0) (residue-level reader): the list of the file's lines, nothing else assumed",
           "the assumed callee contracts and externals of contracts/parser_c.py listed under C08 (KD-tree, filter_clashing_atoms is verified there)",
           "z3 / cvc5 (strings, arrays, quantifiers)",
           # connectivity (contracts/connectivity_c.py, contracts/connectivity_v2_c.py)
           "numpy.linalg.norm(v): the non-negative n with n*n == v.v, returned as a numpy scalar whose .item() is the Python float of the same value (external + assumed contract NpFloat.item); numpy.array([x, y, z]) is the 3-vector; vector subtraction componentwise; arithmetic over the reals (1.5 * 1.6 is exactly 2.4)",
           "tertiary_v2.Residue.find_atom (pandas mask over the atom-name column, first matching row wrapped in an Atom whose cached property `coordinates` is numpy.array of the row's coordinate cells) is an ASSUMED callee contract: None iff the residue's table has no row of that name (uninterpreted has_atom(residue, name)), otherwise an object whose .coordinates are those of the first such row (uninterpreted atom_x/y/z(residue, name)); reads only",
           "the trusted externals and assumed callee contracts of contracts/parser_cif_c.py listed under C08 (mmcif reader document, IO.seek, int()/float() of texts, dict(zip(..)) encoding, filter_clashing_atoms callee view)",
           "tertiary_v2.Residue.chain_id / residue_number / insertion_code / residue_name getters: ASSUMED pure, value unconstrained (str / int / Optional[str] / str); the unchanged is_connected never calls them - they exist so that a changed one that does is executed and judged instead of being rejected"]
ASSUMPTIONS = [
    "tables carry no alternate locations and no two atoms closer than 0.5 A (the residue-level reader's clash filter is C08's subject)",
    "tables can be written in both formats: one-character non-blank chain ids (a blank PDB chain has no mmCIF counterpart, so it is outside this property)",
    "residues are compared as a set keyed by (chain, number, insertion code, name); the order in which a reader lists them is not part of the statement",
    "connectivity is compared on chain-consecutive residue pairs of the table (Residue3D.is_connected / tertiary_v2.Residue.is_connected) and, for the table-level reader, on Structure.connected_residues against the same rule (runs of length >= 2, residues ordered by number and insertion code)",
    "|chi| is compared for A,G,C,U,DA,DG,DC,DT residues whose four atoms are present; the table-level reader reports torsions only for residues inside connected segments, other residues are not compared for it",
    "the reference is the generated table itself; an error is a view departing from the table (tag names the view); a departure shared by all four views is tagged unanimous-",
    "for a multi-model table the structure is its first model (what read_3d_structure returns by default); Structure() receives the table exactly as parse_*_atoms returns it",
    "corpus structures are re-serialised from their first model after alternate locations were resolved, chains renamed to one character when needed; atoms with names over 4 characters are left out",
    # deductive part
    "definitional lemma strip_definition of contracts/parser_v2_c.py (NOT proved, defines py_strip on texts of at most 8 characters: first to last non-whitespace character) - used for the one-character columns 22 and 27 and the record name",
    "definitional lemma wfl_definition of contracts/parser_c.py (abbreviation wfl(l) = wf_line(lines[l])); the residue-level decode is proved for well-formed PDB text (wf_pdb: record names in columns 1-6, ATOM/HETATM lines of >= 27 columns whose numeric columns parse) that has at least one ATOM/HETATM record",
    "where the two decodes differ (stated, not judged): a blank chain column 22 is ' ' for the residue-level reader and '' for the table-level reader (any whitespace character there: kept vs removed); a whitespace character other than the blank in the insertion-code column 27 is kept by the residue-level reader and is None for the table-level reader; ' ATOM ' style record names (not left-aligned in columns 1-6) are ATOM records only for the table-level reader",
    # connectivity
    "definitional lemma sqdist_definition of contracts/connectivity_c.py (NOT proved; explicit definition of the abbreviation sqdist(x1,y1,z1,x2,y2,z2) = (x1-x2)^2+(y1-y2)^2+(z1-z2)^2, unfolded for one pair of points at a time)",
    "'the O3' atom' / 'the P atom' of a residue is the FIRST atom of that name in the residue's atom sequence (residue-level model: proved of Residue3D.find_atom; table-level model: assumed of the pandas lookup); Residue3D is modelled as an object that is never written, its atoms as records (name, x, y, z); chain / number / icode of the base class are read as stored attributes",
]
EXPLANATION = ("DEDUCTIVE (string level): for one PDB ATOM/HETATM line both readers' decode is under contract on the real code - parser.parse_pdb (target parse_pdb@decode of contracts/parser_c.py: every atom is `decoded` from its line: "
               "name = strip(cols 13-16), residue name = strip(18-20), chain = column 22 as is, number = int(strip(23-26)), icode = None if column 27 is ' ' else column 27, x/y/z/occupancy = float(strip(31-38 / 39-46 / 47-54 / 55-60))) and "
               "parser_v2.parse_pdb_atoms (target parse_pdb_atoms@decode, a prefix contract up to the DataFrame construction: every record is `decoded_v2` from its line: each field = strip of its PDB column range, blank optional fields None, numbers kept as text). "
               "Lemma readers_agree_on_a_line: for a line of >= 27 columns with a = decoded and r = decoded_v2 of the same line: atom name, residue name, residue number, x, y, z, occupancy are the same values (numbers: int()/float() of the table-level text); "
               "the chain is the same iff column 22 is not whitespace (blank: ' ' vs ''); the insertion code is the same when column 27 is the blank (both None) or a non-whitespace character. Lemma record_test_agrees: a line the residue-level contract calls an "
               "ATOM/HETATM line is one for the table-level reader. Both decode contracts also give: one atom/record per ATOM/HETATM line, in file order, model = the last preceding MODEL serial (1 if none). "
               "NOT deductive (bounded below): residue grouping (file-order runs vs pandas groupby), the DataFrame construction and dtype conversion, the mmCIF legs, connectivity and torsion comparison (the torsion sign relation is C18's subject). "
               "BOUNDED: generated tables (template nucleotides from small corpus files under random rigid motions incl. far-from-origin placements that need the full "
               "8-column coordinate field, renumbering with negative numbers / insertion codes, broken or near-threshold O3'-P junctions, dropped atoms, hetero groups) and corpus "
               "structures are written as PDB and mmCIF by independent emitters and read by both reader generations; residues, atoms, coordinates, O3'-P connectivity and |chi| "
               "are compared with the table and across the views. "
               "DEDUCTIVE (connectivity, added later - of the 'NOT deductive' list above the pairwise connectivity test is now under contract; Structure.connected_residues, which walks a pandas groupby, stays bounded): "
               "tertiary.Residue3D.is_connected (with Residue3D.find_atom proved: None iff no atom of that name, else the first atom of that name) and tertiary_v2.Residue.is_connected (its pandas atom lookup assumed) each carry the property's rule as postcondition: "
               "the result is True iff the O3' atom of self and the P atom of the next residue both exist and are less than 2.4 A apart - no exception, nothing written, and nothing else (chain ids, residue numbers, insertion codes, names, model) enters: "
               "the clause does not mention them, so an early exit on numbering or chain fails it. 2.4 is pinned as a literal in the contracts; the code's 1.5 * AVERAGE_OXYGEN_PHOSPHORUS_DISTANCE_COVALENT is evaluated from the real module constant of the tree under verification. "
               "The residue-level contract states the test on the squared distance (< 2.4^2), the table-level one on the Euclidean norm (< 2.4); lemma same_predicate_of_coordinates proves both are the same predicate of the two atoms' coordinates, and "
               "lemma connectivity_rules_agree that, given the same existence facts and coordinates, both rules give the same answer. "
               "DEDUCTIVE (mmCIF leg of the residue-level reader, added later; details and preconditions under C08): try_parse_int parses an optionally '-'-signed digit string to exactly the number written (negative residue numbers survive), None exactly for non-literals such as '?' / '.'; "
               "parse_cif@decode (prefix contract up to the end of the atom_site loop): one atom per atom_site row in file order with label / auth identity, insertion code (None for both null markers), model (default 1), name (label_atom_id), coordinates and occupancy exactly as written. "
               "The table-level reader's mmCIF leg (parse_cif_atoms, pandas) stays bounded.")

RULES = {
    "residues": "every view reports exactly the table's residues (chain, number, insertion code, name), each once",
    "atoms": "every reported residue holds exactly the table's atom names with coordinates equal to the emitted 3-decimal values (1e-9)",
    "connectivity": "is_connected of every chain-consecutive residue pair equals (O3'-P distance < 2.4 A) in every view; Structure.connected_residues equals the segments that rule gives",
    "chi": "|chi| reported by every view equals |dihedral(O4', C1', N9/N1, C4/C2)| computed from the table (1e-6), and the views agree pairwise",
}


def cases_for(tier, seed):
    rng = rng_for(seed, "c15")
    n, nm = (95, 20) if tier == "quick" else (1400, 150)
    single = [f"g:{rng.randrange(10 ** 9)}" for _ in range(n)]
    multi = [f"m:{rng.randrange(10 ** 9)}" for _ in range(nm)]
    limit = 120000 if tier == "quick" else 10 ** 9
    files = [f"corpus:{os.path.basename(p)}" for p in G.corpus(tier) if os.path.getsize(p) < limit]
    return single, multi, files


def retag(result):
    """descriptive, stable signatures '<defect tag>@<check>:<case>'; at most two violations per tag"""
    seen, keep = {}, []
    for v in result["violations"]:
        tag = v["what"].split(": ")[0]
        v["signature"] = f"{tag}@{result['name']}:{v['input']['case']}"
        seen[tag] = seen.get(tag, 0) + 1
        if seen[tag] <= 2 and len(keep) < 8:
            keep.append(v)
    result["violations"] = keep
    return result


def nontrivial(aspect):
    def f(case):
        n = A.notes_of(case)
        if n.get("corpus"):
            return True
        if "skipped" in n:
            return False
        if aspect == "connectivity":
            return bool(n["breaks"] or n["near"] or n["dropped"])
        if aspect == "atoms":
            return bool(n["wide"] or n["dropped"])
        if aspect == "residues":
            return bool(n["icodes"] or n["het"] or n["chains"] > 1)
        return True
    return f


def bounded(tier, seed):
    single, multi, files = cases_for(tier, seed)
    out = []
    b1 = f"{len(single)} generated single-model tables (1-3 chains of 2-6 nucleotides + hetero groups) + {len(files)} corpus structures, x 2 formats x 2 readers"
    b2 = f"{len(multi)} generated tables with 2-3 models, x 2 formats x 2 readers"
    for a in A.ASPECTS:
        out.append(retag(run_cases(a, files + single, A.aspect_oracle(a), nontrivial(a), RULES[a], b1, sig=str, max_viol=10 ** 6,
                                   relates="read_3d_structure|parse_pdb|parse_cif|residues|connected_residues|is_connected|torsion")))
    for a in A.ASPECTS:
        out.append(retag(run_cases(f"multi-model-{a}", multi, A.aspect_oracle(a), lambda c: True, RULES[a] + " - on tables with several models, the structure being the first model", b2,
                                   sig=str, max_viol=10 ** 6, relates="read_3d_structure|residues|connected_residues")))
    A.evaluate.cache_clear()
    return out


def replay(inp):
    aspect = inp["check"].replace("multi-model-", "")
    errs = A.replay_case(aspect, inp["case"])
    return {"fails": bool(errs), "errors": errs[:3]}
