"""C14 Outputs are a deterministic function of the input"""
import os
import time

from gen import knotted as K
from gen import structures as G
from oracles import determinism_o as D
from props._util import rng_for

LEVEL = "other"
DEDUCTIVE = [{"module": "rnapolis.common", "sidecar": "contracts.common_all_c", "targets": ["BpSeq.all_dot_brackets"]}]
TRUSTED = ["CPython 3.12 (str hash randomisation is the only seed-dependent source modelled; PYTHONHASHSEED 0,1,2,3,random)", "sha256",
           "third parties are observed, not trusted: CBC via pulp (solver), orjson, csv, pandas to_csv, mmcif IoAdapterPy writer",
           "deductive clause: z3 5.1.0 / cvc5 1.0.3, pyvc encoding of Python semantics; sorted(<set>, key=lambda d: d.structure): documented "
           "contract 'a permutation of the members, non-decreasing in the key' (contracts.common_all_c._sorted_keyed); the other externals "
           "and callee contracts of BpSeq.all_dot_brackets are those listed in props/C16.py"]
ASSUMPTIONS = [
    "A-observe: byte-identity is observed on a finite set of inputs, 5 fresh interpreters each (hash seeds 0,1,2,3,random) and 2 calls per interpreter; it is not proved for other seeds, inputs, machines or thread schedules",
    "A-error: an output that consistently is the same exception text counts as deterministic (what it should be is another property's business)",
    "A-options: options exercised are model=None, find_gaps False/True, all_dot_brackets=True; the command line tool is run in-process with -a -b -c -j -p --stems-csv --inter-stem-csv",
    "A-text-order (deductive clause): the order of two structure texts is the uninterpreted relation text_le(x, y) over DotBracket objects, standing "
    "for x.structure <= y.structure (the spec language has no order on lists of characters); nothing else is assumed about it",
]
EXPLANATION = ("One obligation family is deductive: BpSeq.all_dot_brackets (contracts.common_all_c, the contract of C16) has the clause "
               "`ensures.ordered-by-structure-text`: for all q < r, text_le(result[q], result[r]) - the returned list is in ascending order of its "
               "members' structure texts.  What it decides: the ORDER of the list of all dot-brackets is a function of the members' texts (the "
               "documented contract of sorted by that key), not of set iteration order, hash seeds or object addresses; in the engine a set -> list "
               "conversion (list(s), iteration) is an arbitrary enumeration, so `return list(solutions)` (the defect repaired by commit d44bda7), "
               "a sort by another key (d.sequence, id(d)) or no sort cannot establish the clause.  The clause pins ONE direction (ascending, what "
               "sorted(..) without reverse yields and what consumers / the bounded oracle observe): `reverse=True` is still deterministic but is "
               "reported as a violation of the stated order, deliberately - a changed order is an observable change of the output.  Which texts "
               "are members is C16's business (same contract).  Everything else of C14 stays with the bounded stand-in: bytes of JSON / CSV / PDB / "
               "mmCIF outputs, fresh processes, hash seeds, CBC tie-breaking, the other entry points - the property quantifies over interpreter "
               "states, which the VC generator does not model: tools/c14_worker.py computes every named output in fresh interpreters; "
               "oracles/determinism_o.py compares their sha256 across seeds and across two in-process calls")

MAX_PER_KIND = 2


def structure_jobs(tier):
    if tier == "quick":
        names = ["1DFU_1_M-N.cif", "1HMH_1_E.cif", "6INQ.cif", "4WTI_1_T-P.cif", "1E7K_1_C.cif", "1A1T_1_B.cif", "1ATO.pdb", "1JJP.cif", "6FC9.cif", "488d.pdb",
                 "1ehz-assembly-1.cif"]
    else:
        names = G.SMALL + G.MEDIUM + G.LARGE
    return [{"id": n, "kind": "structure", "path": os.path.join(G.TESTS, n), "cli": True, "find_gaps": True} for n in names if os.path.exists(os.path.join(G.TESTS, n))]


def external_jobs(tier):
    names = ["1ehz-assembly-1.cif", "1E7K_1_C.cif", "1A1T_1_B.cif", "4WTI_1_T-P.cif", "488d.pdb", "1JJP.cif", "184D.cif"] if tier == "quick" else G.SMALL + G.MEDIUM + G.LARGE
    jobs = [{"id": "conflicts@" + n, "kind": "external", "path": os.path.join(G.TESTS, n)} for n in names if os.path.exists(os.path.join(G.TESTS, n))]
    if os.path.exists(os.path.join(G.TESTS, "184D-fr3d.txt")):
        jobs.append({"id": "fr3d@184D.cif", "kind": "fr3d", "path": os.path.join(G.TESTS, "184D.cif"), "external": os.path.join(G.TESTS, "184D-fr3d.txt")})
    return jobs


def secondary_jobs(tier, seed):
    rng = rng_for(seed, "c14")
    jobs = [{"id": f"db:{st}", "kind": "secondary", "sequence": sq, "structure": st} for sq, st in K.FIXED]
    for k in range(10 if tier == "quick" else 150):
        jobs.append({"id": f"knotted#{k}", "kind": "secondary", "bpseq": K.multi_group(rng)})
    p = os.path.join(G.TESTS, "1ET4-A.bpseq")
    if os.path.exists(p):
        jobs.append({"id": "1ET4-A.bpseq", "kind": "secondary", "bpseq": open(p).read()})
    p = os.path.join(G.TESTS, "1EHZ.dbn")
    if os.path.exists(p):
        lines = [ln.strip() for ln in open(p) if ln.strip() and not ln.startswith(">")]
        jobs.append({"id": "1EHZ.dbn", "kind": "secondary", "sequence": lines[0], "structure": lines[1]})
    p = os.path.join(G.TESTS, "6EK0-L5-L8.bpseq")
    if tier != "quick" and os.path.exists(p):
        jobs.append({"id": "6EK0-L5-L8.bpseq(no all_dot_brackets: factorial)", "kind": "secondary", "bpseq": open(p).read(), "all": False})
    return jobs


def run(name, jobs, rule, tier, seed, many_key):
    t0 = time.time()
    observed = D.observe(jobs, timeout=600 if tier == "quick" else 1800)
    found = D.compare(observed)
    by_id = {j["id"]: j for j in jobs}
    viol, per = [], {}
    for kind, output, jid, msg in found:
        key = (kind, output)
        per[key] = per.get(key, 0) + 1
        if per[key] <= MAX_PER_KIND:
            viol.append({"what": f"[{jid}] {output}: {msg}"[:300], "signature": f"{kind}:{output}:{jid}", "relates": "all_dot_brackets|bpseq|Mapping2D3D",
                         "input": {"check": name, "case": by_id[jid], "seed": seed, "tier": tier}, "_rank": per[key]})
    viol.sort(key=lambda v: v.pop("_rank"))
    nout, nerr = D.summary(observed)
    many = nontrivial = 0
    samples = []
    for jid, by_seed in observed.items():
        r = next((r for r in by_seed.values() if "failed" not in r), None)
        if r is None:
            continue
        sz = r["sizes"]
        if sz.get("bpseq", 0) > 0 and (sz.get("interactions.basePairs", 1) > 0):
            nontrivial += 1
        a, d = sz.get(many_key), sz.get("dot_bracket(solver)")
        if a and d and a > d:
            many += 1
            if len(samples) < 3:
                samples.append({"check": name, "input": jid, "all_dot_brackets_bytes": a, "outputs": len(r["outputs"])})
    return {"name": name, "evaluations": len(jobs) * len(D.SEEDS), "distinct_nontrivial": nontrivial, "violations": viol[:12], "samples": samples, "rule": rule,
            "bound": f"{len(jobs)} inputs x {len(D.SEEDS)} fresh interpreters (PYTHONHASHSEED {','.join(D.SEEDS)}) x 2 calls each; {nout} outputs hashed per seed "
                     f"({nerr} of them a constant exception text); {many} inputs with more than one dot-bracket in the list of all",
            "wall_s": round(time.time() - t0, 2), "violation_counts": {f"{k[0]}:{k[1]}": v for k, v in per.items()}}


def bounded(tier, seed):
    out = []
    out.append(run("structures", structure_jobs(tier),
                   "corpus PDB/mmCIF files: extract_base_interactions lists, extract_secondary_structure(all_dot_brackets=True) with and without find_gaps -> interaction "
                   "lists, BPSEQ, dot-bracket, extended dot-bracket, all dot-brackets in order (Mapping2D3D and BpSeq), stems/strands/hairpins/loops, inter-stem parameters, "
                   "write_json / write_csv / write_bpseq bytes; parser_v2 write_pdb / write_cif / fit_to_pdb+write_pdb text; the annotator command line tool's stdout and files",
                   tier, seed, "all_dot_brackets[Mapping2D3D,in order]"))
    out.append(run("external-conflicts", external_jobs(tier),
                   "rnapolis.adapter route: corpus structures with an external tool's interaction list in which residues have two canonical partners of equal rank "
                   "(G-C/G-C, A-U/A-U, G-U/G-U; conflict resolution in Mapping2D3D), and the FR3D report of 184D; same outputs as above",
                   tier, seed, "all_dot_brackets[Mapping2D3D,in order]"))
    out.append(run("secondary", secondary_jobs(tier, seed),
                   "BPSEQ / dot-bracket inputs with several independent pseudoknot groups (fixed ones incl. '([{.)].}..([.)].', generated blocks of 2-4 crossing stems, corpus "
                   "BPSEQ/DBN files): BPSEQ text, dot-bracket (solver), FCFS, BpSeq.all_dot_brackets in order, elements, without_pseudoknots",
                   tier, seed, "all_dot_brackets[BpSeq,in order]"))
    return out


def replay(inp):
    job = inp["case"]
    found = D.compare(D.observe([job]))
    return {"fails": bool(found), "errors": [f"{k}:{o}: {m}"[:300] for k, o, j, m in found[:3]]}
