"""C14 Outputs are a deterministic function of the input"""
import os
import time

from gen import knotted as K
from gen import structures as G
from oracles import determinism_o as D
from props._util import rng_for

LEVEL = "other"
DEDUCTIVE = [
    {"module": "rnapolis.common", "sidecar": "contracts.common_all_c", "targets": ["BpSeq.all_dot_brackets"]},
    # C14's own contracts: a list is pinned as a function of the SET it is made from (sets enumerate arbitrarily in the encoding)
    {"module": "rnapolis.annotator", "sidecar": "contracts.determinism_c", "targets": ["find_pairs@order"]},
    {"module": "rnapolis.annotator", "sidecar": "contracts.determinism_stackings_c", "targets": ["find_stackings@determined"]},
    {"module": "rnapolis.common", "sidecar": "contracts.determinism_elems_c", "targets": ["BpSeq.elements@stops"]},
    # observe_at Mapping2D3D.all_dot_brackets: the texts follow the (ordered, see first target) BpSeq list member for member - a
    # `list(set(..))` on the way fails `one-text-per-dot-bracket` / the per-member clause (contract of C06's second sidecar)
    {"module": "rnapolis.tertiary", "sidecar": "contracts.mapping_ext_c", "targets": ["Mapping2D3D.all_dot_brackets"]},
]
TRUSTED = ["CPython 3.12 (str hash randomisation is the only seed-dependent source modelled; PYTHONHASHSEED 0,1,2,3,random)", "sha256",
           "third parties are observed, not trusted: CBC via pulp (solver), orjson, csv, pandas to_csv, mmcif IoAdapterPy writer",
           "deductive clauses: z3 5.1.0 / cvc5 1.0.3, pyvc encoding of Python semantics - in particular: iterating a set, list(set) and the result of "
           "KDTree.query_pairs are ARBITRARY duplicate-free enumerations / sets; dict, defaultdict and OrderedSet iterate in insertion order",
           "BpSeq.all_dot_brackets: sorted(<set>, key=lambda d: d.structure): documented contract 'a permutation of the members, non-decreasing in the key' "
           "(contracts.common_all_c._sorted_keyed); the other externals and callee contracts of BpSeq.all_dot_brackets are those listed in props/C16.py",
           "find_pairs@order: externals of contracts.annotator_pairs_c (KDTree(points) remembers the points; KDTree.query_pairs(r) = exactly the set of index pairs "
           "i < j within r) and builtins.sorted on a set of (int, int) pairs: 'the list of exactly the members, each once, strictly increasing lexicographically' "
           "(contracts.determinism_c.ext_sorted = contracts.annotator_pairs_c.ext_sorted plus its consequence in existential form; sorted(.., key= / reverse=) is "
           "over-approximated by 'the members in some order'); callee contracts used on the way (Residue3D.find_atom, angle_between_vectors@total, "
           "detect_bph_br_classification) are targets of C03 / C04 / C11",
           "find_stackings@determined: the externals and lemmas of find_stackings under C04 (props/C04.py: KDTree / query_pairs, sorted on a list of "
           "(Residue3D, Residue3D, str) triples = a permutation in which no later element is smaller - only the consequences on the residue order are used; numpy.dot, "
           "numpy.linalg.norm, math.acos, math.degrees as functions of their arguments, degrees_monotone, sum_empty / sum_append; definitions "
           "residue_order_definition, centroid_definition, base_prefix_*, vangle_definition, first_idx_definition); callee contracts Residue3D.find_atom, "
           "Residue3D.__lt__, angle_between_vectors are targets of C04",
           "BpSeq.elements@stops: builtins.sorted on a set of integers: 'the strictly increasing list of exactly the members' (contracts.common_elems_c._sorted_int_set "
           "plus its consequence in existential form); callee contracts BpSeq.__stems_entries@cached (cached_property returns the same list on every access: assumed), "
           "BpSeq.dot_bracket@text, Stem.from_bpseq_entries as under C07 (props/C07.py)"]
ASSUMPTIONS = [
    "A-observe: byte-identity is observed on a finite set of inputs, 5 fresh interpreters each (hash seeds 0,1,2,3,random) and 2 calls per interpreter; it is not proved for other seeds, inputs, machines or thread schedules",
    "A-error: an output that consistently is the same exception text counts as deterministic (what it should be is another property's business)",
    "A-options: options exercised are model=None, find_gaps False/True, all_dot_brackets=True; the command line tool is run in-process with -a -b -c -j -p --stems-csv --inter-stem-csv",
    "A-text-order (deductive clause): the order of two structure texts is the uninterpreted relation text_le(x, y) over DotBracket objects, standing "
    "for x.structure <= y.structure (the spec language has no order on lists of characters); nothing else is assumed about it",
    "A-function (deductive clauses): a clause that pins a value by a formula over the inputs shows that the value is a function of the inputs in so far as the symbols "
    "of the formula are functions: third-party numeric calls (numpy.dot, numpy.linalg.norm, math.acos, math.degrees, KD-tree distances) are modelled as mathematical "
    "functions of their arguments - run-to-run reproducibility of floating-point library code on one machine is assumed, not proved",
    "A-total-residue-order (requires of find_stackings@determined): any two different participating residues (analysed model, at least one base atom) are ordered one "
    "way or the other by Residue3D.__lt__, i.e. differ in (model, chain, number, insertion code).  Two residues that share all four (micro-heterogeneity written as two "
    "residues with one number) compare neither way; sorted() is stable, so their stackings would keep the order of the KD-tree pair-set enumeration - that enumeration "
    "is a set of int tuples, whose iteration order CPython does not derive from PYTHONHASHSEED, so nothing is observable across seeds; it is outside the clause",
    "A-stackings-input (requires of find_stackings under C04, inherited): participating residues have pairwise different base centroids and pairwise different "
    "(label, auth) identifiers; an existing base normal is not the zero vector",
    "A-syntactic (argument in EXPLANATION, not an obligation): find_pairs, BpSeq.elements up to the loop-linking walk and Mapping2D3D.all_dot_brackets iterate no set other "
    "than the ones named; this was read off the source (tools: grep for set(, {..}, defaultdict(set), query_pairs, OrderedSet), it is not checked by the verifier",
]
EXPLANATION = ("DEDUCTIVE.  In the engine a set -> list conversion, the iteration of a set and the result of KDTree.query_pairs are arbitrary duplicate-free enumerations; dict / "
               "OrderedSet iteration is insertion order.  A clause that pins a list completely as a function of the set it is made from is therefore proved for every "
               "enumeration, i.e. for every hash seed, set history and object address.  Four places where a set's order could reach an output are under such a clause.  "
               "(1) BpSeq.all_dot_brackets (contracts.common_all_c, the contract of C16), clause `ensures.ordered-by-structure-text`: for all q < r, "
               "text_le(result[q], result[r]) - the returned list is in ascending order of its members' structure texts, the documented contract of sorted by that key; "
               "`return list(solutions)` (the defect repaired by commit d44bda7), a sort by another key (d.sequence, id(d)) or no sort cannot establish it; `reverse=True` is "
               "still deterministic but is reported as a violation of the stated order, deliberately - a changed order is an observable change of the output; which texts are "
               "members is C16's business (same contract: the DFS over graph[current] and itertools.product over sets enumerate arbitrarily and membership is proved all the same).  "
               "(2) find_pairs@order (contracts.determinism_c; prefix contract of annotator.find_pairs through the contact loop): the list the contact loop visits is the strictly "
               "increasing lexicographic list of exactly the members of kdtree.query_pairs(4.0) - clauses `contact-loop-visits-the-index-pairs-in-strictly-increasing-order`, "
               "`every-step-is-a-member-of-the-KD-tree-pair-set`, `every-member-of-the-KD-tree-pair-set-is-a-step`; strictly increasing + same members leaves one list.  This is "
               "the one set iteration of find_pairs (sorted(..) there is the repair 2e35b7c); behind it the function is order-SENSITIVE (used_atoms and occupied make greedy "
               "choices, Counter.most_common() breaks ties by first occurrence) but iterates only lists, most_common() and insertion-ordered dicts / OrderedSets "
               "(merge_and_clean_bph_br), the sets used_atoms / occupied are only tested for membership (A-syntactic) - so base pairs, base-phosphate and base-ribose lists are "
               "a function of the input given that clause.  Iterating the set directly, list(..) or reverse=True fail the first clause.  "
               "(3) find_stackings@determined (contracts.determinism_stackings_c; whole function): the C04 contract with the 1e-6 band closed and the order strict - every "
               "reported record is THE record (identifiers of lower / higher residue in the residue order, topology by the sign test of the code) of a pair of participating "
               "residues that satisfies the geometric definition, every such pair has its record (an IFF), no pair twice, and for q < w the record q is strictly before record w "
               "in (residue order of the lower residue, then of the higher residue): `strictly-ordered-by-chain-and-number`.  The loop runs over the UNSORTED pair set, the "
               "clauses hold for every enumeration, and they leave exactly one list.  Dropping sorted(pairs), `>=` for `>` in the sign test or in a threshold test fail named "
               "obligations (the latter two are invisible to C04's banded clauses).  Precondition A-total-residue-order.  "
               "(4) BpSeq.elements@stops (contracts.determinism_elems_c; prefix contract through `stops = sorted(stopset)`): stops is the strictly increasing list of exactly "
               "the members of the set of stem ends (`stops-strictly-increasing`, `every-stop-is-a-stem-end`, `every-stem-end-is-a-stop`); tails, hairpins and loop candidates "
               "are produced by loops over range(len(stops)), stems by a loop over the list of runs (their order is pinned by C07's `one-Stem-per-run`).  "
               "Existing contracts of other properties that are proved for every enumeration and thereby are seed-independent without a clause of their own here: "
               "Mapping2D3D._generated_bpseq_data (C06: at most one partner, only canonical input pairs, unconflicted pairs kept - for ANY result of sorted(set, key=..)), "
               "filter_clashing_atoms (C08: which atoms survive), find_clashes (C17: which pairs are listed), find_pairs@greedy (C03: exclusivity / maximality for any order of "
               "most_common()).  They pin membership-like facts, NOT the order / choice, so they are not listed as C14 targets.  "
               "NOT DEDUCTIVE, order or choice reaches the output through a set and is not pinned by any contract (all natively constant across hash seeds because the sets hold "
               "ints / int tuples, whose hashes CPython does not randomise - the order is an implementation detail of CPython's set and of scipy's insertion sequence, not a "
               "function of the input by any documented contract): clashfinder.find_clashes returns its list in the enumeration order of kdtree.query_pairs (clashfinder.py:76), "
               "and the tool's report lists residue pairs in that order (dict insertion, :188 / :220); parser.filter_clashing_atoms returns `[.. for i in atoms_to_keep]`, the "
               "iteration order of a set of ints (parser.py:476; ascending in CPython because set(range(n)) stores small ints at their own slot) - the order of ALL atoms and hence "
               "residues of a parsed file rests on it (contracts.parser_c states it as 'arbitrary order E'); BpSeq.convert_to_dot_bracket adds the conflict constraints in the "
               "iteration order of graph[i] (common.py:779), which may steer the MILP solver's tie-breaking; BpSeq.elements' loop-linking walk `for j in graph[i]` (common.py:619) "
               "takes the first usable member of a set that has at most one member (argument not under contract); Mapping2D3D conflict resolution removes `sorted(pairs, "
               "key=pair_scoring_function)[-1]` of a SET of BasePair3D (tertiary.py:596 / :647): pairs with equal key (score, nt1, nt2) are the same residue pair with another "
               "class, so BPSEQ is unaffected, but which of them is removed follows the iteration order of a set of hashed objects, and only the bounded `external-conflicts` check watches it (the key closure is not "
               "modelled by contracts.mapping_c).  Mapping2D3D.all_dot_brackets / extended_dot_bracket / strands_sequences iterate lists only (A-syntactic) and are not under contract.  "
               "Everything else of C14 stays with the bounded stand-in: bytes of JSON / CSV / PDB / mmCIF outputs, fresh processes, hash seeds, CBC tie-breaking, the other "
               "entry points - the property quantifies over interpreter states, which the VC generator does not model: tools/c14_worker.py computes every named output in fresh "
               "interpreters; oracles/determinism_o.py compares their sha256 across seeds and across two in-process calls")

# glue functions of the property's observe_at list (contracts/glue_c.py; texts shared in props/_glue_text.py)
from props import _glue_text as _GT
DEDUCTIVE += [{"module": "rnapolis.annotator", "sidecar": "contracts.glue_c",
               "targets": ["extract_base_interactions", "extract_secondary_structure", "write_bpseq", "write_json", "add_common_output_arguments",
                           "handle_output_arguments@prefix", "main@annotator"]}]
TRUSTED = list(TRUSTED) + _GT.TRUSTED
ASSUMPTIONS = list(ASSUMPTIONS) + _GT.ASSUMPTIONS
EXPLANATION = EXPLANATION + _GT.C14


MAX_PER_KIND = 2


def structure_jobs(tier):
    if tier == "quick":
        names = ["1DFU_1_M-N.cif", "1HMH_1_E.cif", "6INQ.cif", "4WTI_1_T-P.cif", "1E7K_1_C.cif", "1A1T_1_B.cif", "1ATO.pdb", "1JJP.cif", "6FC9.cif", "488d.pdb",
                 "1ehz-assembly-1.cif"]
    else:
        names = G.SMALL + G.MEDIUM + G.LARGE
    return [{"id": n, "kind": "structure", "path": os.path.join(G.TESTS, n), "cli": True, "find_gaps": True} for n in names if os.path.exists(os.path.join(G.TESTS, n))]


def external_jobs(tier):
    names = ["1ehz-assembly-1.cif", "1E7K_1_C.cif", "1A1T_1_B.cif", "4WTI_1_T-P.cif", "488d.pdb", "1JJP.cif", "184D.cif"] if tier == "quick" else G.SMALL + G.MEDIUM + G.LARGE
    jobs = [{"id": "conflicts@" + n, "kind": "external", "path": os.path.join(G.TESTS, n)} for n in names if os.path.exists(os.path.join(G.TESTS, n))]
    if os.path.exists(os.path.join(G.TESTS, "184D-fr3d.txt")):
        jobs.append({"id": "fr3d@184D.cif", "kind": "fr3d", "path": os.path.join(G.TESTS, "184D.cif"), "external": os.path.join(G.TESTS, "184D-fr3d.txt")})
    return jobs


def secondary_jobs(tier, seed):
    rng = rng_for(seed, "c14")
    jobs = [{"id": f"db:{st}", "kind": "secondary", "sequence": sq, "structure": st} for sq, st in K.FIXED]
    for k in range(10 if tier == "quick" else 150):
        jobs.append({"id": f"knotted#{k}", "kind": "secondary", "bpseq": K.multi_group(rng)})
    p = os.path.join(G.TESTS, "1ET4-A.bpseq")
    if os.path.exists(p):
        jobs.append({"id": "1ET4-A.bpseq", "kind": "secondary", "bpseq": open(p).read()})
    p = os.path.join(G.TESTS, "1EHZ.dbn")
    if os.path.exists(p):
        lines = [ln.strip() for ln in open(p) if ln.strip() and not ln.startswith(">")]
        jobs.append({"id": "1EHZ.dbn", "kind": "secondary", "sequence": lines[0], "structure": lines[1]})
    p = os.path.join(G.TESTS, "6EK0-L5-L8.bpseq")
    if tier != "quick" and os.path.exists(p):
        jobs.append({"id": "6EK0-L5-L8.bpseq(no all_dot_brackets: factorial)", "kind": "secondary", "bpseq": open(p).read(), "all": False})
    return jobs


def run(name, jobs, rule, tier, seed, many_key):
    t0 = time.time()
    observed = D.observe(jobs, timeout=600 if tier == "quick" else 1800)
    found = D.compare(observed)
    by_id = {j["id"]: j for j in jobs}
    viol, per = [], {}
    for kind, output, jid, msg in found:
        key = (kind, output)
        per[key] = per.get(key, 0) + 1
        if per[key] <= MAX_PER_KIND:
            viol.append({"what": f"[{jid}] {output}: {msg}"[:300], "signature": f"{kind}:{output}:{jid}", "relates": "all_dot_brackets|bpseq|Mapping2D3D",
                         "input": {"check": name, "case": by_id[jid], "seed": seed, "tier": tier}, "_rank": per[key]})
    viol.sort(key=lambda v: v.pop("_rank"))
    nout, nerr = D.summary(observed)
    many = nontrivial = 0
    samples = []
    for jid, by_seed in observed.items():
        r = next((r for r in by_seed.values() if "failed" not in r), None)
        if r is None:
            continue
        sz = r["sizes"]
        if sz.get("bpseq", 0) > 0 and (sz.get("interactions.basePairs", 1) > 0):
            nontrivial += 1
        a, d = sz.get(many_key), sz.get("dot_bracket(solver)")
        if a and d and a > d:
            many += 1
            if len(samples) < 3:
                samples.append({"check": name, "input": jid, "all_dot_brackets_bytes": a, "outputs": len(r["outputs"])})
    return {"name": name, "evaluations": len(jobs) * len(D.SEEDS), "distinct_nontrivial": nontrivial, "violations": viol[:12], "samples": samples, "rule": rule,
            "bound": f"{len(jobs)} inputs x {len(D.SEEDS)} fresh interpreters (PYTHONHASHSEED {','.join(D.SEEDS)}) x 2 calls each; {nout} outputs hashed per seed "
                     f"({nerr} of them a constant exception text); {many} inputs with more than one dot-bracket in the list of all",
            "wall_s": round(time.time() - t0, 2), "violation_counts": {f"{k[0]}:{k[1]}": v for k, v in per.items()}}


def bounded(tier, seed):
    out = []
    out.append(run("structures", structure_jobs(tier),
                   "corpus PDB/mmCIF files: extract_base_interactions lists, extract_secondary_structure(all_dot_brackets=True) with and without find_gaps -> interaction "
                   "lists, BPSEQ, dot-bracket, extended dot-bracket, all dot-brackets in order (Mapping2D3D and BpSeq), stems/strands/hairpins/loops, inter-stem parameters, "
                   "write_json / write_csv / write_bpseq bytes; parser_v2 write_pdb / write_cif / fit_to_pdb+write_pdb text; the annotator command line tool's stdout and files",
                   tier, seed, "all_dot_brackets[Mapping2D3D,in order]"))
    out.append(run("external-conflicts", external_jobs(tier),
                   "rnapolis.adapter route: corpus structures with an external tool's interaction list in which residues have two canonical partners of equal rank "
                   "(G-C/G-C, A-U/A-U, G-U/G-U; conflict resolution in Mapping2D3D), and the FR3D report of 184D; same outputs as above",
                   tier, seed, "all_dot_brackets[Mapping2D3D,in order]"))
    out.append(run("secondary", secondary_jobs(tier, seed),
                   "BPSEQ / dot-bracket inputs with several independent pseudoknot groups (fixed ones incl. '([{.)].}..([.)].', generated blocks of 2-4 crossing stems, corpus "
                   "BPSEQ/DBN files): BPSEQ text, dot-bracket (solver), FCFS, BpSeq.all_dot_brackets in order, elements, without_pseudoknots",
                   tier, seed, "all_dot_brackets[BpSeq,in order]"))
    return out


def replay(inp):
    job = inp["case"]
    found = D.compare(D.observe([job]))
    return {"fails": bool(found), "errors": [f"{k}:{o}: {m}"[:300] for k, o, j, m in found[:3]]}
