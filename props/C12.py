"""C12 Secondary-structure objects are pure"""
import itertools

from gen.pairings import pairings_upto, random_structure, stems_of
from oracles import common_o as O
from props._util import rng_for, run_cases

LEVEL = "other"
DEDUCTIVE = []
TRUSTED = ["z3 5.1.0 / cvc5 1.0.3", "pyvc encoding of Python semantics (DESIGN 2.3)", "CPython 3.12"]
ASSUMPTIONS = []
EXPLANATION = "see DESIGN.md 4/C12"


def has_isolated(p):
    return any(len(s) == 1 for s in stems_of(p))


def bounded(tier, seed):
    rng = rng_for(seed, "c12")
    nmax = 6 if tier == "quick" else 8
    out = [run_cases("removals", pairings_upto(nmax), O.c12_removals, has_isolated,
                     f"all pairings N<={nmax}: without_pseudoknots / without_isolated against their definitions; non-trivial = has an isolated pair",
                     f"N<={nmax}", sig=lambda p: "".join(map(str, p)), relates="without_")]
    structs = [p for p in pairings_upto(6) if p and any(p)]
    rnd = [random_structure(rng, rng.randint(10, 40), rng.randint(2, 6), maxlen=3) for _ in range(40)]
    L = 4 if tier == "quick" else 8
    cases = []
    for k in range(300 if tier == "quick" else 3000):
        p = rng.choice(structs if k % 3 else rnd)
        calls = tuple(rng.choice(O.QUERIES) for _ in range(L))
        cases.append((p, calls))
    # every ordered pair of queries on a fixed set of structures with isolated pairs (exhaustive length 2)
    iso = [p for p in structs if has_isolated(p)][:12]
    for p in iso:
        for a, b in itertools.product(O.QUERIES, repeat=2):
            cases.append((p, (a, b)))
    out.append(run_cases("histories", cases, lambda c: O.c12_history(c[0], c[1]), lambda c: has_isolated(c[0]),
                         f"random call sequences of length {L} over the 9 public queries/derivations + all ordered pairs of calls on 12 structures, step-by-step against fresh copies",
                         f"length<={L}", sig=lambda c: "".join(map(str, c[0])) + ":" + ",".join(c[1]) if max(c[0]) < 10 else repr(c), relates="without_|frame"))
    return out


def replay(inp):
    c = inp["case"]
    errs = O.c12_removals(tuple(c)) if inp["check"] == "removals" else O.c12_history(tuple(c[0]), tuple(c[1]))
    return {"fails": bool(errs), "errors": errs[:3]}
