"""C12 Secondary-structure objects are pure"""
import itertools

from gen.pairings import pairings_upto, random_structure, stems_of
from oracles import common_o as O
from props._util import rng_for, run_cases

LEVEL = "other"
DEDUCTIVE = [{"module": "rnapolis.common", "sidecar": "contracts.common_elems_c",
              "targets": ["BpSeq.__post_init__", "BpSeq.__post_init__@any", "BpSeq.sequence", "DotBracket.__post_init__@full"]},
             {"module": "rnapolis.common", "sidecar": "contracts.common_elems_c",
              "opts": {"z3_probe_ms": 800},  # stage order: short z3 attempt, cvc5, then the usual z3 stages
              "targets": ["BpSeq.from_dotbracket", "DotBracket.without_pseudoknots", "BpSeq.without_pseudoknots",
                          "BpSeq.without_isolated"]},
             # lemma L-hist, SMT version (spec level, no code; induction by `decreases`): contracts/history_c.py.  The more general
             # Lean version (relational steps and postconditions, heaps with fields) is checked by deductive_extra below
             {"module": "rnapolis.common", "sidecar": "contracts.history_c",
              "targets": ["lemma:hist_view_stable", "lemma:hist_answers", "lemma:hist_as_fresh_copy", "lemma:hist_cached"]}]
TRUSTED = ["z3 5.1.0 / cvc5 1.0.3", "pyvc encoding of Python semantics (DESIGN 2.3)", "CPython 3.12",
           "external re.sub (contracts.common_elems_c._re_sub_brackets): for the one call of DotBracket.without_pseudoknots, a "
           "character class replaced by '.' is the character-wise map c -> '.' if c in []{}<>A-Za-z else c",
           "Lean 4.33.0 (kernel) as installed under /opt/veriftools (lean/History.lean: core Lean only, no Mathlib import; run "
           "offline as plain `lean`); the theorems depend on the standard axioms propext, Classical.choice, Quot.sound only "
           "(checked from the `#print axioms` output)",
           "the reading of lean/History.lean (abstract states / views / steps) as a statement about the engine's heaps and the "
           "verified contracts: dictionary in lean/README.md section 'History.lean', by inspection (see ASSUMPTIONS, L-hist)"]
ASSUMPTIONS = [
    "assumed callee contract BpSeq.dot_bracket (MILP encoder, subject of C02/C13; never a verify target here): returns without "
    "raising - on every access the same object, ghost slot self.dot_bracket_ (cached_property) - the text __make_dot_bracket "
    "writes for the stems under SOME proper level assignment with at most 30 levels (ghost R, O, G, GS: regions_match, "
    "regions_cover, proper, region_map, painted_g)",
    "assumed callee contract BpSeq.elements, stems component only (stems_ok / stems_cover / stems_maximal / stems_inverse for "
    "ghost S, GS and one Stem per run with the run's strand ends): proved for the local `stems` at the cut point of the C07 "
    "prefix contract BpSeq.elements@prefix; that the loop-linking tail leaves `stems` and the Stem objects alone and returns it "
    "as component 0 is a syntactic observation, not an engine proof",
    "object invariant of BpSeq taken as precondition: valid(self.entries) (property quantifier 'valid BPSEQ structures'), "
    "pairs_of(self.pairs, self.entries) (established by the proved BpSeq.__post_init__ contract on every construction) and "
    "heap well-formedness 'the entries of an existing structure are existing objects' (the engine does not assume it for "
    "references held in lists)",
    "dataclass __post_init__ of Stem / SingleStrand / Hairpin / Loop (self.description = str(self)) is not modelled: it writes "
    "only the undeclared field `description` of the object under construction",
    "L-hist, the composition of the per-method contracts over an arbitrary finite history of calls: the INDUCTION is machine-"
    "checked twice (lean/History.lean, theorems L_hist / history_relational / heap_history, target lean:History of "
    "deductive_extra; contracts/history_c.py, SMT lemmas hist_view_stable / hist_answers / hist_as_fresh_copy / hist_cached). "
    "What remains a READING (not machine-checked): (a) that the engine's heap and contracts instantiate the abstract system - "
    "states = heaps, view(b) = b.pairs, the (index_, sequence, pair) of b.entries in order and the contents of the ghost slots "
    "dot_bracket_ / stems_; Step(op, r, s, v, s') = 'the contract of op holds between s and s' with observed answer v' - and "
    "that a contract with modifies = [] whose body has no store and whose callees all have modifies = [] is hypothesis (i) "
    "(for bodies with stores the engine's frame.* obligations are hypothesis hstep of heap_history: every field of every "
    "allocated reference unchanged); (b) hypothesis (ii) method by method, see the table in EXPLANATION: a FUNCTIONAL "
    "postcondition over the receiver's view is provided by the verified contracts for pairs, sequence and without_pseudoknots "
    "(the latter over the view INCLUDING the dot_bracket_ slot) only; for fcfs and without_isolated it is functional only "
    "together with 'the maximal-run decomposition S of a valid structure is unique' (true, not machine-checked; FC itself is "
    "unique: lean/Definitional.lean); for dot_bracket, all_dot_brackets and elements the contracts are relational (SOME proper "
    "assignment / membership clauses / stems component only) and __str__ has no contract - for those the machine-checked "
    "conclusion is the relational one (no answer is stale: it satisfies the postcondition over the construction-time view) and "
    "'equal to the answer of a fresh copy' stays with the bounded oracle; (c) cached_property is modelled by ghost slots that "
    "exist from construction on and are never written; the real write of the instance __dict__ on first access is outside the model",
]
EXTRA_KIND = "Lean 4 lemma L-hist (lean/History.lean, core Lean only, ~1 s; checked in both tiers)"
EXPLANATION = (
    "Functions under contract (sidecar contracts/common_elems_c.py, reusing the proved contracts of contracts/common_c.py): "
    "BpSeq.__post_init__ (on valid entries: self.pairs[i] == j iff entry i is paired with j, both directions; variant @any: "
    "the frame alone with no precondition), BpSeq.sequence (C01 contract), BpSeq.from_dotbracket (for ANY decoder output - "
    "ordered positions, none twice - of equal-length sequence/structure: fresh valid structure, sequence preserved, pairs == "
    "db.pairs shifted by one, symmetric, no pair invented), DotBracket.__post_init__@full (third contract on the decoder: "
    "painted + general clauses of common_c and the ghost map 3' position -> decoded pair), DotBracket.without_pseudoknots "
    "(round brackets kept, everything else dotted; decoder cannot fail; decoded pairs are exactly the level-0 region pairs), "
    "BpSeq.without_pseudoknots (result pair at x == receiver's pair at x if the receiver's own dot-bracket text has '(' or ')' "
    "at x, else 0; sequence unchanged; valid; fresh), BpSeq.without_isolated (ghost S, GS = the maximal runs of stacked pairs: "
    "result pair at x == receiver's pair if its stem has length >= 2, else 0; sequence unchanged; valid; the receiver itself "
    "when nothing is isolated, otherwise a fresh object of fresh entries). "
    "FRAME (heart of C12): every one of these has modifies = [] (constructors: only the pairs slot of the object under "
    "construction), so the engine emits frame.Cls.f obligations over ALL references allocated at entry for every field the "
    "body writes (Entry.index_/sequence/pair, BpSeq.entries/pairs, DotBracket.*); loops that write carry the invariant "
    "'only-fresh-entries-written' (forall e allocated at entry: e.pair == old(e.pair)). Restoring `entries = "
    "self.entries.copy()` in without_isolated is reported at ghost.assert[copies-are-fresh-objects] (all_fresh(entries): the fact "
    "from which loop1.inv0[only-fresh-entries-written] and frame.Entry.pair are discharged); a store to the receiver inside a "
    "query (self.entries = self.entries[1:] in without_pseudoknots) fails frame.BpSeq.entries. "
    "Queries whose bodies contain no store at all (__str__, sequence, paired, __eq__) have nothing to frame: the engine finds "
    "the heap terms at exit identical to those at entry (no obligation); __str__'s text is a function of the entries' "
    "(index_, sequence, pair) only (one join/format expression over reads; string building over a symbolic list is outside "
    "the engine, so the text itself is not specified). "
    "L-HIST (machine-checked composition, lean/History.lean, target lean:History, one obligation per theorem, run by both tiers "
    "with plain `lean`, no Mathlib): abstract system Sys = (states, objects, view : state -> object -> optional view, Step op r s "
    "v s'); hypothesis (i) Frame: a step keeps the view of every object existing at its start; hypothesis (ii) Post P: the "
    "answer of r.op() satisfies P op (view of r) - Functional ans: it equals ans op (view of r); Run = finite histories, any "
    "receivers (also objects created earlier in the history), any interleaving, non-deterministic steps. Theorems: "
    "view_preserved (a view never changes along a history), history_relational (cut the history anywhere, e.g. after the "
    "construction of o: o's view at the end is its view at the cut and every later call on o satisfies P over THAT view - no "
    "answer is stale), L_hist (functional: every later call (op, o, v) has v == ans op w, w = the view after construction, and "
    "any execution of op on ANY object with view w in ANY state - the first call on a fresh equal object - returns the same v), "
    "repeated_access_same_answer (cached_property: same value on every access), hview_frame / heap_history (heaps with fields: "
    "'every field of every allocated reference unchanged' - the engine's frame.* obligations - plus 'objects held by an existing "
    "object exist' - requires ENTRIES_ALLOCATED - give (i) for view = own data + data of the held objects in order), "
    "frame_is_needed (a query that returns its view but flips it satisfies (ii), violates (i), and answers differently the "
    "second time: the statement is not vacuous and (i) cannot be dropped), hypotheses_can_be_met. "
    "SECOND PROOF BY SMT (contracts/history_c.py, targets lemma:hist_*; deterministic special case of the Lean statement): a "
    "recorded history of n steps - allocation frontier AL[t], view codes VV[t][o], operation H[t], receiver RC[t], answer A[t], "
    "all lemma parameters, the answer function hans uninterpreted - with frame_steps (i) and post_steps (ii); hist_view_stable "
    "(induction on k - j: an object existing at time j exists at time k >= j with the same view), hist_answers (A[k] == "
    "hans(H[k], view of the receiver at any earlier time j at which it existed)), hist_as_fresh_copy (equal to the answer of "
    "the same operation on any object with that view in any other history), hist_cached (same operation, same object: same "
    "answer). Self-test of both versions (run once, not registered): without the frame hypothesis, for an object not yet "
    "existing at time j, and with `False` as conclusion the SMT lemmas are refuted by counter-models (so the hypotheses are "
    "satisfiable); in Lean a dropped Frame hypothesis, a `sorry` and a strengthened conclusion are each reported as failed "
    "obligations of lean:History. "
    "WHERE (i)/(ii) COME FROM, method by method [method | (i) frame | (ii) postcondition over the view | functional?]: "
    "pairs (attribute, no call) | field BpSeq.pairs is framed by every frame.BpSeq.pairs obligation | BpSeq.__post_init__ "
    "ensures.0 pairs-dict-is-the-pairing: pairs_of(self.pairs, self.entries) | yes (dict determined key by key). "
    "sequence | bpseq_sequence modifies = [], body without store and without calls: no frame obligation arises | ensures.0 "
    "seq_of(self.entries, result) | yes. "
    "__str__ | NO contract; syntactically one expression of reads | none | - : not covered, bounded only. "
    "fcfs | C01 target BpSeq.fcfs, modifies = []; the body writes local lists only, callees __stems_entries / "
    "__make_dot_bracket / DotBracket.from_string@painted have modifies = [] (leaf obligations DotBracket.from_string#frame."
    "DotBracket.*, DotBracket.__post_init__ modifies pairs@self of the fresh object) | ensures 0-6 (length, sequence, lossless, "
    "painted with the levels FC on the stems R) | relational in the ghost R; functional only with uniqueness of the stem list "
    "(not machine-checked; FC is unique given R: lean/Definitional.lean); precondition levels30(self). "
    "dot_bracket | C13 contract (common_milp_c.dot_bracket): modifies LpSolver.msg, LpVariable.varValue and LpProblem fields "
    "only - no field of BpSeq / Entry / DotBracket; here the ASSUMED contract bpseq_dot_bracket with modifies = [] | SOME proper "
    "level assignment (relational); same object on every access via ghost slot dot_bracket_ (assumed) | NO: which optimal "
    "assignment the solver returns is not determined by any contract - functional only over the view that includes the slot. "
    "all_dot_brackets | C16 target, modifies = [] | every-member-lossless, every-proper-greedy-stable-assignment-is-a-member, "
    "ordered-by-structure-text | NO (membership clauses do not determine the list): relational. "
    "elements | BpSeq.elements@prefix modifies = [] PROVED up to `graph = defaultdict(set)`; the tail is NOT verified | stems "
    "component only (assumed for the returned tuple) | NO: bounded only as a member of histories. "
    "without_pseudoknots | target BpSeq.without_pseudoknots modifies = [], body without store; callees BpSeq.from_dotbracket "
    "(frame.Entry.index_/sequence/pair, frame.BpSeq.entries/pairs, loop0.inv1[only-fresh-entries-written]), DotBracket."
    "without_pseudoknots (frame.DotBracket.*), dot_bracket (assumed) | ensures 0-4: fresh, valid, sequence-unchanged, "
    "exactly-the-round-bracket-pairs, pairs-dict-is-the-pairing: the view of the result is given position by position from the "
    "receiver's entries and self.dot_bracket_.structure | yes, over the view including the dot_bracket_ slot. "
    "without_isolated | frame.Entry.index_/sequence/pair, frame.BpSeq.entries/pairs, loop1.inv0[only-fresh-entries-written]; "
    "requires ENTRIES_ALLOCATED | ensures 0-6: S-are-the-stems, self-when-nothing-isolated, self-or-fresh, valid, sequence-"
    "unchanged, exactly-the-pairs-of-stems-of-length>=2, pairs-dict-is-the-pairing | functional only with uniqueness of the "
    "maximal runs S (not machine-checked); `returns self`: the observed answer is then the receiver's own unchanged view. "
    "The cached_property slots themselves are modelled as ghost fields (dot_bracket_, stems_) that each access returns. "
    "Bounded only: the history quantifier on the REAL objects (random call sequences against fresh copies) - it covers what the "
    "reading above leaves open: __str__, fcfs / dot_bracket / all_dot_brackets / elements as members of the history compared "
    "with a FRESH copy (solver determinism, uniqueness of the stem list), and the real cached_property slots."
)

_LEAN_FILE = "/verif/lean/History.lean"
_LEAN_THEOREMS = ["view_preserved", "run_append", "answers_satisfy_post_of_initial_view", "history_relational",
                  "history_functional", "answer_as_first_call_on_fresh_equal_object", "repeated_access_same_answer", "L_hist",
                  "hview_frame", "heapSys_frame", "heap_history", "frame_is_needed", "hypotheses_can_be_met"]


def lean_file_records(path, namespace, theorems, tier, run_in_quick=True, timeout_s=900):
    """check one Lean file offline with plain `lean` (LEAN_PATH = the compiled Mathlib and its packages when present; no lake,
    no network) and return the record list for report.py: target lean:<namespace>, one obligation per listed theorem.
    Accepted iff lean exits 0, prints no error and no `sorry`, and every listed theorem has a `#print axioms` line naming the
    standard axioms only.  A Lean that cannot be started / cannot load its imports gives NOT-ESTABLISHED, never a violation.
    An accepted result is cached by the file's SHA-256 under /verif/.cache/lean; with run_in_quick=False the quick tier only
    reads that cache (for files whose imports make the check slow).  Usable by other property modules as well."""
    import glob, hashlib, json, os, re, shutil, subprocess, time
    target = f"lean:{namespace}"
    backend = "lean-4.33.0"
    std = {"propext", "Classical.choice", "Quot.sound"}
    cache_dir = "/verif/.cache/lean"
    lake = "/opt/veriftools/mathlib4/.lake"
    ne = lambda why: [{"target": target, "module": "lean", "status": "not-established", "obligations": [], "kind": "lean", "reason": why}]
    try:
        text = open(path).read()
    except OSError as e:
        return ne(f"checker error: {path} cannot be read ({e})")
    digest = hashlib.sha256(text.encode()).hexdigest()
    cache = os.path.join(cache_dir, digest + ".json")

    def record(per, ms, bk):
        obls = [{"name": f"{target}#{th}", "kind": "lemma", "result": "unsat" if ok else "sat", "backend": bk,
                 "ms": ms // max(1, len(per)), "model": None, "reason": why, "line": None} for th, (ok, why) in per.items()]
        return [{"target": target, "module": "lean", "status": "proved" if all(ok for ok, _ in per.values()) else "failed",
                 "obligations": obls, "kind": "lean", "reason": "", "source_hash": digest[:16]}]

    def cached():
        try:
            c = json.load(open(cache))
            if c.get("sha256") == digest and c.get("state") == "accepted" and sorted(c.get("theorems", [])) == sorted(theorems):
                return record({th: (True, "") for th in theorems}, c.get("ms", 0), backend + f" (cached result for file hash {digest[:16]})")
        except (OSError, ValueError):
            pass
        return None

    if tier != "thorough" and not run_in_quick:
        return cached() or []
    t0 = time.time()
    exe = shutil.which("lean") or "/opt/veriftools/lean/bin/lean"
    src = text.splitlines()
    import_line = max([k + 1 for k, l in enumerate(src) if l.startswith("import ")] or [0])
    dirs = [d for d in [lake + "/build/lib/lean"] + sorted(glob.glob(lake + "/packages/*/.lake/build/lib/lean")) if os.path.isdir(d)]
    if not os.path.exists(exe) or (import_line and not dirs):
        return cached() or ne(f"checker error, no verdict: lean binary or compiled Mathlib not found ({exe}, {lake})")
    env = {k: v for k, v in os.environ.items() if not k.lower().endswith("_proxy")}
    if dirs:
        env["LEAN_PATH"] = ":".join(dirs)
    try:
        p = subprocess.run([exe, path], capture_output=True, text=True, timeout=timeout_s, env=env, cwd=os.path.dirname(path))
    except (OSError, subprocess.TimeoutExpired) as e:
        return cached() or ne(f"checker error, no verdict: lean could not be run: {type(e).__name__}: {e}"[:300])
    ms = int((time.time() - t0) * 1000)
    out = p.stdout + "\n" + p.stderr
    errors = [(int(m.group(1)), m.group(2)) for m in re.finditer(r"^[^\n:]*:(\d+):\d+: error[^:\n]*: ([^\n]*)", out, re.M)]
    if any(ln <= import_line for ln, _ in errors) or (p.returncode != 0 and not errors):
        return cached() or ne(("checker error, no verdict: lean could not load its imports or crashed: "
                               + (errors[0][1] if errors else out.strip()[:200]))[:300])
    starts = [(k + 1, re.match(r"(?:theorem|def|lemma|noncomputable def)\s+(\S+)", l).group(1)) for k, l in enumerate(src)
              if re.match(r"(?:theorem|def|lemma|noncomputable def)\s+\S+", l)]
    span = {n: (ln, (starts[i + 1][0] - 1 if i + 1 < len(starts) else len(src))) for i, (ln, n) in enumerate(starts)}
    ns = re.escape(namespace)
    axioms = {m.group(1): {x.strip() for x in m.group(2).split(",") if x.strip()}
              for m in re.finditer(r"'" + ns + r"\.(\w+)' depends on axioms: \[([^\]]*)\]", out)}
    axioms.update({m.group(1): set() for m in re.finditer(r"'" + ns + r"\.(\w+)' does not depend on any axioms", out)})
    per = {}
    for th in theorems:
        lo, hi = span.get(th, (0, -1))
        errs = [msg for ln, msg in errors if lo <= ln <= hi]
        if th not in span:
            per[th] = (False, "theorem not found in the file")
        elif errs:
            per[th] = (False, "lean error: " + errs[0][:200])
        elif th not in axioms:
            per[th] = (False, "no `#print axioms` output for this theorem")
        elif axioms[th] - std:
            per[th] = (False, "depends on non-standard axioms: " + ", ".join(sorted(axioms[th] - std)))
        else:
            per[th] = (True, "")
    clean = p.returncode == 0 and not errors and "sorry" not in out
    if not clean and all(ok for ok, _ in per.values()):  # an error outside the listed theorems, or a `sorry`: nothing is accepted
        why = errors[0][1] if errors else ("`sorry` in the output" if "sorry" in out else f"exit code {p.returncode}")
        per = {th: (False, "the file as a whole is not accepted: " + why[:200]) for th in per}
    if clean and all(ok for ok, _ in per.values()):
        try:
            os.makedirs(cache_dir, exist_ok=True)
            with open(cache, "w") as f:
                json.dump({"sha256": digest, "state": "accepted", "theorems": theorems, "ms": ms, "backend": backend}, f, indent=1)
        except OSError:
            pass
    return record(per, ms, backend)


def deductive_extra(tier, seed):
    """lemma L-hist (lean/History.lean): core Lean only, about one second - run by both tiers"""
    return lean_file_records(_LEAN_FILE, "History", _LEAN_THEOREMS, tier, run_in_quick=True)


def has_isolated(p):
    return any(len(s) == 1 for s in stems_of(p))


def bounded(tier, seed):
    rng = rng_for(seed, "c12")
    nmax = 6 if tier == "quick" else 8
    out = [run_cases("removals", pairings_upto(nmax), O.c12_removals, has_isolated,
                     f"all pairings N<={nmax}: without_pseudoknots / without_isolated against their definitions; non-trivial = has an isolated pair",
                     f"N<={nmax}", sig=lambda p: "".join(map(str, p)), relates="without_")]
    # structures whose own dot-bracket needs 4-6 bracket types ('<>' and letters): k mutually crossing stems
    def clique(k):
        return tuple(list(range(k + 1, 2 * k + 1)) + list(range(1, k + 1)))
    deep = [clique(4), clique(5), clique(6), clique(4) + tuple(x + 8 if x else 0 for x in (2, 1)), clique(7)]
    out.append(run_cases("removals-many-levels", deep, O.c12_removals, lambda p: True,
                         "k = 4..7 mutually crossing stems (bracket types beyond '()[]{}'): without_pseudoknots / without_isolated against their definitions",
                         f"{len(deep)} structures", sig=lambda p: f"clique-like-{len(p)}", relates="without_"))
    structs = [p for p in pairings_upto(6) if p and any(p)]
    rnd = [random_structure(rng, rng.randint(10, 40), rng.randint(2, 6), maxlen=3) for _ in range(40)]
    L = 4 if tier == "quick" else 8
    cases = []
    for k in range(300 if tier == "quick" else 3000):
        p = rng.choice(structs if k % 3 else rnd)
        calls = tuple(rng.choice(O.QUERIES) for _ in range(L))
        cases.append((p, calls))
    # every ordered pair of queries on a fixed set of structures with isolated pairs (exhaustive length 2)
    iso = [p for p in structs if has_isolated(p)][:12]
    for p in iso:
        for a, b in itertools.product(O.QUERIES, repeat=2):
            cases.append((p, (a, b)))
    out.append(run_cases("histories", cases, lambda c: O.c12_history(c[0], c[1]), lambda c: has_isolated(c[0]),
                         f"random call sequences of length {L} over the 9 public queries/derivations + all ordered pairs of calls on 12 structures, step-by-step against fresh copies",
                         f"length<={L}", sig=lambda c: "".join(map(str, c[0])) + ":" + ",".join(c[1]) if max(c[0]) < 10 else repr(c), relates="without_|frame"))
    return out


def replay(inp):
    c = inp["case"]
    errs = O.c12_removals(tuple(c)) if inp["check"] == "removals" else O.c12_history(tuple(c[0]), tuple(c[1]))
    return {"fails": bool(errs), "errors": errs[:3]}
