"""C12 Secondary-structure objects are pure"""
import itertools

from gen.pairings import pairings_upto, random_structure, stems_of
from oracles import common_o as O
from props._util import rng_for, run_cases

LEVEL = "other"
DEDUCTIVE = [{"module": "rnapolis.common", "sidecar": "contracts.common_elems_c",
              "targets": ["BpSeq.__post_init__", "BpSeq.__post_init__@any", "BpSeq.sequence", "DotBracket.__post_init__@full"]},
             {"module": "rnapolis.common", "sidecar": "contracts.common_elems_c",
              "opts": {"z3_probe_ms": 800},  # stage order: short z3 attempt, cvc5, then the usual z3 stages
              "targets": ["BpSeq.from_dotbracket", "DotBracket.without_pseudoknots", "BpSeq.without_pseudoknots",
                          "BpSeq.without_isolated"]}]
TRUSTED = ["z3 5.1.0 / cvc5 1.0.3", "pyvc encoding of Python semantics (DESIGN 2.3)", "CPython 3.12",
           "external re.sub (contracts.common_elems_c._re_sub_brackets): for the one call of DotBracket.without_pseudoknots, a "
           "character class replaced by '.' is the character-wise map c -> '.' if c in []{}<>A-Za-z else c"]
ASSUMPTIONS = [
    "assumed callee contract BpSeq.dot_bracket (MILP encoder, subject of C02/C13; never a verify target here): returns without "
    "raising - on every access the same object, ghost slot self.dot_bracket_ (cached_property) - the text __make_dot_bracket "
    "writes for the stems under SOME proper level assignment with at most 30 levels (ghost R, O, G, GS: regions_match, "
    "regions_cover, proper, region_map, painted_g)",
    "assumed callee contract BpSeq.elements, stems component only (stems_ok / stems_cover / stems_maximal / stems_inverse for "
    "ghost S, GS and one Stem per run with the run's strand ends): proved for the local `stems` at the cut point of the C07 "
    "prefix contract BpSeq.elements@prefix; that the loop-linking tail leaves `stems` and the Stem objects alone and returns it "
    "as component 0 is a syntactic observation, not an engine proof",
    "object invariant of BpSeq taken as precondition: valid(self.entries) (property quantifier 'valid BPSEQ structures'), "
    "pairs_of(self.pairs, self.entries) (established by the proved BpSeq.__post_init__ contract on every construction) and "
    "heap well-formedness 'the entries of an existing structure are existing objects' (the engine does not assume it for "
    "references held in lists)",
    "dataclass __post_init__ of Stem / SingleStrand / Hairpin / Loop (self.description = str(self)) is not modelled: it writes "
    "only the undeclared field `description` of the object under construction",
    "L-hist (lemma over the contracts, by induction on the call sequence, not an SMT obligation): see EXPLANATION",
]
EXPLANATION = (
    "Functions under contract (sidecar contracts/common_elems_c.py, reusing the proved contracts of contracts/common_c.py): "
    "BpSeq.__post_init__ (on valid entries: self.pairs[i] == j iff entry i is paired with j, both directions; variant @any: "
    "the frame alone with no precondition), BpSeq.sequence (C01 contract), BpSeq.from_dotbracket (for ANY decoder output - "
    "ordered positions, none twice - of equal-length sequence/structure: fresh valid structure, sequence preserved, pairs == "
    "db.pairs shifted by one, symmetric, no pair invented), DotBracket.__post_init__@full (third contract on the decoder: "
    "painted + general clauses of common_c and the ghost map 3' position -> decoded pair), DotBracket.without_pseudoknots "
    "(round brackets kept, everything else dotted; decoder cannot fail; decoded pairs are exactly the level-0 region pairs), "
    "BpSeq.without_pseudoknots (result pair at x == receiver's pair at x if the receiver's own dot-bracket text has '(' or ')' "
    "at x, else 0; sequence unchanged; valid; fresh), BpSeq.without_isolated (ghost S, GS = the maximal runs of stacked pairs: "
    "result pair at x == receiver's pair if its stem has length >= 2, else 0; sequence unchanged; valid; the receiver itself "
    "when nothing is isolated, otherwise a fresh object of fresh entries). "
    "FRAME (heart of C12): every one of these has modifies = [] (constructors: only the pairs slot of the object under "
    "construction), so the engine emits frame.Cls.f obligations over ALL references allocated at entry for every field the "
    "body writes (Entry.index_/sequence/pair, BpSeq.entries/pairs, DotBracket.*); loops that write carry the invariant "
    "'only-fresh-entries-written' (forall e allocated at entry: e.pair == old(e.pair)). Restoring `entries = "
    "self.entries.copy()` in without_isolated fails loop1.inv0[only-fresh-entries-written].preserve and frame.Entry.pair. "
    "Queries whose bodies contain no store at all (__str__, sequence, paired, __eq__) have nothing to frame: the engine finds "
    "the heap terms at exit identical to those at entry (no obligation); __str__'s text is a function of the entries' "
    "(index_, sequence, pair) only (one join/format expression over reads; string building over a symbolic list is outside "
    "the engine, so the text itself is not specified). "
    "L-hist: let view(b) = [(e.index_, e.sequence, e.pair) for e in b.entries]. (1) every public method has modifies = fresh "
    "only (proved above; for dot_bracket/fcfs/all_dot_brackets/elements: contracts of C01/C02/C16/C07, modifies = []), hence "
    "view(b) and b.pairs never change after construction; (2) every cached value is a function of view(b) (functional "
    "postconditions: sequence, __stems_entries, fcfs, dot_bracket, elements), so a slot filled at any time holds what a fresh "
    "copy would compute; by induction on the length of the call sequence every answer equals the answer of a fresh copy. "
    "The cached_property slots themselves are modelled as ghost fields (dot_bracket_, stems_) that each access returns. "
    "Bounded only: the history quantifier itself (random call sequences against fresh copies), fcfs/all_dot_brackets/elements "
    "as members of the history, and `returns self` aliasing effects across calls."
)


def has_isolated(p):
    return any(len(s) == 1 for s in stems_of(p))


def bounded(tier, seed):
    rng = rng_for(seed, "c12")
    nmax = 6 if tier == "quick" else 8
    out = [run_cases("removals", pairings_upto(nmax), O.c12_removals, has_isolated,
                     f"all pairings N<={nmax}: without_pseudoknots / without_isolated against their definitions; non-trivial = has an isolated pair",
                     f"N<={nmax}", sig=lambda p: "".join(map(str, p)), relates="without_")]
    # structures whose own dot-bracket needs 4-6 bracket types ('<>' and letters): k mutually crossing stems
    def clique(k):
        return tuple(list(range(k + 1, 2 * k + 1)) + list(range(1, k + 1)))
    deep = [clique(4), clique(5), clique(6), clique(4) + tuple(x + 8 if x else 0 for x in (2, 1)), clique(7)]
    out.append(run_cases("removals-many-levels", deep, O.c12_removals, lambda p: True,
                         "k = 4..7 mutually crossing stems (bracket types beyond '()[]{}'): without_pseudoknots / without_isolated against their definitions",
                         f"{len(deep)} structures", sig=lambda p: f"clique-like-{len(p)}", relates="without_"))
    structs = [p for p in pairings_upto(6) if p and any(p)]
    rnd = [random_structure(rng, rng.randint(10, 40), rng.randint(2, 6), maxlen=3) for _ in range(40)]
    L = 4 if tier == "quick" else 8
    cases = []
    for k in range(300 if tier == "quick" else 3000):
        p = rng.choice(structs if k % 3 else rnd)
        calls = tuple(rng.choice(O.QUERIES) for _ in range(L))
        cases.append((p, calls))
    # every ordered pair of queries on a fixed set of structures with isolated pairs (exhaustive length 2)
    iso = [p for p in structs if has_isolated(p)][:12]
    for p in iso:
        for a, b in itertools.product(O.QUERIES, repeat=2):
            cases.append((p, (a, b)))
    out.append(run_cases("histories", cases, lambda c: O.c12_history(c[0], c[1]), lambda c: has_isolated(c[0]),
                         f"random call sequences of length {L} over the 9 public queries/derivations + all ordered pairs of calls on 12 structures, step-by-step against fresh copies",
                         f"length<={L}", sig=lambda c: "".join(map(str, c[0])) + ":" + ",".join(c[1]) if max(c[0]) < 10 else repr(c), relates="without_|frame"))
    return out


def replay(inp):
    c = inp["case"]
    errs = O.c12_removals(tuple(c)) if inp["check"] == "removals" else O.c12_history(tuple(c[0]), tuple(c[1]))
    return {"fails": bool(errs), "errors": errs[:3]}
