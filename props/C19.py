"""C19 External-tool output is imported totally and faithfully"""
import os

from gen import structures as G
from oracles import adapter_o as A
from props._util import rng_for, run_cases

LEVEL = "other"
DEDUCTIVE = [{"module": "rnapolis.adapter", "sidecar": "contracts.adapter_c", "targets": ["unify_classification", "unify_classification@callee", "lemma:label_languages_disjoint", "parse_unit_id", "_process_interaction_line", "parse_fr3d_output"]}]
TRUSTED = ["orjson", "CPython str methods", "z3/cvc5 string theories"]
ASSUMPTIONS = ["labels are ASCII in the deductive part (str.isdigit/lower/upper on non-ASCII are excluded by precondition); the bounded part is unrestricted on its alphabet"]
EXPLANATION = "see DESIGN.md 4/C19"


def bounded(tier, seed):
    rng = rng_for(seed, "c19")
    L = 4 if tier == "quick" else 5
    out = [run_cases("labels-exhaustive", A.all_labels(L), A.check_label, lambda s: A.expected_label(s)[0] != "other",
                     f"every string of length <= {L} over the alphabet {A.ALPHABET!r} through unify_classification vs the regular languages of the property; non-trivial = recognised class",
                     f"length<={L} over {len(A.ALPHABET)} characters", sig=str, relates="unify_classification")]
    extra = ["ncWWa", "nTsHa", "n7BPha", "ns35a", "cWWaa", "nncWW", "٣BR", "²BR", "tHS\n", " cWW", "CWW", "cSSa", "sSS", "s355", "ns33", "0bph", "0BPH"]
    out.append(run_cases("labels-extra", extra, A.check_label, lambda s: True, "hand-picked long / non-ASCII / near-miss labels", f"{len(extra)} labels", sig=repr,
                         relates="unify_classification"))
    cases = [(rng.randrange(10 ** 9), rng.randint(5, 60)) for _ in range(150 if tier == "quick" else 2500)]
    out.append(run_cases("listings", cases, A.check_listing, lambda c: True,
                         "generated FR3D listings mixing valid, near-miss and malformed lines (bad unit ids, missing fields, comments); every category list compared in order",
                         f"{len(cases)} listings", sig=repr, relates="_process_interaction_line|parse_unit_id|parse_fr3d_output"))
    paths = [p for p in G.corpus("quick") if os.path.getsize(p) < 400000][:6]
    dcases = [(p, rng.randrange(10 ** 9)) for p in paths for _ in range(10 if tier == "quick" else 120)]
    out.append(run_cases("dssr-documents", dcases, A.check_dssr, lambda c: True,
                         "DSSR JSON documents generated from a structure's residue names: valid/invalid/dunder LW values, unresolvable names at the ends and in the middle of stacks, missing keys, multi-model wrapper",
                         f"{len(dcases)} documents", sig=lambda c: f"{os.path.basename(c[0])}:{c[1]}", relates="parse_dssr_output|match_dssr"))
    return out


def replay(inp):
    c = inp["case"]
    f = {"labels-exhaustive": A.check_label, "labels-extra": A.check_label, "listings": lambda c: A.check_listing(tuple(c)),
         "dssr-documents": lambda c: A.check_dssr(tuple(c))}[inp["check"]]
    errs = f(c)
    return {"fails": bool(errs), "errors": errs[:3]}


def replay_model(obligation, model):
    """ground counter-model of a string obligation -> run the real function natively"""
    import re as _re
    raw = model.get("fr3d_name")
    if raw is None:
        return None
    label = raw.strip('"')
    label = _re.sub(r"\\u\{([0-9a-fA-F]+)\}", lambda m: chr(int(m.group(1), 16)), label)
    errs = A.check_label(label)
    return {"fails": bool(errs), "input": {"check": "labels-extra", "case": label}, "errors": errs}
