"""C19 External-tool output is imported totally and faithfully"""
import os

from gen import structures as G
from oracles import adapter_o as A
from props._util import rng_for, run_cases

LEVEL = "other"
DEDUCTIVE = [
    {"module": "rnapolis.adapter", "sidecar": "contracts.adapter_c",
     "targets": ["unify_classification", "unify_classification@callee", "lemma:label_languages_disjoint", "lemma:split_of_empty", "parse_unit_id", "_process_interaction_line",
                 "parse_fr3d_output", "match_dssr_lw", "match_dssr_name_to_residue", "match_dssr_name_to_residue@callee"]},
    # the DSSR import loops: quantified invariants; an obligation on which z3's model-based instantiation wanders is handed to
    # pure E-matching after 1.5 s instead of 4 s (same back ends, same verdicts)
    {"module": "rnapolis.adapter", "sidecar": "contracts.adapter_c", "targets": ["parse_dssr_output"], "opts": {"z3_first_ms": 1500}},
]
TRUSTED = [
    "z3 5.1.0 / cvc5 1.0.3 (string and regular-language theories)", "pyvc encoding of Python semantics (DESIGN 2.3)", "CPython 3.12 str methods",
    "external str.split (contracts.adapter_c._ext_split): s.split(<constant non-empty separator>) is a deterministic function of (s, sep) "
    "with at least one piece; WHAT the pieces are is the assumed lemma split_characterisation (maximal sep-free pieces in order: each "
    "a substring of s at its offset, followed by sep except the last, which ends s; joining with sep gives s) - used only by "
    "lemma:split_of_empty (the empty string has one piece), every other proof needs only that spec and code split the same string",
    "external str.strip (no argument): an uninterpreted deterministic function of the string (nothing else assumed)",
    "engine model of int(str) (pyvc/calls.py ext_int_of_str): ValueError unless the string is an optionally signed ASCII decimal numeral "
    "(underscores, surrounding whitespace allowed); value = uninterpreted py_int tied to str.to_int on digit strings; non-ASCII digits are "
    "outside this model",
    "external builtins.open(path[, 'r']) / TextFile.__enter__ / __exit__ / read: the file exists and is readable (no OSError), iterating it "
    "yields file_lines(path), read() yields file_text(path) - functions of the path (the file does not change meanwhile); __exit__ never "
    "swallows an exception",
    "external orjson.loads: returns a NEW document object of the assumed DSSR schema (dict with optional 'models' = list of dicts with "
    "integer 'model' and dict 'parameters'; optional 'pairs' = list of dicts whose 'nt1'/'nt2'/'LW' are strings when present; optional "
    "'stacks' = list of dicts with a string 'nts_long'); nothing is assumed about its content (it is the ghost result D); a document "
    "violating the schema (e.g. a number where a name is expected) is outside the contract",
    "externals DssrDoc.__contains__ / DssrDoc.get / DssrModel.get and the fixed-key records DssrPair / DssrStack: dict reads of that schema "
    "(key present -> value, absent or null -> the default)",
    "externals InteractionsData.__getitem__ / __setitem__: the dict {'base_pairs': [..], ..} of parse_fr3d_output as an object with one heap "
    "field per key (d[k].append(x) is the store d[k] = d[k] + [x])",
    "attribute Residue.full_name (common.py, cached property): a pure function of the residue's (label, auth), returning a string",
]
ASSUMPTIONS = [
    "labels are ASCII in the deductive part (str.isdigit/lower/upper on non-ASCII are excluded by precondition: requires of "
    "unify_classification, _process_interaction_line, parse_fr3d_output); the bounded part is unrestricted on its alphabet",
    "definitional abbreviations (explicit definitions = conservative extensions, contracts.adapter_c.LEMMAS kind 'definition'): "
    "numeral(s) == 'int(s) does not raise ValueError' (numeral_definition); isLW/isST/isBPH/isBR(lbl) == lbl matches the regular "
    "language of the property (label_language_definition); class_of(lbl) == the class the label denotes, by cases on these "
    "(class_of_definition); lwname(s) == s is one of the 18 LW member names, lwclass(s) == that member (lw_name_definition); "
    "namedS(sid, key) == some residue of structure sid carries the name, posS(sid, key) == position of the first one, by unique "
    "description (resolution_definition: relative to structure.residues as it is when instantiated - no function under contract "
    "writes Structure3D.residues, see their frame obligations)",
    "the four label languages are pairwise disjoint: PROVED (lemma:label_languages_disjoint), so 'the category a label denotes' is well defined",
    "classification members are encoded by position in the concatenation of the member lists of LeontisWesthof, StackingTopology, BPh, BR "
    "(engine shape enum[A,B,..]); the table CLS (value -> position) written out in the sidecar is checked against the real classes at import",
    "_process_interaction_line: the dict passed in has exactly the five category keys, bound to five DISTINCT list objects (as built by "
    "parse_fr3d_output, its only caller): the model holds the lists as values of five fields, so aliasing between them is excluded",
    "a Residue3D of the structure is represented by its Residue part (label, auth) - what full_name reads; every residue has an auth or a "
    "label identity (requires `identified`), so full_name is a string",
    "a listing line = a line that, stripped, does not start with '#' (comment lines are not part of the listing; the bounded oracle reads "
    "the property the same way); the unit ids / label of a line are the first three tab-separated fields of the STRIPPED line",
    "exceptional exits of one statement are taken in evaluation order (sidecar opt-in ORDERED_RAISES: the first subexpression that raises "
    "ends the statement)",
    "DSSR: D (ghost result) is the document whose pairs/stacks are imported - the selected model's 'parameters' or the document itself; "
    "WHICH model is selected is not part of the property and not specified",
]
EXPLANATION = (
    "Under contract (contracts/adapter_c.py, all discharged): unify_classification (the five label clauses over ALL ASCII strings, never "
    "raises) and its caller view @callee (same clauses with a shaped result, through isLW.. / class_of); parse_unit_id (result == "
    "unit_residue(nt): chain = field 2, name = field 3, number = int(field 4), icode = field 7 iff >= 8 fields and non-empty, else None; "
    "label None; modifies nothing, i.e. a pure function of nt; raises IndexError exactly when < 5 fields and ValueError exactly when "
    ">= 5 fields and field 4 is no numeral - raises_exact, both directions); _process_interaction_line (total: raises = []; returns "
    "True iff the line has >= 3 tab fields and two parsable unit ids; each of the five category lists == its old value with the line's "
    "interaction (exactly those two residues, the class the label denotes) appended iff the line is parsable AND its label denotes that "
    "category ('other' = unrecognised), else untouched - with the languages disjoint this is 'exactly one append to exactly the list of "
    "the category, or nothing'; frame: no other object's lists change); parse_fr3d_output (never raises; loop invariant / postcondition per "
    "category: ghost S = source line of every interaction, strictly increasing, each a non-comment parsable line of that category whose "
    "interaction is the element; ghost P = position of every such line: one interaction per parsable line, in order, nothing else; blank "
    "lines are skipped soundly by lemma:split_of_empty); match_dssr_lw (exactly the 18 member names written out in the sidecar give that "
    "member, anything else None, no KeyError - membership in dir() fails safe.no_KeyError); match_dssr_name_to_residue (None for None / "
    "a name no residue carries, else the FIRST residue whose full_name equals the text after the last ':'; + caller view @callee); "
    "parse_dssr_output (never raises; base pairs == exactly the document's pairs with a member-name class and two resolving names, in "
    "order, joining the resolved residues with that class [S_p / P_p]; stackings == exactly the steps (stack a, member t >= 1) whose "
    "members t-1 and t both resolve, in document and stack order, joining those two residues [SS / ST / POS]; the three other lists "
    "empty). Engine features added for this: enum[A,B,..] shapes, dict-literal objects, observer contract calls inside comprehensions "
    "(call_contract_elementwise), ordered raises, not-None obligations at constructors (opt-ins of this sidecar). "
    "Bounded stand-ins stay for: labels to length 4/5 exhaustively, generated listings and DSSR documents through the real functions "
    "(incl. hidden module state: a memoising parse_unit_id is refused by the engine - module-level mutable state is outside its subset - "
    "and caught by the listing oracle)."
)


# glue functions of the property's observe_at list (contracts/glue_c.py; texts shared in props/_glue_text.py)
from props import _glue_text as _GT
DEDUCTIVE += [{"module": "rnapolis.adapter", "sidecar": "contracts.glue_c",
               "targets": ["parse_external_output", "extract_secondary_structure_from_external", "process_external_tool_output", "main@adapter"]},
              {"module": "rnapolis.annotator", "sidecar": "contracts.glue_c", "targets": ["add_common_output_arguments"]}]
TRUSTED = list(TRUSTED) + _GT.TRUSTED
ASSUMPTIONS = list(ASSUMPTIONS) + _GT.ASSUMPTIONS
EXPLANATION = EXPLANATION + _GT.C19


def bounded(tier, seed):
    rng = rng_for(seed, "c19")
    L = 4 if tier == "quick" else 5
    out = [run_cases("labels-exhaustive", A.all_labels(L), A.check_label, lambda s: A.expected_label(s)[0] != "other",
                     f"every string of length <= {L} over the alphabet {A.ALPHABET!r} through unify_classification vs the regular languages of the property; non-trivial = recognised class",
                     f"length<={L} over {len(A.ALPHABET)} characters", sig=str, relates="unify_classification")]
    extra = ["ncWWa", "nTsHa", "n7BPha", "ns35a", "cWWaa", "nncWW", "٣BR", "²BR", "tHS\n", " cWW", "CWW", "cSSa", "sSS", "s355", "ns33", "0bph", "0BPH"]
    out.append(run_cases("labels-extra", extra, A.check_label, lambda s: True, "hand-picked long / non-ASCII / near-miss labels", f"{len(extra)} labels", sig=repr,
                         relates="unify_classification"))
    cases = [(rng.randrange(10 ** 9), rng.randint(5, 60)) for _ in range(150 if tier == "quick" else 2500)]
    out.append(run_cases("listings", cases, A.check_listing, lambda c: True,
                         "generated FR3D listings mixing valid, near-miss and malformed lines (bad unit ids, missing fields, comments); every category list compared in order",
                         f"{len(cases)} listings", sig=repr, relates="_process_interaction_line|parse_unit_id|parse_fr3d_output"))
    paths = [p for p in G.corpus("quick") if os.path.getsize(p) < 400000][:6]
    dcases = [(p, rng.randrange(10 ** 9)) for p in paths for _ in range(10 if tier == "quick" else 120)]
    out.append(run_cases("dssr-documents", dcases, A.check_dssr, lambda c: True,
                         "DSSR JSON documents generated from a structure's residue names: valid/invalid/dunder LW values, unresolvable names at the ends and in the middle of stacks, missing keys, multi-model wrapper",
                         f"{len(dcases)} documents", sig=lambda c: f"{os.path.basename(c[0])}:{c[1]}", relates="parse_dssr_output|match_dssr"))
    tcases = [(paths[k % len(paths)], rng.randrange(10 ** 9), rng.randint(5, 40)) for k in range(12 if tier == "quick" else 150)] if paths else []
    out.append(run_cases("tool-run", tcases, A.check_tool, lambda c: True,
                         "adapter.main in-process (--tool fr3d, -j) on a corpus structure with a generated FR3D listing: the interaction lists of the JSON it writes are what the "
                         "listing denotes, category by category, in order", f"{len(tcases)} runs", sig=lambda c: f"{os.path.basename(c[0])}:{c[1]}:{c[2]}", relates="main|parse_fr3d_output"))
    return out


def replay(inp):
    c = inp["case"]
    f = {"tool-run": lambda c: A.check_tool(tuple(c)), "labels-exhaustive": A.check_label, "labels-extra": A.check_label, "listings": lambda c: A.check_listing(tuple(c)),
         "dssr-documents": lambda c: A.check_dssr(tuple(c))}[inp["check"]]
    errs = f(c)
    return {"fails": bool(errs), "errors": errs[:3]}


def replay_model(obligation, model):
    """ground counter-model of a string obligation -> run the real function natively"""
    import re as _re
    raw = model.get("fr3d_name")
    if raw is None:
        return None
    label = raw.strip('"')
    label = _re.sub(r"\\u\{([0-9a-fA-F]+)\}", lambda m: chr(int(m.group(1), 16)), label)
    errs = A.check_label(label)
    return {"fails": bool(errs), "input": {"check": "labels-extra", "case": label}, "errors": errs}
