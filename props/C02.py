"""C02 Pseudoknot order assignment is a proper and optimal level assignment"""
from gen.pairings import HAIRPIN, concat, pairings_upto, random_structure, stems_of, stretch
from oracles import common_o as O
from props._util import rng_for, run_cases
from props.C01 import knotted
import os

LEVEL = "other"
EXTRA_KIND = "Lean 4 + Mathlib lemmas (lean/Pigeonhole.lean; checked in the thorough tier, cached result reported in the quick tier)"
DEDUCTIVE = [{"module": "rnapolis.common", "sidecar": "contracts.common_milp_c",
              "targets": ["BpSeq.convert_to_dot_bracket@model", "BpSeq.dot_bracket@model",
                          "lemma:esum_witness", "lemma:esum_nonneg", "lemma:esum_zero", "lemma:esum_atmost"]},
             # spec-level lemmas behind the optimality clause (no code involved): contracts/poa_lemmas_c.py
             {"module": "rnapolis.common", "sidecar": "contracts.poa_lemmas_c",
              "targets": ["lemma:conflict_graph_is_simple", "lemma:coef_is_term", "lemma:term_lower_level_is_better",
                          "lemma:sum_after_move", "lemma:exchange", "lemma:not_improvable_is_stable_at",
                          "lemma:stable_level_fits_under_bound", "lemma:stable_levels_fit_under_bound",
                          "lemma:fcfs_levels_are_proper_and_greedy_stable", "lemma:greedy_stable_is_stable",
                          "lemma:fcfs_is_a_competitor", "lemma:optimum_not_worse_than_fcfs",
                          "lemma:one_hot_row_collapses", "lemma:one_hot_matrix_objective"]}]
TRUSTED = ["z3 5.1.0 / cvc5 1.0.3", "pyvc encoding of Python semantics (DESIGN 2.3)", "CPython 3.12",
           "the pulp model of contracts/common_milp_c.py (EXTERNALS; listed item by item in props/C13.py TRUSTED): solver objects, "
           "LpProblem / LpVariable construction, the free term algebra of affine expressions and constraints, LpProblem.__iadd__, "
           "LpProblem.variables(), itertools.combinations, collections.defaultdict, str.split",
           "T-solver (LpProblem.solve), feasibility part: status == LpStatusOptimal and all variables Integer => every value is an "
           "integer within its bounds and every constraint that was added holds",
           "pulp + CBC/HiGHS return an OPTIMUM of the model they are given (external binary) - not used by any proof here, see "
           "ASSUMPTIONS / EXPLANATION",
           "callee contracts proved under C01 (contracts/common_c.py): BpSeq.__regions, BpSeq.__make_dot_bracket, BpSeq.fcfs",
           "Lean 4.33.0 (kernel) + Mathlib v4.33.0 as installed under /opt/veriftools (lean/Pigeonhole.lean; run offline as plain "
           "`lean` with LEAN_PATH set to the compiled Mathlib - no lake, no network); the theorems depend on the standard axioms "
           "propext, Classical.choice, Quot.sound only (checked from the `#print axioms` output)",
           "the reading of the Lean statements (finite graph on Fin n, levels in Nat, lengths in Int) as statements about the "
           "stems R, cross, the levels O, card(G[a]) and max_order of the contract: dictionary in lean/README.md, by inspection"]
ASSUMPTIONS = [
    "levels30(self), degree30(self) (see props/C13.py): the contract covers structures in which no stem crosses more than 29 others",
    "esum_definition, numeral_definition(_all), degree30_definition, times_definition (times(x, y) == x * y: the product in the "
    "objective coefficients is kept uninterpreted inside quantified invariants) (definitions); split3, int_str_roundtrip (assumed facts about "
    "str.split / int() / str()); len.set (set cardinality as an uninterpreted non-negative function): as in props/C13.py",
    "pigeonhole_level_le_degree (contracts/poa_lemmas_c.py, kind 'lean'): the counting step '0 <= a < len(R), G[a] = the set of stems "
    "crossing a, O greedy-stable => O[a] <= card(G[a])' is IMPORTED into the SMT lemmas stable_level(s)_fit_under_bound, "
    "fcfs_is_a_competitor, optimum_not_worse_than_fcfs from Lean (theorem level_le_degree of lean/Pigeonhole.lean, checked in the "
    "thorough tier; the quick tier reports it only from the cache of a thorough run on the same file). ASSUMED with the import: the SMT "
    "model's uninterpreted set cardinality card / len.set is the number of elements (Finset.card) of the finite set G[a]",
    "the Lean theorems are statements about an abstract finite graph; that they speak about the contract's ghost results (R, O, G, "
    "max_order) is the reading documented in lean/README.md - not machine-checked (listed in TRUSTED)",
    "NOT PROVED (composition): no contract clause states 'the assignment read back maximises the objective': the pulp model carries "
    "no optimality fact, so the chain [T-solver optimality (assumed, next item)] + [every proper assignment with levels < max_order "
    "is a feasible 0/1 point: one_hot_feasible] + [objective of a one-hot point == objective of the assignment it encodes: "
    "term_list_objective / one_hot_matrix_objective, over the term list characterised by obligation model-4-objective and the "
    "read-back characterised by model-6-read-back] + [best among levels < max degree + 1 => best among all proper assignments: "
    "restricted_optimum_is_global] is assembled in EXPLANATION from machine-checked links, not by the engine",
    "NOT PROVED: T-solver, optimality part (the reported valuation maximises the objective among feasible valuations)",
]
EXPLANATION = (
    "Under contract: BpSeq.convert_to_dot_bracket@model and BpSeq.dot_bracket@model (second contracts on the functions of C13; "
    "all C13 clauses are re-proved with them). PROVED: 'the model the code hands to the solver IS the model of the property', as "
    "named obligations of convert_to_dot_bracket@model - model-1-conflict-graph: j in graph[i] iff stems i, j cross (symmetric, "
    "irreflexive), from the invariant of the combinations loop; model-2-level-bound: max_order == (max over vertices of the number "
    "of crossing stems) + 1; model-3-variables: exactly one variable per cell (region, level < max_order), bounds 0..1, Integer, "
    "named so that the read-back parses (region, level) back (ghost row/column maps, allocation frame of the creating loops); "
    "model-4-objective: the objective is the sum of exactly one monomial per cell with coefficient +len on level 0 and "
    "-level*len above (ghost position map, both directions); model-5-constraints: constraints 0..n-1 are sum_o x_a_o == 1 for the "
    "regions, every later constraint is x_a_o + x_b_o <= 1 for an edge (a, b) and a level o, and every edge has one on every "
    "level - nothing else; model-6-read-back: with T-solver, x_a_o == 1 iff o == orders[a] (lemmas esum_witness / esum_atmost on "
    "0/1 sums, proved by induction). ENSURES: on the MILP exit and on the empty-graph exit the result is the painting of the "
    "stems R with a level assignment O that is PROPER (crossing stems never share a level, levels < 30) - ghost results R, O, G; "
    "the MILP is set up only when two stems cross and otherwise every stem is on level 0 (pseudoknot-free => only round "
    "brackets). NOT DECIDED deductively on the code: that the assignment MAXIMISES the objective (needs the solver's optimality - "
    "an unproved assumption - composed with the lemmas L-enc and L-bound, which are proved at the level of the specification, see "
    "below and ASSUMPTIONS) and with it the corollaries 'no stem could be moved lower' / 'never worse than FCFS' - "
    "on the real function these stay with the bounded oracles (brute-force optimum on all pairings N <= 7/9 and random knotted structures). "
    "LEMMAS BEHIND THE OPTIMALITY CLAUSE (spec level, no code; contracts/poa_lemmas_c.py by SMT, lean/Pigeonhole.lean by Lean 4 + "
    "Mathlib; former assumptions L-exch / L-bound / L-enc are now proved, what is left is listed in ASSUMPTIONS). Objects: stems R "
    "with conflict graph cross(R, a, b) (symmetric, irreflexive: conflict_graph_is_simple) and lengths R[a][2] >= 1; objective of a "
    "level assignment O = S[len(R)] for the list S of running sums of term(len_a, O[a]) (a lemma parameter constrained by its "
    "recurrence - no uninterpreted sum, no axiom); term == the MILP coefficient (coef_is_term, with times_definition). "
    "L-exch: term_lower_level_is_better (0 <= k < l, len >= 1 => term(len, k) > term(len, l)), sum_after_move (objective of O[a := k] "
    "== objective of O - term(len_a, O[a]) + term(len_a, k), induction over the index), exchange (O proper, k < O[a], no stem crossing "
    "a on level k => O[a := k] proper with a strictly larger objective); not_improvable_is_stable_at: an O that is not beaten by its "
    "one-move competitor O[a := k] has a crossing stem on level k, for every a and k < O[a] - optimality enters as this first-order "
    "instance, so an optimum is greedy-stable ('no stem could be moved to a lower level'). L-bound: stable_level(s)_fit_under_bound: "
    "greedy-stable levels are < max_order = max degree + 1 (degree_bound is the clause proved as model-2-level-bound); the counting "
    "step inside (a stem on level l has l crossing stems on the l levels below, so l <= degree) is done in Lean "
    "(levels_below_attained_le_card over Finset, level_le_degree, level_lt_bound) and imported as pigeonhole_level_le_degree. "
    "FCFS: fcfs_is_a_competitor (the FCFS levels - FC_def, proper and greedy-stable by fcfs_levels_are_proper_and_greedy_stable, "
    "re-proved here - are proper and < max_order: a feasible competitor of the MILP), optimum_not_worse_than_fcfs (optimality "
    "instantiated at FCFS: objective(O) >= objective(FCFS)). L-enc, matrix form: one_hot_row_collapses / one_hot_matrix_objective "
    "(x[a][j] in {0,1}, x[a][j] == 1 iff j == O[a] => sum_a sum_j C[a][j] * x[a][j] == sum_a C[a][O[a]]; induction over columns, "
    "then rows). ONLY IN LEAN (second-order statements, quantifying over all assignments): exchange and its iteration "
    "(exists_greedy_stable_improvement, induction on the sum of the levels), restricted_optimum_is_global (best among proper "
    "assignments with levels < max degree + 1 => best among ALL proper assignments: restricting the MILP to max_order levels loses "
    "no optimum), optimal_is_greedy_stable / restricted_optimum_is_greedy_stable, never_worse_than (any proper F, e.g. FCFS), "
    "term_list_objective (the objective as ONE sum over the term list, any order, one monomial per cell) and one_hot_feasible (the "
    "0/1 matrix of a proper assignment with levels < max_order satisfies the MILP's constraints). The Lean file is checked by the "
    "THOROUGH tier only (target lean:Pigeonhole, one obligation per theorem; accepted iff lean exits 0 without error/sorry and "
    "every theorem depends on the standard axioms only); the quick tier does not run Lean: it reports lean:Pigeonhole from the cache "
    "of a thorough run on the identical file (/verif/.cache/lean/<sha256>.json) and omits the record when there is none. A Lean "
    "that cannot be started (missing binary / Mathlib, timeout, import failure) gives NOT-ESTABLISHED, never a violation. Self-test "
    "(run once, not registered): false siblings - term with len = 0, exchange towards a higher level or onto a used level, the sum "
    "update off by one, stability without the optimality hypothesis, a row with several ones, reflexive crossing - are refuted with "
    "counter-models (bound max degree instead of max degree + 1 and optimality over fewer levels: not provable, solver gives up); "
    "in Lean 'l < card' instead of 'l <= card', len = 0 and the upward exchange fail to compile and their negations are proved."
)


_LEAN_FILE = "/verif/lean/Pigeonhole.lean"
_LEAN_CACHE = "/verif/.cache/lean"
_LEAN_BACKEND = "lean-4.33.0+mathlib"
_MATHLIB_LAKE = "/opt/veriftools/mathlib4/.lake"
_LEAN_THEOREMS = ["levels_below_attained_le_card", "levels_below_attained_le_card_int", "level_le_degree", "level_lt_bound",
                  "term_strict_anti", "exchange", "restricted_optimum_is_global", "optimal_is_greedy_stable",
                  "restricted_optimum_is_greedy_stable", "never_worse_than", "one_hot_double_sum", "term_list_objective",
                  "one_hot_feasible"]
_STD_AXIOMS = {"propext", "Classical.choice", "Quot.sound"}


def _lean_check(path, timeout_s=1800):
    """run `lean <path>` offline (plain lean, LEAN_PATH = the compiled Mathlib and its packages; no lake, no network).
    -> ("accepted" | "rejected" | "unavailable", detail, {theorem: (ok, reason)}, ms).  "unavailable" = Lean could not be
    started or could not load Mathlib: an error of the checking environment, never a verdict about the file."""
    import glob, re, shutil, subprocess, time
    t0 = time.time()
    ms = lambda: int((time.time() - t0) * 1000)
    exe = shutil.which("lean") or "/opt/veriftools/lean/bin/lean"
    dirs = [d for d in [_MATHLIB_LAKE + "/build/lib/lean"] + sorted(glob.glob(_MATHLIB_LAKE + "/packages/*/.lake/build/lib/lean"))
            if os.path.isdir(d)]
    if not os.path.exists(exe) or not dirs or not os.path.exists(dirs[0] + "/Mathlib.olean"):
        return "unavailable", f"lean binary or compiled Mathlib not found ({exe}, {_MATHLIB_LAKE})", {}, ms()
    env = {k: v for k, v in os.environ.items() if not k.lower().endswith("_proxy")}
    env["LEAN_PATH"] = ":".join(dirs)
    try:
        p = subprocess.run([exe, path], capture_output=True, text=True, timeout=timeout_s, env=env, cwd=os.path.dirname(path))
    except (OSError, subprocess.TimeoutExpired) as e:
        return "unavailable", f"lean could not be run: {type(e).__name__}: {e}"[:300], {}, ms()
    out = p.stdout + "\n" + p.stderr
    src = open(path).read().splitlines()
    import_line = max([k + 1 for k, l in enumerate(src) if l.startswith("import ")] or [0])
    errors = [(int(m.group(1)), m.group(2)) for m in re.finditer(r"^[^\n:]*:(\d+):\d+: error[^:\n]*: ([^\n]*)", out, re.M)]
    if any(ln <= import_line for ln, _ in errors) or (p.returncode != 0 and not errors):
        # the imports did not load / lean crashed without a diagnostic about the file's own text
        return "unavailable", ("lean could not load its imports or crashed: " + (errors[0][1] if errors else out.strip()[:200]))[:300], {}, ms()
    # line range of every theorem: from its `theorem <name>` line to the line before the next top-level declaration
    starts = [(k + 1, re.match(r"(?:theorem|def|lemma)\s+(\S+)", l).group(1)) for k, l in enumerate(src) if re.match(r"(?:theorem|def|lemma)\s+\S+", l)]
    span = {n: (ln, (starts[i + 1][0] - 1 if i + 1 < len(starts) else len(src))) for i, (ln, n) in enumerate(starts)}
    axioms = {m.group(1): {x.strip() for x in m.group(2).split(",") if x.strip()}
              for m in re.finditer(r"'Pigeonhole\.(\w+)' depends on axioms: \[([^\]]*)\]", out)}
    axioms.update({m.group(1): set() for m in re.finditer(r"'Pigeonhole\.(\w+)' does not depend on any axioms", out)})
    per = {}
    for th in _LEAN_THEOREMS:
        lo, hi = span.get(th, (0, -1))
        errs = [msg for ln, msg in errors if lo <= ln <= hi]
        if th not in span:
            per[th] = (False, "theorem not found in the file")
        elif errs:
            per[th] = (False, "lean error: " + errs[0][:200])
        elif th not in axioms:
            per[th] = (False, "no `#print axioms` output for this theorem")
        elif axioms[th] - _STD_AXIOMS:
            per[th] = (False, "depends on non-standard axioms: " + ", ".join(sorted(axioms[th] - _STD_AXIOMS)))
        else:
            per[th] = (True, "")
    clean = p.returncode == 0 and not errors and "sorry" not in out
    if clean and all(ok for ok, _ in per.values()):
        return "accepted", "", per, ms()
    if all(ok for ok, _ in per.values()):  # an error outside the listed theorems, or a `sorry` somewhere: nothing is accepted
        why = errors[0][1] if errors else ("`sorry` in the output" if "sorry" in out else f"exit code {p.returncode}")
        per = {th: (False, "the file as a whole is not accepted: " + why[:200]) for th in per}
    return "rejected", "", per, ms()


def deductive_extra(tier, seed):
    """the Lean part of the optimality lemmas (lean/Pigeonhole.lean).  thorough: run Lean (offline) and cache an accepted
    result by the file's hash; quick: never run Lean - report the cached result of the identical file if there is one,
    otherwise no record at all (see EXPLANATION)."""
    import hashlib, json
    try:
        digest = hashlib.sha256(open(_LEAN_FILE, "rb").read()).hexdigest()
    except OSError as e:
        return [{"target": "lean:Pigeonhole", "module": "lean", "status": "not-established", "obligations": [], "kind": "lean",
                 "reason": f"checker error: {_LEAN_FILE} cannot be read ({e})"}]
    cache = os.path.join(_LEAN_CACHE, digest + ".json")

    def record(per, ms, backend):
        obls = [{"name": f"lean:Pigeonhole#{th}", "kind": "lemma", "result": "unsat" if ok else "sat", "backend": backend,
                 "ms": ms // max(1, len(per)), "model": None, "reason": why, "line": None} for th, (ok, why) in per.items()]
        return {"target": "lean:Pigeonhole", "module": "lean", "status": "proved" if all(ok for ok, _ in per.values()) else "failed",
                "obligations": obls, "kind": "lean", "reason": "", "source_hash": digest[:16]}

    if tier != "thorough":
        try:
            c = json.load(open(cache))
            if c.get("sha256") == digest and c.get("state") == "accepted" and sorted(c.get("theorems", [])) == sorted(_LEAN_THEOREMS):
                return [record({th: (True, "") for th in _LEAN_THEOREMS}, c.get("ms", 0),
                               _LEAN_BACKEND + f" (cached result of the thorough tier for file hash {digest[:16]})")]
        except (OSError, ValueError):
            pass
        return []
    state, detail, per, ms = _lean_check(_LEAN_FILE)
    if state == "unavailable":
        return [{"target": "lean:Pigeonhole", "module": "lean", "status": "not-established", "obligations": [], "kind": "lean",
                 "reason": "checker error, no verdict: " + detail}]
    if state == "accepted":
        try:
            os.makedirs(_LEAN_CACHE, exist_ok=True)
            with open(cache, "w") as f:
                json.dump({"sha256": digest, "state": "accepted", "theorems": _LEAN_THEOREMS, "ms": ms, "backend": _LEAN_BACKEND}, f, indent=1)
        except OSError:
            pass
    return [record(per, ms, _LEAN_BACKEND)]


def bounded(tier, seed):
    nmax = 7 if tier == "quick" else 9
    rng = rng_for(seed, "c02")
    out = [run_cases("optimal-all-pairings", pairings_upto(nmax), O.c02_check, knotted,
                     f"every pairing N<={nmax}: dot_bracket against brute-force optimum over all proper assignments",
                     f"N<={nmax}", sig=lambda p: "".join(map(str, p)), relates="convert_to_dot_bracket")]
    rnd = [random_structure(rng, rng.randint(14, 50), rng.randint(3, 7), maxlen=4) for _ in range(40 if tier == "quick" else 400)]
    out.append(run_cases("optimal-random", rnd, O.c02_check, knotted, "random knotted structures with <=7 stems vs brute force",
                         f"{len(rnd)} structures, <=7 stems", sig=repr, relates="convert_to_dot_bracket"))
    # knotted cores (every knotted pairing on <=6 positions) with random stem lengths, placed 3' of 0-4 unknotted hairpins:
    # the conflict graph then has gaps in its vertex numbering and unequal stem weights
    cores = [q for q in pairings_upto(6 if tier == "quick" else 7) if knotted(q)]
    comp = []
    for q in cores:
        for j in (0, 1, 2, 4):
            lens = [rng.randint(1, 4) for _ in range(4)]
            comp.append(concat(*([HAIRPIN] * j), stretch(q, lens)))
    out.append(run_cases("prefixed-weighted-knots", comp, O.c02_check, knotted,
                         "knotted cores with random stem lengths placed after 0/1/2/4 unknotted hairpins vs brute force",
                         f"{len(comp)} structures", sig=repr, relates="convert_to_dot_bracket"))
    # every perfect matching on 8 positions that is knotted (all conflict-graph shapes on 4 stems: paths, cycles, stars, cliques)
    # with extreme stem weights: a heavy stem wants level 0 whatever the graph-colouring bounds say
    from gen.pairings import all_pairings
    pats = [(5, 1, 1, 5), (1, 5, 5, 1), (5, 1, 5, 1), (1, 5, 1, 5), (5, 5, 1, 1), (1, 1, 5, 5)]
    if tier != "quick":
        import itertools
        pats = list(itertools.product((1, 5), repeat=4))
    shaped = [stretch(q, list(w)) for q in all_pairings(8) if all(q) and knotted(q) for w in pats]
    out.append(run_cases("weighted-four-stem-shapes", shaped, O.c02_check, knotted,
                         "every knotted perfect matching on 8 positions (all 4-stem conflict graphs) with stem lengths from {1,5} in extreme patterns vs brute force",
                         f"{len(shaped)} structures", sig=repr, relates="convert_to_dot_bracket"))
    # many levels: k mutually crossing stems need k levels whatever bound the code puts on them; lengths growing 5'->3' make
    # first-come-first-served (short stems on the low levels) clearly worse than the optimum (closed form for a clique)
    def clique(k, lens):
        base = tuple(list(range(k + 1, 2 * k + 1)) + list(range(1, k + 1)))
        return stretch(base, lens)
    deep = [clique(11, [1 + (i // 3) for i in range(11)]), clique(12, [1, 1, 1, 2, 2, 2, 3, 3, 3, 4, 4, 5]), clique(5, [1, 2, 3, 4, 5])]
    if tier != "quick":
        deep += [clique(k, [1 + (i // 4) for i in range(k)]) for k in (13, 15)]
    out.append(run_cases("many-level-cliques", deep, O.c02_check_clique, lambda c: True,
                         "k mutually crossing stems (k = 5, 11, 12; thorough: 13, 15) with lengths growing 5'->3': objective against the closed-form optimum of a clique",
                         f"{len(deep)} structures", sig=lambda c: f"clique-{len(stems_of(c))}", relates="convert_to_dot_bracket"))
    # structures DERIVED by the library (without_isolated / without_pseudoknots): their own optimal notation, asked after the
    # parent's notation has been computed - the notation is the optimum of the derived structure, not a remnant of the parent's
    der = [q for q in shaped[::7] + comp[::3] + rnd[:20] if any(len(st) == 1 for st in stems_of(q))]
    out.append(run_cases("derived-structures", der, derived_check, knotted,
                         "parent.dot_bracket first, then without_isolated().dot_bracket and without_pseudoknots().dot_bracket against the brute-force optimum of the derived structure",
                         f"{len(der)} structures with a one-pair stem", sig=repr, relates="convert_to_dot_bracket|without_isolated"))
    return out


def derived_check(p):
    seq = O.seq_of(p, None)
    b = O.make_bpseq(p, seq)
    b.dot_bracket
    errs = []
    for name in ("without_isolated", "without_pseudoknots"):
        d = getattr(b, name)()
        q = tuple(e.pair for e in d.entries)
        if len(stems_of(q)) <= 8:
            errs += [f"{name}(): {e}" for e in O.c02_check(q, "".join(e.sequence for e in d.entries), db=d.dot_bracket)]
    return errs


def replay(inp):
    if inp.get("check") == "derived-structures":
        errs = derived_check(tuple(inp["case"]))
        return {"fails": bool(errs), "errors": errs[:3]}
    if inp.get("check") == "many-level-cliques":
        errs = O.c02_check_clique(tuple(inp["case"]))
        return {"fails": bool(errs), "errors": errs[:3]}
    errs = O.c02_check(tuple(inp["case"]))
    return {"fails": bool(errs), "errors": errs[:3]}
