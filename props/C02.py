"""C02 Pseudoknot order assignment is a proper and optimal level assignment"""
from gen.pairings import HAIRPIN, concat, pairings_upto, random_structure, stems_of, stretch
from oracles import common_o as O
from props._util import rng_for, run_cases
from props.C01 import knotted

LEVEL = "other"
DEDUCTIVE = []
TRUSTED = ["z3 5.1.0", "pulp + CBC return an optimum of the model they are given (external binary)", "CPython 3.12"]
ASSUMPTIONS = ["T(solver): CBC/HiGHS optimality is outside the reach of contracts on this code base"]
EXPLANATION = "see DESIGN.md 4/C02"


def bounded(tier, seed):
    nmax = 7 if tier == "quick" else 9
    rng = rng_for(seed, "c02")
    out = [run_cases("optimal-all-pairings", pairings_upto(nmax), O.c02_check, knotted,
                     f"every pairing N<={nmax}: dot_bracket against brute-force optimum over all proper assignments",
                     f"N<={nmax}", sig=lambda p: "".join(map(str, p)), relates="convert_to_dot_bracket")]
    rnd = [random_structure(rng, rng.randint(14, 50), rng.randint(3, 7), maxlen=4) for _ in range(40 if tier == "quick" else 400)]
    out.append(run_cases("optimal-random", rnd, O.c02_check, knotted, "random knotted structures with <=7 stems vs brute force",
                         f"{len(rnd)} structures, <=7 stems", sig=repr, relates="convert_to_dot_bracket"))
    # knotted cores (every knotted pairing on <=6 positions) with random stem lengths, placed 3' of 0-4 unknotted hairpins:
    # the conflict graph then has gaps in its vertex numbering and unequal stem weights
    cores = [q for q in pairings_upto(6 if tier == "quick" else 7) if knotted(q)]
    comp = []
    for q in cores:
        for j in (0, 1, 2, 4):
            lens = [rng.randint(1, 4) for _ in range(4)]
            comp.append(concat(*([HAIRPIN] * j), stretch(q, lens)))
    out.append(run_cases("prefixed-weighted-knots", comp, O.c02_check, knotted,
                         "knotted cores with random stem lengths placed after 0/1/2/4 unknotted hairpins vs brute force",
                         f"{len(comp)} structures", sig=repr, relates="convert_to_dot_bracket"))
    # every perfect matching on 8 positions that is knotted (all conflict-graph shapes on 4 stems: paths, cycles, stars, cliques)
    # with extreme stem weights: a heavy stem wants level 0 whatever the graph-colouring bounds say
    from gen.pairings import all_pairings
    pats = [(5, 1, 1, 5), (1, 5, 5, 1), (5, 1, 5, 1), (1, 5, 1, 5), (5, 5, 1, 1), (1, 1, 5, 5)]
    if tier != "quick":
        import itertools
        pats = list(itertools.product((1, 5), repeat=4))
    shaped = [stretch(q, list(w)) for q in all_pairings(8) if all(q) and knotted(q) for w in pats]
    out.append(run_cases("weighted-four-stem-shapes", shaped, O.c02_check, knotted,
                         "every knotted perfect matching on 8 positions (all 4-stem conflict graphs) with stem lengths from {1,5} in extreme patterns vs brute force",
                         f"{len(shaped)} structures", sig=repr, relates="convert_to_dot_bracket"))
    return out


def replay(inp):
    errs = O.c02_check(tuple(inp["case"]))
    return {"fails": bool(errs), "errors": errs[:3]}
