"""C02 Pseudoknot order assignment is a proper and optimal level assignment"""
from gen.pairings import HAIRPIN, concat, pairings_upto, random_structure, stems_of, stretch
from oracles import common_o as O
from props._util import rng_for, run_cases
from props.C01 import knotted

LEVEL = "other"
DEDUCTIVE = [{"module": "rnapolis.common", "sidecar": "contracts.common_milp_c",
              "targets": ["BpSeq.convert_to_dot_bracket@model", "BpSeq.dot_bracket@model",
                          "lemma:esum_witness", "lemma:esum_nonneg", "lemma:esum_zero", "lemma:esum_atmost"]}]
TRUSTED = ["z3 5.1.0 / cvc5 1.0.3", "pyvc encoding of Python semantics (DESIGN 2.3)", "CPython 3.12",
           "the pulp model of contracts/common_milp_c.py (EXTERNALS; listed item by item in props/C13.py TRUSTED): solver objects, "
           "LpProblem / LpVariable construction, the free term algebra of affine expressions and constraints, LpProblem.__iadd__, "
           "LpProblem.variables(), itertools.combinations, collections.defaultdict, str.split",
           "T-solver (LpProblem.solve), feasibility part: status == LpStatusOptimal and all variables Integer => every value is an "
           "integer within its bounds and every constraint that was added holds",
           "pulp + CBC/HiGHS return an OPTIMUM of the model they are given (external binary) - not used by any proof here, see "
           "ASSUMPTIONS / EXPLANATION",
           "callee contracts proved under C01 (contracts/common_c.py): BpSeq.__regions, BpSeq.__make_dot_bracket, BpSeq.fcfs"]
ASSUMPTIONS = [
    "levels30(self), degree30(self) (see props/C13.py): the contract covers structures in which no stem crosses more than 29 others",
    "esum_definition, numeral_definition(_all), degree30_definition, times_definition (times(x, y) == x * y: the product in the "
    "objective coefficients is kept uninterpreted inside quantified invariants) (definitions); split3, int_str_roundtrip (assumed facts about "
    "str.split / int() / str()); len.set (set cardinality as an uninterpreted non-negative function): as in props/C13.py",
    "NOT PROVED (mathematical step, stated here as an explicit assumption of the property's optimality clause): "
    "L-enc: every proper assignment O' with levels < max_order is a feasible 0/1 point of the model whose objective value is "
    "sum_a (len_a if O'[a] == 0 else -O'[a] * len_a), and the read-back of a feasible point has that objective value "
    "(a double-sum rearrangement over the term list, the term list being characterised by obligation model-4-objective)",
    "NOT PROVED: L-bound: levels >= max degree + 1 never help (an optimal proper assignment over all levels uses only levels "
    "<= its vertex degree), so that 'maximal among proper assignments with levels < max_order' is 'maximal among all proper "
    "assignments'",
    "NOT PROVED: T-solver, optimality part (the reported valuation maximises the objective among feasible valuations)",
]
EXPLANATION = (
    "Under contract: BpSeq.convert_to_dot_bracket@model and BpSeq.dot_bracket@model (second contracts on the functions of C13; "
    "all C13 clauses are re-proved with them). PROVED: 'the model the code hands to the solver IS the model of the property', as "
    "named obligations of convert_to_dot_bracket@model - model-1-conflict-graph: j in graph[i] iff stems i, j cross (symmetric, "
    "irreflexive), from the invariant of the combinations loop; model-2-level-bound: max_order == (max over vertices of the number "
    "of crossing stems) + 1; model-3-variables: exactly one variable per cell (region, level < max_order), bounds 0..1, Integer, "
    "named so that the read-back parses (region, level) back (ghost row/column maps, allocation frame of the creating loops); "
    "model-4-objective: the objective is the sum of exactly one monomial per cell with coefficient +len on level 0 and "
    "-level*len above (ghost position map, both directions); model-5-constraints: constraints 0..n-1 are sum_o x_a_o == 1 for the "
    "regions, every later constraint is x_a_o + x_b_o <= 1 for an edge (a, b) and a level o, and every edge has one on every "
    "level - nothing else; model-6-read-back: with T-solver, x_a_o == 1 iff o == orders[a] (lemmas esum_witness / esum_atmost on "
    "0/1 sums, proved by induction). ENSURES: on the MILP exit and on the empty-graph exit the result is the painting of the "
    "stems R with a level assignment O that is PROPER (crossing stems never share a level, levels < 30) - ghost results R, O, G; "
    "the MILP is set up only when two stems cross and otherwise every stem is on level 0 (pseudoknot-free => only round "
    "brackets). NOT DECIDED deductively: that the assignment MAXIMISES the objective (needs the solver's optimality, L-enc and "
    "L-bound: listed as unproved assumptions) and the corollaries 'no stem could be moved lower' / 'never worse than FCFS' - "
    "these stay with the bounded oracles (brute-force optimum on all pairings N <= 7/9 and random knotted structures)."
)


def bounded(tier, seed):
    nmax = 7 if tier == "quick" else 9
    rng = rng_for(seed, "c02")
    out = [run_cases("optimal-all-pairings", pairings_upto(nmax), O.c02_check, knotted,
                     f"every pairing N<={nmax}: dot_bracket against brute-force optimum over all proper assignments",
                     f"N<={nmax}", sig=lambda p: "".join(map(str, p)), relates="convert_to_dot_bracket")]
    rnd = [random_structure(rng, rng.randint(14, 50), rng.randint(3, 7), maxlen=4) for _ in range(40 if tier == "quick" else 400)]
    out.append(run_cases("optimal-random", rnd, O.c02_check, knotted, "random knotted structures with <=7 stems vs brute force",
                         f"{len(rnd)} structures, <=7 stems", sig=repr, relates="convert_to_dot_bracket"))
    # knotted cores (every knotted pairing on <=6 positions) with random stem lengths, placed 3' of 0-4 unknotted hairpins:
    # the conflict graph then has gaps in its vertex numbering and unequal stem weights
    cores = [q for q in pairings_upto(6 if tier == "quick" else 7) if knotted(q)]
    comp = []
    for q in cores:
        for j in (0, 1, 2, 4):
            lens = [rng.randint(1, 4) for _ in range(4)]
            comp.append(concat(*([HAIRPIN] * j), stretch(q, lens)))
    out.append(run_cases("prefixed-weighted-knots", comp, O.c02_check, knotted,
                         "knotted cores with random stem lengths placed after 0/1/2/4 unknotted hairpins vs brute force",
                         f"{len(comp)} structures", sig=repr, relates="convert_to_dot_bracket"))
    # every perfect matching on 8 positions that is knotted (all conflict-graph shapes on 4 stems: paths, cycles, stars, cliques)
    # with extreme stem weights: a heavy stem wants level 0 whatever the graph-colouring bounds say
    from gen.pairings import all_pairings
    pats = [(5, 1, 1, 5), (1, 5, 5, 1), (5, 1, 5, 1), (1, 5, 1, 5), (5, 5, 1, 1), (1, 1, 5, 5)]
    if tier != "quick":
        import itertools
        pats = list(itertools.product((1, 5), repeat=4))
    shaped = [stretch(q, list(w)) for q in all_pairings(8) if all(q) and knotted(q) for w in pats]
    out.append(run_cases("weighted-four-stem-shapes", shaped, O.c02_check, knotted,
                         "every knotted perfect matching on 8 positions (all 4-stem conflict graphs) with stem lengths from {1,5} in extreme patterns vs brute force",
                         f"{len(shaped)} structures", sig=repr, relates="convert_to_dot_bracket"))
    # many levels: k mutually crossing stems need k levels whatever bound the code puts on them; lengths growing 5'->3' make
    # first-come-first-served (short stems on the low levels) clearly worse than the optimum (closed form for a clique)
    def clique(k, lens):
        base = tuple(list(range(k + 1, 2 * k + 1)) + list(range(1, k + 1)))
        return stretch(base, lens)
    deep = [clique(11, [1 + (i // 3) for i in range(11)]), clique(12, [1, 1, 1, 2, 2, 2, 3, 3, 3, 4, 4, 5]), clique(5, [1, 2, 3, 4, 5])]
    if tier != "quick":
        deep += [clique(k, [1 + (i // 4) for i in range(k)]) for k in (13, 15)]
    out.append(run_cases("many-level-cliques", deep, O.c02_check_clique, lambda c: True,
                         "k mutually crossing stems (k = 5, 11, 12; thorough: 13, 15) with lengths growing 5'->3': objective against the closed-form optimum of a clique",
                         f"{len(deep)} structures", sig=lambda c: f"clique-{len(stems_of(c))}", relates="convert_to_dot_bracket"))
    return out


def replay(inp):
    if inp.get("check") == "many-level-cliques":
        errs = O.c02_check_clique(tuple(inp["case"]))
        return {"fails": bool(errs), "errors": errs[:3]}
    errs = O.c02_check(tuple(inp["case"]))
    return {"fails": bool(errs), "errors": errs[:3]}
