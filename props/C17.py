"""C17 Clash detection equals the pairwise van-der-Waals definition"""
import contextlib
import csv
import io
import itertools
import os
import re
import sys
import tempfile

from gen import emit, structures as G
from oracles import geom_o as GO
from props._util import make_replay, rng_for

LEVEL = "other"
DEDUCTIVE = [{"module": "rnapolis.clashfinder", "sidecar": "contracts.clashfinder_c", "targets": ["find_clashes"]},
             # the tool: main() on the real source, using find_clashes' contract at the call site (stage order: short z3 attempt,
             # cvc5, then the usual z3 stages - the nested-table obligations are answered by cvc5 within seconds)
             {"module": "rnapolis.clashfinder", "sidecar": "contracts.clashfinder_main_c", "targets": ["main"],
              "opts": {"z3_probe_ms": 1500, "cvc5_probe_s": 20}}]
TRUSTED = [
    "CPython 3.12",
    "scipy.spatial.KDTree(points).query_pairs(r): returns exactly the set {(i, j): 0 <= i < j < n, dist(p_i, p_j) <= r} over the "
    "points in the order given (contracts/clashfinder_c.py _kdtree/_query_pairs); iterated as an arbitrary duplicate-free enumeration",
    "numpy: `p - q` on 3-vectors is componentwise real subtraction; numpy.linalg.norm(p - q) is the Euclidean distance dist3(p, q), "
    "the same (uninterpreted) function the KD tree uses",
    "math.isclose(a, b) per its documentation with default tolerances: abs(a-b) <= 1e-9 * max(abs(a), abs(b)) (finite reals)",
    "str.strip(): a pure function of the string (uninterpreted py_strip; no further property used)",
    "Enum: iterating AtomType yields its members in definition order; AtomType[name] raises KeyError unless name is a member name; "
    "member attributes (.value, .radius) are read from the real imported module",
    "bounded part only: numpy, csv module (tool-report check)",
    # --- main() (contracts/clashfinder_main_c.py EXTERNALS) ---
    "argparse: ArgumentParser() / add_argument(name, help=..[, action='store_true']) register destinations (positional string, "
    "store_true flag = bool, other option = string or None); parse_args() exits with SystemExit or returns a namespace whose attributes "
    "are the constants cli_<dest>() (functions of sys.argv, fixed during the call)",
    "open(path[, 'w']) returns a text file object or raises OSError; `with` on it returns the object and swallows nothing",
    "rnapolis.parser.read_3d_structure(f, 1): a Structure3D whose .residues is parsed(f.name), a function of the path (in_nres / in_res "
    "uninterpreted); may raise ValueError; main's preconditions are stated about parsed(cli_input())",
    "print(s): writes the line s (recorded as ghost last_printed, appended to the ghost list OUT by the ghost command at the statement); "
    "f\"{x}\" of a Residue3D == res_str(x) (Residue3D.__repr__, pure function of the frozen object), of a float == float_str(x) "
    "(both uninterpreted) [engine: ev_JoinedStr hands objects to the sidecar's Cls.__str__ and floats to builtins.format(x, '')]",
    "sorted(dict): a permutation of the dict's insertion-ordered keys; sorted(set): a duplicate-free enumeration of exactly the members, "
    "may raise TypeError (Atom.__lt__ over Optional fields); the ordering itself is NOT assumed (any order is covered)",
    "read_metadata(path, cats) / metadata[cat][i][item]: opaque (meta_value uninterpreted; OSError / KeyError / IndexError possible); "
    "os.path.basename / splitext: uninterpreted path_basename / path_root / path_ext; csv.writer(f).writerow(row): writes the row "
    "(recorded as ghost last_row, appended to ghost ROWS by the ghost command at the statement)",
    "callee contract used at the call site: find_clashes (proved above; its ghost lists GA/GP/KI/KJ are ghost results)",
]
ASSUMPTIONS = [
    "A-real: floats are reals, decimal literals denote their exact decimal value; (bounded part: distances within 1e-6 of the radius sum are undecided)",
    "structure model: a residue is read only through .atoms (iterated in order) and .is_nucleotide, an atom only through .name, "
    ".coordinates, .occupancy; the cached properties Residue3D.is_nucleotide and Atom.coordinates are deterministic and without "
    "effect on these attributes (they are opaque fields of the heap model)",
    "Residue3D.__eq__ (dataclass-generated, field-wise) is modelled as an uninterpreted relation res_eq; precondition requires[0]: it is "
    "reflexive and two different positions of `residues` never hold equal residues (then `ri == rj` means 'same residue of the list')",
    "precondition requires[1] (derived from AtomType[ai.name[0]]): for every selected atom, name and name.strip() start with the same "
    "character, i.e. stored atom names carry no leading blank (both parsers strip names); without it find_clashes raises KeyError or "
    "takes the wrong radius",
    "pinned table: radii C 0.6, N 0.54, O 0.53, P 0.94 and MolProbity margin 0.5 (contracts/clashfinder_c.RADII, same as oracles/geom_o.RADII)",
    "spec vocabulary (not assumptions about the code): push/put/empty_* build ghost lists and maps as values",
    # --- main() ---
    "main precondition distinct_residues / stripped_names: find_clashes' two preconditions for the residues of the input file "
    "(parsed(cli_input())) - obligations call[..]->find_clashes.requires.0/1 at the call site",
    "main precondition distinct_atoms: Atom.__eq__ (dataclass, field-wise; uninterpreted atom_eq) holds for two atoms of the file only "
    "at the same position, i.e. the file has no duplicated atom record. With distinct_residues this makes `==` on the residues / atoms of "
    "the clash list object identity (obligation ghost.assert[clash-list] keys_by_identity), which is how the engine indexes dict keys and "
    "set members that are object references; with a duplicated atom record the set in clashing_chains would merge two clashes",
    "main precondition: with --ignore-occupancy every atom occupancy is None or >= 0 (then every occupancy sum is > 0; the tool's running "
    "maximum starts from 0.0, so a pair whose sums are all negative would be reported with 0.0 - out of the PDB/mmCIF domain)",
    "Residue3D.chain is modelled as a str field (every residue the parsers build has an auth or a label, so chain is never None; a None chain "
    "would make sorted() of the chain pairs raise TypeError)",
    "engine opt-ins of contracts/clashfinder_main_c.py: DICT_ORDER_INVARIANT (representation invariant of insertion-ordered dict variables "
    "at loop heads), NESTED_DICT_ORDER (a dict stored as a value of a dict keeps an insertion-ordered key list), PACK_KEYS (composite keys "
    "packed into one array index by an injective function)",
    "pinned report format: the three line formats of the tool ('Clashes found in chain ..', '    Clashes found in residue ..', "
    "'        Clashes found between atoms ..' and their two-key variants), same texts the bounded tool-report check parses",
]
EXPLANATION = (
    "Under contract (deductive, pyvc on the real source): clashfinder.find_clashes, all five options as free symbolic booleans (the 32 "
    "combinations in one proof), any number of residues/atoms. Ghost lists GA/GP enumerate the selected positions (residue index, atom "
    "index) and KI/KJ name the two enumeration indices of each result entry. Top-level clauses: enumeration.selected / .ordered / "
    ".complete = (GA, GP) is the strictly increasing enumeration of exactly the atoms whose stripped name starts with C/N/O/P in "
    "residues passing the nucleic-acid-only option; listed-pairs-satisfy-definition = every result entry is ((residue, atom) of t, "
    "(residue, atom) of u, occ'_t + occ'_u) by object identity for some t < u with dist <= r(type_t) + r(type_u) + (0.5 in MolProbity "
    "mode else 0), not (ignore_autoclashes and same residue), not (require_same_atom_name and names differ), ignore_occupancy or "
    "isclose(occ'_t + occ'_u, 1.0), occ' = occupancy or 1.0; each-pair-once = no two entries come from the same (t, u); "
    "every-clash-listed = every t < u satisfying that definition has an entry. Supporting obligations: loop2.inv4[kd-radius-sufficient] "
    "(no clash is lost by the KD-tree pre-filter: r_t + r_u + m <= query radius, linear arithmetic over the radii read from the real "
    "module), ghost.assert[radii-are-the-table] (AtomType[name[0]].radius of the code == pinned table), safe.no_KeyError / "
    "no_IndexError (name[0] lookups, flat-list indexing), loop0/loop1 invariants (flat lists reference_residues / reference_atoms / "
    "coordinates == the selected atoms in structure order, none skipped). "
    "Also under contract: clashfinder.main, the WHOLE body (argparse -> open -> read_3d_structure -> find_clashes -> aggregation loop -> "
    "report loops -> CSV loops), I/O through the small assumed externals listed in TRUSTED, find_clashes through its proved contract. "
    "Maxima are stated existence-free: ghost maps MR (residue pair -> clash index) and MC (chain pair -> clash index) name the clash "
    "attaining the maximum, LC names for every printed line a clash it is about, WC / WP / WA name a clash for every chain pair / listed "
    "residue pair / stored atom triple of the nested table. Top-level clauses of main: "
    "clash-list-is-find_clashes-of-the-input-file-under-the-command-line-options + every-clash-under-..-is-in-the-list + "
    "atoms-considered-follow-nucleic-acid-only = the list the report is built from is find_clashes' result for the residues of the file "
    "named on the command line with each --flag bound to ITS parameter (which clashes --ignore-autoclashes / --require-same-atom-name / "
    "--ignore-occupancy drop, the 0.5 A of --enable-molprobity-mode, occupancy sum = occ'_t + occ'_u: the definition `clash`); "
    "residue-pair-entry-is-a-clash-of-the-pair = every entry of max_occupancy_residues is the occupancy sum of clash MR[pair], a clash of "
    "exactly this residue pair; residue-pair-entry-is-the-maximum = every residue pair with a clash has an entry and no clash of the pair "
    "has a larger sum; chain-pair-entry-* = the same for max_occupancy_chains and chain pairs (the clause that fails for c9ec109's defect "
    "and for an update on first sight only); every-printed-line-reports-a-clash-or-the-maximum-of-its-pair = every printed line is, for "
    "some clash k (LC), either the chain line of k's chain pair with the sum of clash MC[pair], or the residue line of k's residue pair "
    "with the sum of clash MR[pair], or the atom line of clash k with its own sum - nothing else is printed; every-csv-row-is-a-listed-clash "
    "= every CSV data row carries the file stem, 'residue atom' of both atoms and the occupancy sum of one listed clash. Supporting: "
    "loop0 invariants (the four table clauses + chain / residue / atom entries of clashing_chains all come from clashes), "
    "ghost.assert[chain-pair-of-the-line / residue-pair-of-the-line / clash-of-the-line] (the key of each line has a clash and an entry in "
    "the table of maxima), safe.no_KeyError (every table lookup of the report), call[..]->find_clashes.requires (data flow of the file). "
    "NOT proved deductively (bounded tool-report check only): that every chain pair / residue pair / clash gets exactly ONE line and ONE "
    "CSV row (no key skipped or repeated by the report loops; needs the dom<->order bijection of the inner dicts and the sorted() "
    "permutation carried through three nested loops), the order of the lines, the CSV header and the metadata / classification columns."
)
OPTS = list(itertools.product([False, True], repeat=5))  # ignore_occ, ignore_auto, na_only, same_name, molprobity


def squeeze(structure, rng):
    """jitter + pull some atoms onto neighbours + partial occupancies, to create clashes of every kind"""
    from rnapolis.tertiary import Atom, Residue3D, Structure3D
    res = []
    prev = None
    lastpos = {}
    for r in structure.residues:
        atoms = []
        for a in r.atoms:
            x, y, z, occ = a.x, a.y, a.z, a.occupancy
            u = rng.random()
            if prev is not None and u < 0.06:
                x, y, z = prev.x + rng.uniform(-.6, .6), prev.y + rng.uniform(-.6, .6), prev.z + rng.uniform(-.6, .6)
            elif u < 0.12 and a.name in lastpos:
                # same-named atom of an earlier residue at a distance spread over the whole decision band [0, 2.6] A
                d = rng.uniform(0.0, 2.6)
                v = [rng.gauss(0, 1) for _ in range(3)]
                nv = sum(t * t for t in v) ** .5 or 1.0
                px, py, pz = lastpos[a.name]
                x, y, z = px + d * v[0] / nv, py + d * v[1] / nv, pz + d * v[2] / nv
            if rng.random() < 0.3:
                occ = rng.choice([0.5, 0.5, 0.3, 0.7, 1.0])
            na = Atom(a.entity_id, a.label, a.auth, a.model, a.name, x, y, z, occ)
            atoms.append(na)
            lastpos[a.name] = (x, y, z)
            prev = na
        res.append(Residue3D(r.label, r.auth, r.model, r.one_letter_name, tuple(atoms)))
    return Structure3D(res)


def check_main(structure, flags, rng):
    """run the tool's main() on an emitted PDB file; printed maxima and the CSV must agree with find_clashes"""
    from rnapolis import clashfinder
    from rnapolis.parser import read_3d_structure
    errs = []
    text = emit.to_pdb(emit.from_structure(structure))
    with tempfile.TemporaryDirectory() as d:
        path = os.path.join(d, "in.pdb")
        open(path, "w").write(text)
        csvp = os.path.join(d, "out.csv")
        argv = ["clashfinder", path] + flags + ["--csv", csvp]
        buf = io.StringIO()
        saved = sys.argv
        real_meta = clashfinder.read_metadata
        clashfinder.read_metadata = lambda *_a, **_k: {"exptl": [{"method": "X"}], "refine": [{"ls_d_res_high": "1.0"}]}
        try:
            sys.argv = argv
            with contextlib.redirect_stdout(buf):
                clashfinder.main()
        finally:
            sys.argv = saved
            clashfinder.read_metadata = real_meta
        with open(path) as f:
            s3 = read_3d_structure(f, 1)
        opts = ["--ignore-occupancy" in flags, "--ignore-autoclashes" in flags, "--nucleic-acid-only" in flags,
                "--require-same-atom-name" in flags, "--enable-molprobity-mode" in flags]
        clashes = clashfinder.find_clashes(s3.residues, *opts)
        by_res, by_chain = {}, {}
        for (ri, ai), (rj, aj), occ in clashes:
            by_res[(str(ri), str(rj))] = max(by_res.get((str(ri), str(rj)), 0.0), occ)
            by_chain[(ri.chain, rj.chain)] = max(by_chain.get((ri.chain, rj.chain), 0.0), occ)
        out = buf.getvalue()
        for m in re.finditer(r"^Clashes found in chain (\S*) with maximum occupancy sum equal to (\S+)$", out, re.M):
            want = by_chain.get((m.group(1), m.group(1)))
            if want is None or abs(float(m.group(2)) - want) > 1e-9:
                errs.append(f"printed chain maximum {m.group(2)} for chain {m.group(1)!r} != maximum over listed clashes {want}")
        for m in re.finditer(r"^Clashes found between chains (\S*) and (\S*) with maximum occupancy sum equal to (\S+)$", out, re.M):
            want = by_chain.get((m.group(1), m.group(2)))
            if want is None or abs(float(m.group(3)) - want) > 1e-9:
                errs.append(f"printed chain-pair maximum {m.group(3)} != {want}")
        n_res_lines = 0
        for m in re.finditer(r"^    Clashes found (?:in residue (\S+)|between residues (\S+) and (\S+)) with maximum occupancy sum equal to (\S+)$", out, re.M):
            n_res_lines += 1
            a, b = (m.group(1), m.group(1)) if m.group(1) else (m.group(2), m.group(3))
            want = by_res.get((a, b))
            if want is None or abs(float(m.group(4)) - want) > 1e-9:
                errs.append(f"printed residue maximum {m.group(4)} for {a},{b} != {want}")
        if n_res_lines != len(by_res):
            errs.append(f"{n_res_lines} residue lines printed for {len(by_res)} clashing residue pairs")
        n_atom_lines = len(re.findall(r"^        Clashes found between atoms", out, re.M))
        if n_atom_lines != len(clashes):
            errs.append(f"{n_atom_lines} atom clash lines printed, {len(clashes)} clashes found")
        if clashes:
            rows = list(csv.reader(open(csvp)))[1:]
            got = sorted((r[3], r[4], float(r[5])) for r in rows)
            want = sorted((f"{ri} {ai.name}", f"{rj} {aj.name}", occ) for (ri, ai), (rj, aj), occ in clashes)
            if got != want:
                errs.append(f"CSV lists {len(got)} clashes, differing from the {len(want)} found")
    return errs, len(clashes)


def bounded(tier, seed):
    from rnapolis.clashfinder import find_clashes
    rng = rng_for(seed, "c17")
    ev, nt, viol, samples = 0, 0, [], []
    structs = []
    for path in G.corpus(tier)[: (8 if tier == "quick" else 30)]:
        s = G.load(path)
        if len(s.residues) > 150 and tier == "quick":
            continue
        structs.append((os.path.basename(path), s))
        structs.append((os.path.basename(path) + "|squeezed", squeeze(s, rng)))
        # residues that differ in the insertion code only (N, N^A ...) and clash with each other
        structs.append((os.path.basename(path) + "|icode-twins|squeezed", squeeze(G.icode_twins(s, rng), rng)))
    for tag, s in structs:
        for opts in OPTS:
            ev += 1
            try:
                res = find_clashes(s.residues, *opts)
                errs = GO.c17_check(s.residues, opts, res)
            except Exception as e:
                errs, res = [f"raised {type(e).__name__}: {e}"], []
            nt += len(res) > 0
            if errs and len(viol) < 4:
                viol.append({"what": f"{tag} {opts}: {errs[0]}"[:300], "signature": f"clashes:{tag}:{opts}", "relates": "find_clashes",
                             "input": {"check": "clash-list", "case": [tag, list(opts)], "seed": seed, "tier": tier}})
    out = [{"name": "clash-list", "evaluations": ev, "distinct_nontrivial": nt, "violations": viol,
            "samples": [{"structure": structs[0][0], "options": list(OPTS[3])}],
            "rule": "corpus structures and squeezed copies (atoms pulled onto neighbours, partial occupancies) x all 32 option combinations vs O(n^2) enumeration; non-trivial = non-empty clash list",
            "bound": f"{len(structs)} structures x 32 options"}]
    # tool level: maxima and CSV
    ev2, nt2, viol2 = 0, 0, []
    flagsets = [[], ["--ignore-occupancy"], ["--ignore-occupancy", "--enable-molprobity-mode"], ["--ignore-autoclashes", "--ignore-occupancy"]]
    for tag, s in [t for t in structs if t[0].endswith("squeezed")][: (4 if tier == "quick" else 20)]:
        for flags in flagsets:
            ev2 += 1
            try:
                errs, n = check_main(s, flags, rng)
            except Exception as e:
                errs, n = [f"raised {type(e).__name__}: {e}"], 0
            nt2 += n > 1
            if errs and len(viol2) < 3:
                viol2.append({"what": f"{tag} {flags}: {errs[0]}"[:300], "signature": f"tool:{tag}:{flags}", "relates": "main",
                              "input": {"check": "tool-report", "case": [tag, flags], "seed": seed, "tier": tier}})
    out.append({"name": "tool-report", "evaluations": ev2, "distinct_nontrivial": nt2, "violations": viol2, "samples": [{"flags": flagsets[1]}],
                "rule": "clashfinder.main() on emitted PDB files of squeezed structures: printed per-chain / per-residue maxima and CSV rows vs the clash list; non-trivial = >1 clash",
                "bound": f"{ev2} tool runs"})
    return out


replay = make_replay(bounded)
