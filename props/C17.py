"""C17 Clash detection equals the pairwise van-der-Waals definition"""
import contextlib
import csv
import io
import itertools
import os
import re
import sys
import tempfile

from gen import emit, structures as G
from oracles import geom_o as GO
from props._util import make_replay, rng_for

LEVEL = "other"
DEDUCTIVE = [{"module": "rnapolis.clashfinder", "sidecar": "contracts.clashfinder_c", "targets": ["find_clashes"]}]
TRUSTED = [
    "CPython 3.12",
    "scipy.spatial.KDTree(points).query_pairs(r): returns exactly the set {(i, j): 0 <= i < j < n, dist(p_i, p_j) <= r} over the "
    "points in the order given (contracts/clashfinder_c.py _kdtree/_query_pairs); iterated as an arbitrary duplicate-free enumeration",
    "numpy: `p - q` on 3-vectors is componentwise real subtraction; numpy.linalg.norm(p - q) is the Euclidean distance dist3(p, q), "
    "the same (uninterpreted) function the KD tree uses",
    "math.isclose(a, b) per its documentation with default tolerances: abs(a-b) <= 1e-9 * max(abs(a), abs(b)) (finite reals)",
    "str.strip(): a pure function of the string (uninterpreted py_strip; no further property used)",
    "Enum: iterating AtomType yields its members in definition order; AtomType[name] raises KeyError unless name is a member name; "
    "member attributes (.value, .radius) are read from the real imported module",
    "bounded part only: numpy, csv module (tool-report check)",
]
ASSUMPTIONS = [
    "A-real: floats are reals, decimal literals denote their exact decimal value; (bounded part: distances within 1e-6 of the radius sum are undecided)",
    "structure model: a residue is read only through .atoms (iterated in order) and .is_nucleotide, an atom only through .name, "
    ".coordinates, .occupancy; the cached properties Residue3D.is_nucleotide and Atom.coordinates are deterministic and without "
    "effect on these attributes (they are opaque fields of the heap model)",
    "Residue3D.__eq__ (dataclass-generated, field-wise) is modelled as an uninterpreted relation res_eq; precondition requires[0]: it is "
    "reflexive and two different positions of `residues` never hold equal residues (then `ri == rj` means 'same residue of the list')",
    "precondition requires[1] (derived from AtomType[ai.name[0]]): for every selected atom, name and name.strip() start with the same "
    "character, i.e. stored atom names carry no leading blank (both parsers strip names); without it find_clashes raises KeyError or "
    "takes the wrong radius",
    "pinned table: radii C 0.6, N 0.54, O 0.53, P 0.94 and MolProbity margin 0.5 (contracts/clashfinder_c.RADII, same as oracles/geom_o.RADII)",
    "spec vocabulary (not assumptions about the code): push/put/empty_* build ghost lists and maps as values",
]
EXPLANATION = (
    "Under contract (deductive, pyvc on the real source): clashfinder.find_clashes, all five options as free symbolic booleans (the 32 "
    "combinations in one proof), any number of residues/atoms. Ghost lists GA/GP enumerate the selected positions (residue index, atom "
    "index) and KI/KJ name the two enumeration indices of each result entry. Top-level clauses: enumeration.selected / .ordered / "
    ".complete = (GA, GP) is the strictly increasing enumeration of exactly the atoms whose stripped name starts with C/N/O/P in "
    "residues passing the nucleic-acid-only option; listed-pairs-satisfy-definition = every result entry is ((residue, atom) of t, "
    "(residue, atom) of u, occ'_t + occ'_u) by object identity for some t < u with dist <= r(type_t) + r(type_u) + (0.5 in MolProbity "
    "mode else 0), not (ignore_autoclashes and same residue), not (require_same_atom_name and names differ), ignore_occupancy or "
    "isclose(occ'_t + occ'_u, 1.0), occ' = occupancy or 1.0; each-pair-once = no two entries come from the same (t, u); "
    "every-clash-listed = every t < u satisfying that definition has an entry. Supporting obligations: loop2.inv4[kd-radius-sufficient] "
    "(no clash is lost by the KD-tree pre-filter: r_t + r_u + m <= query radius, linear arithmetic over the radii read from the real "
    "module), ghost.assert[radii-are-the-table] (AtomType[name[0]].radius of the code == pinned table), safe.no_KeyError / "
    "no_IndexError (name[0] lookups, flat-list indexing), loop0/loop1 invariants (flat lists reference_residues / reference_atoms / "
    "coordinates == the selected atoms in structure order, none skipped). "
    "Stays bounded: main() (argparse, file reading, printing of per-residue / per-chain maxima, CSV) - the aggregation loop is inline "
    "in main() between I/O calls and is not reachable without hand-modelling that I/O; checked by the bounded tool-report run only."
)
OPTS = list(itertools.product([False, True], repeat=5))  # ignore_occ, ignore_auto, na_only, same_name, molprobity


def squeeze(structure, rng):
    """jitter + pull some atoms onto neighbours + partial occupancies, to create clashes of every kind"""
    from rnapolis.tertiary import Atom, Residue3D, Structure3D
    res = []
    prev = None
    lastpos = {}
    for r in structure.residues:
        atoms = []
        for a in r.atoms:
            x, y, z, occ = a.x, a.y, a.z, a.occupancy
            u = rng.random()
            if prev is not None and u < 0.06:
                x, y, z = prev.x + rng.uniform(-.6, .6), prev.y + rng.uniform(-.6, .6), prev.z + rng.uniform(-.6, .6)
            elif u < 0.12 and a.name in lastpos:
                # same-named atom of an earlier residue at a distance spread over the whole decision band [0, 2.6] A
                d = rng.uniform(0.0, 2.6)
                v = [rng.gauss(0, 1) for _ in range(3)]
                nv = sum(t * t for t in v) ** .5 or 1.0
                px, py, pz = lastpos[a.name]
                x, y, z = px + d * v[0] / nv, py + d * v[1] / nv, pz + d * v[2] / nv
            if rng.random() < 0.3:
                occ = rng.choice([0.5, 0.5, 0.3, 0.7, 1.0])
            na = Atom(a.entity_id, a.label, a.auth, a.model, a.name, x, y, z, occ)
            atoms.append(na)
            lastpos[a.name] = (x, y, z)
            prev = na
        res.append(Residue3D(r.label, r.auth, r.model, r.one_letter_name, tuple(atoms)))
    return Structure3D(res)


def check_main(structure, flags, rng):
    """run the tool's main() on an emitted PDB file; printed maxima and the CSV must agree with find_clashes"""
    from rnapolis import clashfinder
    from rnapolis.parser import read_3d_structure
    errs = []
    text = emit.to_pdb(emit.from_structure(structure))
    with tempfile.TemporaryDirectory() as d:
        path = os.path.join(d, "in.pdb")
        open(path, "w").write(text)
        csvp = os.path.join(d, "out.csv")
        argv = ["clashfinder", path] + flags + ["--csv", csvp]
        buf = io.StringIO()
        saved = sys.argv
        real_meta = clashfinder.read_metadata
        clashfinder.read_metadata = lambda *_a, **_k: {"exptl": [{"method": "X"}], "refine": [{"ls_d_res_high": "1.0"}]}
        try:
            sys.argv = argv
            with contextlib.redirect_stdout(buf):
                clashfinder.main()
        finally:
            sys.argv = saved
            clashfinder.read_metadata = real_meta
        with open(path) as f:
            s3 = read_3d_structure(f, 1)
        opts = ["--ignore-occupancy" in flags, "--ignore-autoclashes" in flags, "--nucleic-acid-only" in flags,
                "--require-same-atom-name" in flags, "--enable-molprobity-mode" in flags]
        clashes = clashfinder.find_clashes(s3.residues, *opts)
        by_res, by_chain = {}, {}
        for (ri, ai), (rj, aj), occ in clashes:
            by_res[(str(ri), str(rj))] = max(by_res.get((str(ri), str(rj)), 0.0), occ)
            by_chain[(ri.chain, rj.chain)] = max(by_chain.get((ri.chain, rj.chain), 0.0), occ)
        out = buf.getvalue()
        for m in re.finditer(r"^Clashes found in chain (\S*) with maximum occupancy sum equal to (\S+)$", out, re.M):
            want = by_chain.get((m.group(1), m.group(1)))
            if want is None or abs(float(m.group(2)) - want) > 1e-9:
                errs.append(f"printed chain maximum {m.group(2)} for chain {m.group(1)!r} != maximum over listed clashes {want}")
        for m in re.finditer(r"^Clashes found between chains (\S*) and (\S*) with maximum occupancy sum equal to (\S+)$", out, re.M):
            want = by_chain.get((m.group(1), m.group(2)))
            if want is None or abs(float(m.group(3)) - want) > 1e-9:
                errs.append(f"printed chain-pair maximum {m.group(3)} != {want}")
        n_res_lines = 0
        for m in re.finditer(r"^    Clashes found (?:in residue (\S+)|between residues (\S+) and (\S+)) with maximum occupancy sum equal to (\S+)$", out, re.M):
            n_res_lines += 1
            a, b = (m.group(1), m.group(1)) if m.group(1) else (m.group(2), m.group(3))
            want = by_res.get((a, b))
            if want is None or abs(float(m.group(4)) - want) > 1e-9:
                errs.append(f"printed residue maximum {m.group(4)} for {a},{b} != {want}")
        if n_res_lines != len(by_res):
            errs.append(f"{n_res_lines} residue lines printed for {len(by_res)} clashing residue pairs")
        n_atom_lines = len(re.findall(r"^        Clashes found between atoms", out, re.M))
        if n_atom_lines != len(clashes):
            errs.append(f"{n_atom_lines} atom clash lines printed, {len(clashes)} clashes found")
        if clashes:
            rows = list(csv.reader(open(csvp)))[1:]
            got = sorted((r[3], r[4], float(r[5])) for r in rows)
            want = sorted((f"{ri} {ai.name}", f"{rj} {aj.name}", occ) for (ri, ai), (rj, aj), occ in clashes)
            if got != want:
                errs.append(f"CSV lists {len(got)} clashes, differing from the {len(want)} found")
    return errs, len(clashes)


def bounded(tier, seed):
    from rnapolis.clashfinder import find_clashes
    rng = rng_for(seed, "c17")
    ev, nt, viol, samples = 0, 0, [], []
    structs = []
    for path in G.corpus(tier)[: (8 if tier == "quick" else 30)]:
        s = G.load(path)
        if len(s.residues) > 150 and tier == "quick":
            continue
        structs.append((os.path.basename(path), s))
        structs.append((os.path.basename(path) + "|squeezed", squeeze(s, rng)))
        # residues that differ in the insertion code only (N, N^A ...) and clash with each other
        structs.append((os.path.basename(path) + "|icode-twins|squeezed", squeeze(G.icode_twins(s, rng), rng)))
    for tag, s in structs:
        for opts in OPTS:
            ev += 1
            try:
                res = find_clashes(s.residues, *opts)
                errs = GO.c17_check(s.residues, opts, res)
            except Exception as e:
                errs, res = [f"raised {type(e).__name__}: {e}"], []
            nt += len(res) > 0
            if errs and len(viol) < 4:
                viol.append({"what": f"{tag} {opts}: {errs[0]}"[:300], "signature": f"clashes:{tag}:{opts}", "relates": "find_clashes",
                             "input": {"check": "clash-list", "case": [tag, list(opts)], "seed": seed, "tier": tier}})
    out = [{"name": "clash-list", "evaluations": ev, "distinct_nontrivial": nt, "violations": viol,
            "samples": [{"structure": structs[0][0], "options": list(OPTS[3])}],
            "rule": "corpus structures and squeezed copies (atoms pulled onto neighbours, partial occupancies) x all 32 option combinations vs O(n^2) enumeration; non-trivial = non-empty clash list",
            "bound": f"{len(structs)} structures x 32 options"}]
    # tool level: maxima and CSV
    ev2, nt2, viol2 = 0, 0, []
    flagsets = [[], ["--ignore-occupancy"], ["--ignore-occupancy", "--enable-molprobity-mode"], ["--ignore-autoclashes", "--ignore-occupancy"]]
    for tag, s in [t for t in structs if t[0].endswith("squeezed")][: (4 if tier == "quick" else 20)]:
        for flags in flagsets:
            ev2 += 1
            try:
                errs, n = check_main(s, flags, rng)
            except Exception as e:
                errs, n = [f"raised {type(e).__name__}: {e}"], 0
            nt2 += n > 1
            if errs and len(viol2) < 3:
                viol2.append({"what": f"{tag} {flags}: {errs[0]}"[:300], "signature": f"tool:{tag}:{flags}", "relates": "main",
                              "input": {"check": "tool-report", "case": [tag, flags], "seed": seed, "tier": tier}})
    out.append({"name": "tool-report", "evaluations": ev2, "distinct_nontrivial": nt2, "violations": viol2, "samples": [{"flags": flagsets[1]}],
                "rule": "clashfinder.main() on emitted PDB files of squeezed structures: printed per-chain / per-residue maxima and CSV rows vs the clash list; non-trivial = >1 clash",
                "bound": f"{ev2} tool runs"})
    return out


replay = make_replay(bounded)
