"""C10 Fitting to PDB limits is a structure-preserving renaming or a clean refusal"""
import os
import time

from gen import structures as G
from gen import tables as T
from oracles import fit_o as F
from props._util import rng_for

LEVEL = "other"
# Contract-based deductive verification cannot reach this property: fit_to_pdb / can_write_pdb are pandas expressions from the
# first line to the last (groupby, map, categorical dtypes, DataFrame renames), and pandas is not modelled by the verifier
# (nor could a faithful model be stated in the time available). Per the brief the honest answer is "not applicable";
# the bounded oracle below is kept as a regression harness (./check.py C10 still runs it, and it found three genuine
# defects, see known_findings.json) but the property is NOT claimed in MANIFEST.json.
NOT_APPLICABLE = ("no contract within reach: the whole logic of fit_to_pdb/can_write_pdb is pandas (groupby, categorical dtypes, column renames), "
                  "which the verifier does not model; a bounded oracle exists (./check.py C10) but is testing, not this technique")
DEDUCTIVE = []
TRUSTED = ["pandas 2.2 (DataFrame, categorical, groupby semantics)", "mmcif IoAdapterPy tokeniser", "CPython 3.12",
           "gen/tables.py + gen/emit.py emitters (independent of the library's writers)"]
ASSUMPTIONS = [
    "A-limits: the limits are exactly the three the property lists (serial <= 99999, one-character chain id, residue number <= 9999); atom/residue name widths and coordinate ranges are preconditions of the write/read-back clause, not limits",
    "A-feasible: a fit 'exists' when atoms + one TER per chain <= 99999, chains <= 62 and residues per chain <= 9999; it cannot exist when atoms > 99999 or chains > 94 (printable characters); in between either answer is accepted",
    "A-same-structure: read back 'same structure' = same atoms in order with equal model, chain, residue number, insertion code, residue/atom names, altloc, record type, element, coordinates to 0.0005, occupancy/B to 0.005 (serial and charge formatting excluded)",
    "A-null: None / NaN / NA / '' are the same absent value; '12' and 12 the same number",
]
EXPLANATION = ("bounded only: fit_to_pdb is pandas code outside the VC generator's fragment. An independent oracle (oracles/fit_o.py) states the property on the "
               "table before/after and is run on generated mmCIF/PDB-schema tables, very large tables and corpus files")

COLUMNS = ["full", "auth", "label"]
DTYPES = ["category", "object"]
MAX_PER_KIND = 3


def build(case):
    """case (JSON list) -> DataFrame"""
    kind = case[0]
    if kind == "cif":
        _, family, seed, columns, dtype = case
        return T.cif_table(family, seed, columns, dtype)[0]
    if kind == "pdb":
        _, family, seed, dtype = case
        return T.pdb_table(family, seed, dtype)[0]
    if kind == "huge":
        _, n, chain, id_start, nres = case
        return T.huge_cif_table(n, chain, id_start, nres)
    if kind == "pdb-overflow":
        return T.overflow_pdb_table(case[1])[0]
    if kind == "corpus":
        _, name, transform, dtype = case
        return corpus_table(name, transform, dtype)
    raise KeyError(kind)


def corpus_table(name, transform, dtype="category"):
    from rnapolis.parser_v2 import parse_cif_atoms, parse_pdb_atoms
    path = os.path.join(G.TESTS, name)
    with open(path) as f:
        df = parse_pdb_atoms(f) if name.endswith(".pdb") else parse_cif_atoms(f)
    attrs = dict(df.attrs)
    if transform == "multichar":
        df["auth_asym_id"] = df["auth_asym_id"].astype(object).map(lambda c: c + "x").astype("category")
    elif transform == "bigres":
        df["auth_seq_id"] = df["auth_seq_id"].astype(object).map(lambda v: str(int(v) + 10000)).astype("category")
    elif transform == "bigserial":
        df["id"] = df["id"].astype(object).map(lambda v: str(int(v) + 100000)).astype("category")
    df.attrs = attrs
    return T.as_object(df) if dtype == "object" else df


def case_id(case):
    return "/".join(str(x) for x in case)


def run(name, cases, rule, bound, nontrivial=lambda case: True, timeout=600):
    t0 = time.time()
    viol, per_kind, nt, samples = [], {}, set(), []
    ev = 0
    for case in cases:
        ev += 1
        cid = case_id(case)
        try:
            df = build(case)
        except Exception as e:  # the readers are C08's business; a table that cannot be built is reported, not hidden
            errs = [("case-construction", f"could not build the table: {type(e).__name__}: {e}")]
        else:
            try:
                errs = F.check_fit(df, timeout)
            except Exception as e:
                errs = [("oracle-error", f"oracle raised {type(e).__name__}: {e}")]
        if nontrivial(case):
            nt.add(cid)
            if len(samples) < 3:
                samples.append({"check": name, "input": cid})
        for kind, msg in errs[:2]:
            per_kind[kind] = per_kind.get(kind, 0) + 1
            if per_kind[kind] <= MAX_PER_KIND:
                viol.append({"what": f"[{cid}] {msg}"[:300], "signature": f"{kind}:{cid}", "relates": "fit_to_pdb|can_write_pdb|write_pdb",
                             "input": {"check": name, "case": list(case)}})
    # one violation of every kind first, so that a new kind is not hidden behind many instances of an already known one
    order, rank = {}, []
    for v in viol:
        k = v["signature"].split(":", 1)[0]
        order[k] = order.get(k, 0) + 1
        rank.append(order[k])
    viol = [v for _, _, v in sorted(zip(rank, range(len(viol)), viol), key=lambda t: t[:2])]
    return {"name": name, "evaluations": ev, "distinct_nontrivial": len(nt), "violations": viol, "samples": samples, "rule": rule, "bound": bound,
            "wall_s": round(time.time() - t0, 2), "violation_kinds": per_kind}


def bounded(tier, seed):
    rng = rng_for(seed, "c10")
    quick = tier == "quick"
    out = []
    # 1. generated mmCIF-schema tables
    per = 2 if quick else 12
    cases = []
    for family in T.FAMILIES:
        for k in range(per):
            s = rng.randrange(10 ** 6)
            for columns in COLUMNS:
                for dtype in DTYPES:
                    if quick and family.startswith("chains") and (k > 0 or columns != "full"):
                        continue
                    cases.append(["cif", family, s, columns, dtype])
    out.append(run("generated-cif", cases,
                   "tables emitted as mmCIF text by an independent emitter and read by parse_cif_atoms (categorical dtypes) and the same tables with object columns; "
                   "families: already fitting, multi-character chain ids, residue numbers > 9999, serials > 99999, exactly 62 / 63 / 100 chains, 2-3 models, "
                   "negative numbers, numbers < -999, a chain resumed after another one (waters), chain ids colliding with the new names, mixtures; insertion codes, "
                   "altlocs, hetero records, charges; with label_*+auth_*, only auth_* or only label_* atom/residue-name columns. Checked: limits; atom order, names, "
                   "coordinates and every other column; chain map one-to-one; residue map one-to-one and grouping-preserving; unchanged when already fitting; "
                   "only ValueError and only when no fit is evident; write_pdb + parse_pdb_atoms gives the same structure; non-trivial = table that needs fitting",
                   f"{len(cases)} tables ({len(T.FAMILIES)} families x {per} seeds x {len(COLUMNS)} column sets x {len(DTYPES)} dtypes; <= 100 chains, <= ~60 atoms each)",
                   nontrivial=lambda c: c[1] not in ("fits", "neg1000")))
    # 2. generated PDB-schema tables
    n = 10 if quick else 80
    cases = [["pdb", "fits", rng.randrange(10 ** 6), dtype] for _ in range(n) for dtype in DTYPES]
    out.append(run("generated-pdb", cases,
                   "tables emitted as PDB text and read by parse_pdb_atoms (1-4 chains, 1-3 models, negative numbers, insertion codes, altlocs): must come back unchanged "
                   "and survive write_pdb + parse_pdb_atoms", f"{len(cases)} tables", nontrivial=lambda c: True))
    # 3. large tables: the refusals that need size
    cases = [["huge", 100001, "A", 1, 5000], ["huge", 100001, "AA", 1, 5000]]
    if not quick:
        cases += [["huge", 10001, "AA", 1, 10001], ["huge", 9999, "AA", 1, 9999], ["huge", 3000, "A", 99000, 150]]
    out.append(run("large-tables", cases,
                   "mmCIF-schema tables built directly with the reader's dtypes: 100001 atoms (no fit exists: must be ValueError)"
                   + ("" if quick else "; 10001 residues in one multi-character chain (either answer, but nothing except ValueError); 9999 residues in one chain and "
                      "3000 atoms with serials 99000.. (must be fitted)"),
                   f"{len(cases)} tables", timeout=900))
    # 4. corpus files, as they are and pushed over each limit
    paths = [p for p in G.corpus(tier) if os.path.getsize(p) < (700000 if quick else 10 ** 9)]
    cases = []
    for p in paths:
        name = os.path.basename(p)
        cases.append(["corpus", name, "asis", "category"])
        if not name.endswith(".pdb"):
            for tr in ["multichar", "bigres", "bigserial"]:
                cases.append(["corpus", name, tr, "category"])
            cases.append(["corpus", name, "multichar", "object"])
    out.append(run("corpus", cases,
                   "corpus files read by parse_pdb_atoms / parse_cif_atoms as they are, and the mmCIF ones with every chain id lengthened, every residue number + 10000, "
                   "every serial + 100000 (categorical; chain variant also with object columns); same checks; non-trivial = pushed over a limit",
                   f"{len(paths)} files, {len(cases)} tables", nontrivial=lambda c: c[2] != "asis", timeout=900))
    # 5. PDB-schema tables beyond the limits
    n = 6 if quick else 40
    cases = [["pdb-overflow", rng.randrange(10 ** 6)] for _ in range(n)]
    out.append(run("pdb-schema-overflow", cases,
                   "tables read by parse_pdb_atoms and then edited in memory beyond the limits (chain ids lengthened and/or residue numbers + 10000 and/or serials + 100000): "
                   "the result must be a fit or a ValueError like for any other table", f"{len(cases)} tables"))
    return out


def replay(inp):
    case = inp["case"]
    try:
        df = build(case)
    except Exception as e:
        return {"fails": True, "errors": [f"could not build the table: {type(e).__name__}: {e}"]}
    errs = F.check_fit(df)
    return {"fails": bool(errs), "errors": [f"{k}: {m}" for k, m in errs[:3]]}
