"""C04 Stacking annotation equals its geometric definition"""
from oracles import geom_o as GO
from props import _geom

LEVEL = "other"
DEDUCTIVE = []
TRUSTED = ["numpy", "scipy KD-tree query_pairs returns exactly the pairs within the radius", "CPython 3.12"]
ASSUMPTIONS = ["A-real; pairs within 1e-6 of a threshold are undecided"]
EXPLANATION = "see DESIGN.md 4/C04"


def bounded(tier, seed):
    return [_geom.run("stacking-vs-definition", tier, seed,
                      lambda s, inter, find: GO.c04_check(s.residues, inter.stackings, find),
                      lambda inter: len(inter.stackings),
                      "corpus structures and seeded rigid motions / jitter / thinning; every residue pair re-evaluated by an O(n^2) oracle of the definition; non-trivial = at least one stacking",
                      "find_stackings")]


from props._util import make_replay
replay = make_replay(bounded)
