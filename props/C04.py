"""C04 Stacking annotation equals its geometric definition"""
from oracles import geom_o as GO
from props import _geom

LEVEL = "other"
DEDUCTIVE = [
    {"module": "rnapolis.annotator", "sidecar": "contracts.annotator_c",
     "targets": ["find_stackings", "angle_between_vectors", "lemma:mean_unique", "lemma:sumsq_pos"]},
    {"module": "rnapolis.tertiary", "sidecar": "contracts.annotator_c", "targets": ["Residue3D.find_atom", "Residue3D.__lt__"]},
]
TRUSTED = [
    "CPython 3.12 (list/dict/tuple semantics as encoded by pyvc)",
    "scipy.spatial.KDTree(points).query_pairs(r): exactly the set {(i, j): 0 <= i < j < n, |p_i - p_j| <= r} (contracts/annotator_c.py ext_kdtree, ext_query_pairs)",
    "sorted(list of (Residue3D, Residue3D, str)): a permutation of its argument in which no later element is smaller than an earlier one under the "
    "tuple order built on Residue3D.__lt__ (ext_sorted; only the consequences written there are used)",
    "sum(list): sum([]) == 0 and sum(L + [v]) == sum(L) + v (lemmas sum_empty, sum_append; exact also for floats, Python adds left to right)",
    "math.degrees is monotone (lemma degrees_monotone); math.acos, numpy.dot and the squared distance are left UNINTERPRETED: nothing is assumed about "
    "them, code and specification use the same symbols (py_acos, np_dot3, sqdist)",
    "numpy.linalg.norm(v) is the non-negative n with n*n == v.v; numpy.array of a 3-element list is the 3-vector (contracts/externals.py)",
    "z3 / cvc5",
]
ASSUMPTIONS = [
    "A-real: floats are mathematical reals; the thresholds 6 A / 35 deg / 45 deg are sandwiched by EPS = 1e-6 (reported => definition with thresholds + EPS; "
    "definition with thresholds - EPS => reported; the sign of the normals' dot product is decided outside [-EPS, EPS]), so pairs within 1e-6 of a threshold are undecided",
    "precondition: distinct participating residues (analysed model, at least one base heavy atom) have distinct base centroids - the code keys a dictionary by the "
    "centroid tuple and is lossy otherwise; and distinct (label, auth) identifiers (needed for 'reported once' to be expressible on the output records)",
    "precondition: an existing base normal is a non-zero vector (tertiary.py:264 returns a unit vector; collinear N9/N7/N3 resp. N1/C4/O2 give NaN, outside A-real)",
    "Residue.chain / number / icode (properties of the frozen base class, common.py:229-249) and the cached property Residue3D.base_normal_vector are read as "
    "stored attributes of the residue; label / auth are opaque tokens; every residue has a chain and a number (no None keys in __lt__)",
    "the centroid-to-centroid vector is taken from the later to the earlier residue in file order (the reading of the design phase, spec function cvec / oracle "
    "geom_o.stacking_expected); 'upward'/'inward' when the earlier residue is the lower one, 'downward'/'outward' otherwise",
    "definitional lemmas (explicit definitions of abbreviations, not proved): first_idx_definition (least index of an atom name, -1 if absent), "
    "base_prefix_zero / base_prefix_step (count and coordinate sums of the found atoms among the first k pinned base atom names, by primitive recursion on k), "
    "centroid_definition (cnt_base = that count over all names, cnt_base * centroid = those sums), vangle_definition (angle = arccos of the "
    "normalised dot product; angle_between_vectors is proved to return it), residue_order_definition (rlt = lexicographic order of (model, chain, number, icode or ' '); "
    "Residue3D.__lt__ is proved to return it)",
    "BASE_ATOMS is compared with the pinned table spec/tables.py BASE_ATOMS through the centroid definition (an edited entry changes the obligations of loop 1)",
]
EXPLANATION = (
    "Deductive (pyvc, SMT): find_stackings is under contract as a whole (4 loops, ghost index lists SRC0/SRC2/POS2 and the ghost permutation SORTED_PI/SORTED_PINV of sorted()). "
    "Top-level clauses, transcribed from the property text: (1) every reported Stacking is built from two participating residues a < b (file order) that satisfy the "
    "definition with thresholds + EPS - centroids within 6 A, normals within 35 deg of parallel or antiparallel (angle(n_a, n_b) <= 35 or angle(-n_a, n_b) <= 35), "
    "centroid-to-centroid vector within 45 deg of one of the normals - lists the lower residue first and is labelled upward/downward when the normals point the same "
    "way (dot > -EPS) and inward/outward when they oppose; (2) every such pair satisfying the definition with thresholds - EPS is reported with that orientation and label; "
    "(3) no residue pair is reported twice; (4) the list is ordered by (model,) chain, number, insertion code of the first and then of the second residue. "
    "Helper contracts, each a verified target: angle_between_vectors (returns the arccos of the normalised dot product), Residue3D.find_atom (first atom of that name or None), "
    "Residue3D.__lt__ (lexicographic key order). Loop 1/0 prove that each coordinates[k] is the mean of the found pinned base heavy atoms of one participating residue and that "
    "the centroid-keyed dictionary maps it back to that residue (uses the distinct-centroid precondition). What stays bounded: the same property re-evaluated by the O(n^2) "
    "oracle on corpus structures (floating point, real KD-tree, real sorted); the assumed contracts listed under TRUSTED are not proved."
)

def bounded(tier, seed):
    return [_geom.run("stacking-vs-definition", tier, seed,
                      lambda s, inter, find: GO.c04_check(s.residues, inter.stackings, find),
                      lambda inter: len(inter.stackings),
                      "corpus structures and seeded rigid motions / jitter / thinning; every residue pair re-evaluated by an O(n^2) oracle of the definition; non-trivial = at least one stacking",
                      "find_stackings")]


from props._util import make_replay
replay = make_replay(bounded)
