"""helpers shared by property modules"""
import random
import time


def run_cases(name, cases, oracle, nontrivial, rule, bound, sig=lambda c: repr(c), relates=None, max_viol=5, budget_s=None):
    """cases: iterable of inputs; oracle(case) -> list of error strings; nontrivial(case) -> bool"""
    t0 = time.time()
    ev = 0
    nt = set()
    viol = []
    samples = []
    for c in cases:
        ev += 1
        try:
            errs = oracle(c)
        except Exception as e:  # an exception escaping the real code is itself an observation
            errs = [f"raised {type(e).__name__}: {e}"]
        if nontrivial(c):
            nt.add(sig(c))
            if len(samples) < 3:
                samples.append({"check": name, "input": sig(c)[:200]})
        if errs and len(viol) < max_viol:
            viol.append({"what": errs[0][:300], "signature": f"{name}:{sig(c)}", "input": {"check": name, "case": c}, "relates": relates})
        if budget_s and time.time() - t0 > budget_s:
            break
    return {"name": name, "evaluations": ev, "distinct_nontrivial": len(nt), "violations": viol, "samples": samples,
            "rule": rule, "bound": bound, "wall_s": round(time.time() - t0, 2)}


def rng_for(seed, salt):
    return random.Random(f"{seed}-{salt}")


def make_replay(bounded_fn):
    """generic replay: regenerate the recorded case with the recorded seed/tier and report whether it still fails"""
    def replay(inp):
        out = bounded_fn(inp.get("tier", "quick"), inp.get("seed", 0))
        hits = [v for b in out for v in b.get("violations", []) if v["input"].get("case") == inp.get("case")]
        allv = [v for b in out for v in b.get("violations", [])]
        return {"fails": bool(hits or allv), "same_case": bool(hits), "errors": [v["what"] for v in (hits or allv)[:3]]}
    return replay
