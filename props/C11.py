"""C11 Interaction lists are well-formed and self-consistent"""
from oracles import geom_o as GO
from props import _geom

LEVEL = "other"
DEDUCTIVE = [
    {"module": "rnapolis.common", "sidecar": "contracts.annotator_c",
     "targets": ["LeontisWesthof.reverse", "lemma:lw_reverse_involution", "lemma:saenger_pinned_table_reverse_symmetric",
                 "lemma:saenger_real_table_reverse_symmetric"]},
    {"module": "rnapolis.annotator", "sidecar": "contracts.annotator_c",
     "targets": ["detect_saenger", "detect_bph_br_classification", "find_stackings"]},
    {"module": "rnapolis.tertiary", "sidecar": "contracts.annotator_c", "targets": ["Residue3D.find_atom", "Residue3D.__lt__"]},
    # (added by the C03 builder) contact-soundness sentence of C11 on the pre-merge lists of find_pairs; assumptions as in props/C03.py
    {"module": "rnapolis.annotator", "sidecar": "contracts.annotator_pairs_c", "targets": ["find_pairs@bph"],
     "opts": {"z3_probe_ms": 400, "cvc5_probe_s": 8, "z3_first_ms": 1000}},
]
TRUSTED = [
    "CPython 3.12 (enum lookup by name, dict lookup, f-strings, tuple comparison as encoded by pyvc)",
    "rnapolis.tertiary.torsion_angle(a1, a2, a3, a4): a real number depending only on the four (frozen) atoms, AttributeError on None "
    "(its value is the subject of C18; here only the sign test -90 < degrees(t) < 90 matters and both sides use the same uninterpreted symbols)",
    "math.degrees: uninterpreted in these targets (nothing assumed)",
    "for find_stackings: the trusted externals of props/C04.py (KD-tree query_pairs, sorted, sum, degrees monotone, numpy norm/array; acos, dot, squared distance uninterpreted)",
    "ordered_set.OrderedSet, collections.defaultdict: NOT modelled - merge_and_clean_bph_br is checked by exhaustive evaluation of the real function only (see EXPLANATION)",
    "z3 / cvc5 string and array theories",
]
ASSUMPTIONS = [
    "a LeontisWesthof parameter is modelled as the record (name, value) constrained to the 18 members read from the real enum; Residue3D / Atom are heap objects "
    "that these functions do not write (frame obligations)",
    "definitional lemma first_idx_definition (least index in residue.atoms of an atom with the given name, -1 if absent); Residue3D.find_atom is proved to return it",
    "Saenger reference = spec/tables.py SAENGER (Saenger 1984 numbering as used by RNApolis); BPh/BR class table = spec/tables.py BPH_FIXED / BPH_TORSION. The code "
    "comment at annotator.py:99 cites Zirbel et al. but does not spell the table out, so the BPh/BR pin is a regression pin of the table (an edited class is a named "
    "violation), not an independent derivation; independent of the pin are the clauses 'class in 0..9 or None' and 'class is a function of (base, donor atom name, "
    "presence of the two reference atoms, torsion sign)'",
    "for find_stackings: the preconditions and definitional lemmas listed in props/C04.py ASSUMPTIONS",
    "the symmetry lemma is about one-character base names (len == 1): for longer names 'a'+'b' is ambiguous",
    "A-real; the torsion sign test of the amino donors is sandwiched by EPS = 1e-6 degrees around +-90 (inside (-90+EPS, 90-EPS) => cis class, outside "
    "[-90-EPS, 90+EPS] => trans class, in between either), following 'contacts within 1e-6 of a threshold are undecided'",
]
EXPLANATION = (
    "Deductive (pyvc, SMT), complete over their domains: (a) LeontisWesthof.reverse under contract for a symbolic member - result keeps the cis/trans letter and swaps "
    "the two edge letters, never raises KeyError; lemma lw_reverse_involution: on the 18 member names the swap is an involution and stays inside the enum (so reverse "
    "is an involution on the members). (b) detect_saenger under contract with the table read from the real module: the result is None exactly when (base_i+base_j, lw) "
    "is not in the pinned table and otherwise is the pinned class (every table value is a Saenger member name: no KeyError); lemmas saenger_*_table_reverse_symmetric: "
    "for ALL one-character names a, b (string variables) and all 18 classes v, table(a+b, v) == table(b+a, swap(v)), for the pinned and for the real table - hence "
    "detect_saenger(i, j, lw) == detect_saenger(j, i, lw.reverse). (c) detect_bph_br_classification (loop-free, 123 obligations): class of the fixed donors per pinned "
    "table; N6/N2/N4 donors: 6|7, 1|3, 6|7 by the sign test of the torsion (reference atoms found by find_atom, None if one is missing); None for every other "
    "(base, donor); class in 0..9. Residue3D.find_atom (loop with invariant): first atom of that name or None. "
    "Exhaustive over a finite domain (NOT SMT, backend 'exhaustive-finite', real objects imported from the module under test): reverse.reverse is the identity and "
    "swaps letters on the 18 real members; real Saenger table == pinned table and its values are member names; detect_saenger symmetric on all 25*18 (ACGUT)^2 x LW "
    "inputs built from real Residue3D objects; (d) merge_and_clean_bph_br on every ordered sequence of distinct classes from {0,1,2,3,5,6,7,9} (the classes "
    "detect_bph_br_classification can return) for ONE residue pair (109,600 inputs): exactly one key, exactly one class, the class lies in the merged set (3 and 5 "
    "together count as 4, 7 and 9 as 8, so 3/5 resp. 7/9 are never reported when both were present), plus all two-pair inputs with up to 2 classes per pair "
    "(independence of pairs on that domain). For (d) this is a finite check, not a proof for arbitrary input lists: independence of different pairs beyond that domain "
    "and insensitivity to repeated triples are not proved (out of reach for now: the function mutates OrderedSet objects created by a defaultdict factory inside its loops and reached through dict values; pyvc has no model of a defaultdict whose factory allocates objects, and OrderedSet is not modelled). "
    "Stackings: find_stackings is under contract (the C04 contract, see props/C04.py for its assumptions: distinct centroids and identifiers of participating residues, "
    "assumed KD-tree / sorted / sum contracts): every reported stacking joins two different participating residues of the analysed model, lists the lower one "
    "(model, chain, number, insertion code) first, no residue pair is reported twice, and the list is sorted by that order. "
    "What stays bounded: all list-level clauses of C11 on find_pairs output (no repeats, no self pairs, participants in the model, orientation, sorting, contact soundness, "
    "one class per pair end to end). "
    "find_pairs@bph (contracts/annotator_pairs_c.py, prefix contract on the real find_pairs, assumptions and trusted externals as listed in props/C03.py): every triple "
    "appended to base_phosphate_pairs / base_ribose_pairs (the lists handed to merge_and_clean_bph_br) runs from a base donor atom (donor name of the pinned table that "
    "is not also an acceptor name) of its first residue to a phosphate (OP1/OP2/O5'/O3') / ribose (O4'/O2') oxygen of its second residue, the two atoms are a pair of "
    "the KD-tree pair set (within 4.0 A), fail the label/auth same-residue test and belong to two different residues; `used_atoms` is exactly the set of atoms of "
    "recorded contacts and no atom takes part in two of them."
)

# observe_at annotator.extract_base_interactions: the wrapper hands the given structure AND model to both searches and files each
# list under its own field (data-flow contract of contracts/glue_c.py; externals / assumptions as listed in props/_glue_text.py)
from props import _glue_text as _GT
DEDUCTIVE = list(DEDUCTIVE) + [{"module": "rnapolis.annotator", "sidecar": "contracts.glue_c", "targets": ["extract_base_interactions"]}]
TRUSTED = list(TRUSTED) + ["glue contract extract_base_interactions (contracts.glue_c): find_pairs / find_stackings are opaque callees there (ghost names for their arguments only); lists are list objects with identity"]
EXPLANATION = EXPLANATION + (" Glue: annotator.extract_base_interactions (contracts.glue_c) - both searches run on the given structure and the given model, "
                             "the four lists are filed under their own fields of BaseInteractions, otherInteractions is a new empty list; a wrapper that drops the model "
                             "for one of the searches (stackings of every model in a multi-model structure) fails `both-searches-run-on-the-given-structure-and-model`.")

def bounded(tier, seed):
    return [_geom.run("list-wellformedness", tier, seed,
                      lambda s, inter, find: GO.c11_check(s.residues, inter, find),
                      lambda inter: len(inter.basePairs) + len(inter.basePhosphateInteractions) + len(inter.baseRiboseInteractions),
                      "corpus structures and perturbations; no repeats / self pairs, participants in the model, orientation and sorting, Saenger presence vs pinned table, BPh/BR class implied by a donor-oxygen contact, one class per pair",
                      "find_pairs|find_stackings|detect_saenger|merge_and_clean")]


def files_check(case):
    """observe_at annotator.write_json / write_csv: the written files hold the annotation's lists - same interactions, same order,
    nothing repeated, no residue with itself"""
    import csv, json, os, tempfile
    from gen import structures as G
    from rnapolis import annotator
    s = G.load(case)
    s2d, _ = annotator.extract_secondary_structure(s, None, False, False)
    bi = s2d.baseInteractions
    with tempfile.TemporaryDirectory(prefix="c11-files-") as d:
        annotator.write_json(os.path.join(d, "o.json"), s2d)
        annotator.write_csv(os.path.join(d, "o.csv"), s2d)
        j = json.load(open(os.path.join(d, "o.json")))["baseInteractions"]
        rows = list(csv.reader(open(os.path.join(d, "o.csv"))))

    def nm(r):
        return (r.label.chain if r.label else None, r.label.number if r.label else None, r.auth.chain if r.auth else None,
                r.auth.number if r.auth else None, r.auth.icode if r.auth else None)

    def jn(r):
        la, au = r["label"], r["auth"]
        return (la["chain"] if la else None, la["number"] if la else None, au["chain"] if au else None, au["number"] if au else None, au["icode"] if au else None)
    errs = []
    mem = {"basePairs": [(nm(x.nt1), nm(x.nt2), x.lw.value, x.saenger.value if x.saenger else None) for x in bi.basePairs],
           "stackings": [(nm(x.nt1), nm(x.nt2), x.topology.value if x.topology else None) for x in bi.stackings],
           "basePhosphateInteractions": [(nm(x.nt1), nm(x.nt2), x.bph.value) for x in bi.basePhosphateInteractions],
           "baseRiboseInteractions": [(nm(x.nt1), nm(x.nt2), x.br.value) for x in bi.baseRiboseInteractions]}
    got = {"basePairs": [(jn(x["nt1"]), jn(x["nt2"]), x["lw"], x["saenger"]) for x in j["basePairs"]],
           "stackings": [(jn(x["nt1"]), jn(x["nt2"]), x["topology"]) for x in j["stackings"]],
           "basePhosphateInteractions": [(jn(x["nt1"]), jn(x["nt2"]), x["bph"]) for x in j["basePhosphateInteractions"]],
           "baseRiboseInteractions": [(jn(x["nt1"]), jn(x["nt2"]), x["br"]) for x in j["baseRiboseInteractions"]]}
    for k in mem:
        if got[k] != mem[k]:
            errs.append(f"JSON list {k} differs from the annotation ({len(got[k])} vs {len(mem[k])} entries)")
        if len(set(got[k])) != len(got[k]):
            errs.append(f"JSON list {k} repeats an interaction")
    want_rows = ([[x.nt1.full_name, x.nt2.full_name, "base pair", x.lw.value, x.saenger.value if x.saenger else ""] for x in bi.basePairs]
                 + [[x.nt1.full_name, x.nt2.full_name, "stacking", x.topology.value if x.topology else "", ""] for x in bi.stackings]
                 + [[x.nt1.full_name, x.nt2.full_name, "base-phosphate interaction", x.bph.value, ""] for x in bi.basePhosphateInteractions]
                 + [[x.nt1.full_name, x.nt2.full_name, "base-ribose interaction", x.br.value, ""] for x in bi.baseRiboseInteractions]
                 + [[x.nt1.full_name, x.nt2.full_name, "other interaction", "", ""] for x in bi.otherInteractions])
    body = rows[1:]
    if rows[:1] != [["nt1", "nt2", "type", "classification-1", "classification-2"]] or body != want_rows:
        errs.append(f"CSV: header / rows differ from the annotation's lists in order ({len(body)} rows for {len(want_rows)} interactions)")
    if len({tuple(r) for r in body}) != len(body):
        errs.append("CSV repeats a row")
    if any(r[0] == r[1] for r in body):
        errs.append("CSV row joins a residue with itself")
    return errs


def _bounded_files(tier):
    import os
    from gen import structures as G
    from props._util import run_cases
    files = [p for p in G.corpus(tier) if os.path.getsize(p) < (300000 if tier == "quick" else 3000000)]
    return run_cases("written-files", files, files_check, lambda c: True,
                     "corpus structures: the JSON and CSV files written by annotator.write_json / write_csv hold the annotation's four lists entry for entry in the same order, "
                     "no repeated entry, no residue with itself", f"{len(files)} structures", sig=os.path.basename, relates="write_json|write_csv")


_bounded_lists = bounded


def bounded(tier, seed):
    return _bounded_lists(tier, seed) + [_bounded_files(tier)]


from props._util import make_replay
_replay_lists = make_replay(_bounded_lists)


def replay(inp):
    if inp.get("check") == "written-files":
        errs = files_check(inp["case"])
        return {"fails": bool(errs), "errors": errs[:3]}
    return _replay_lists(inp)


def deductive_extra(tier, seed):
    """finite-domain checks by plain exhaustive evaluation of the REAL objects (no SMT); records shaped like the engine's"""
    import itertools
    import time as _t
    from rnapolis import annotator as A
    from rnapolis.common import LeontisWesthof, ResidueAuth, ResidueLabel, Saenger
    from rnapolis.tertiary import Residue3D
    from spec import tables as T

    def residue(k, name="A"):
        return Residue3D(ResidueLabel("A", k, name), ResidueAuth("A", k, None, name), 1, name, tuple())

    def run(target, module, checks):
        obls = []
        for name, fn, domain in checks:
            t0 = _t.time()
            bad = None
            n = 0
            try:
                for x in domain():
                    n += 1
                    if not fn(x):
                        bad = repr(x)[:300]
                        break
            except Exception as e:  # an exception of the real function on a domain element is a failed obligation
                bad = f"raised {type(e).__name__}: {e}"[:300]
            obls.append({"name": f"{target}#{name}[exhaustive over {n} inputs]" if bad is None else f"{target}#{name}", "kind": "finite",
                         "result": "unsat" if bad is None else "sat", "backend": "exhaustive-finite", "ms": int((_t.time() - t0) * 1000),
                         "model": None if bad is None else {"input": bad}, "reason": "" if bad is None else f"fails on {bad}", "line": None})
        return {"target": target + " (finite)", "module": module, "status": "proved" if all(o["result"] == "unsat" for o in obls) else "failed",
                "obligations": obls, "kind": "finite", "reason": ""}

    members = list(LeontisWesthof)
    rec_a = run("LeontisWesthof.reverse", "rnapolis.common", [
        ("reverse-is-an-involution-on-the-members", lambda m: m.reverse.reverse is m, lambda: members),
        ("reverse-swaps-the-edge-letters", lambda m: m.reverse.name == m.name[0] + m.name[2] + m.name[1] and m.reverse.value == m.reverse.name, lambda: members),
    ])
    table = Saenger.table()
    bases = "ACGUT"
    rs = {b: residue(k, b) for k, b in enumerate(bases)}
    rec_b = run("detect_saenger", "rnapolis.annotator", [
        ("saenger-table-equals-pinned-table", lambda _: dict(table) == dict(T.SAENGER), lambda: [0]),
        ("saenger-table-values-are-member-names", lambda v: v in Saenger.__members__, lambda: list(table.values())),
        ("saenger-identical-for-a-pair-and-its-reverse",
         lambda x: A.detect_saenger(rs[x[0]], rs[x[1]], x[2]) == A.detect_saenger(rs[x[1]], rs[x[0]], x[2].reverse),
         lambda: itertools.product(bases, bases, members)),
        ("saenger-present-exactly-when-defined",
         lambda x: (A.detect_saenger(rs[x[0]], rs[x[1]], x[2]) is None) == ((x[0] + x[1], x[2].value) not in T.SAENGER)
         and (A.detect_saenger(rs[x[0]], rs[x[1]], x[2]) is None or A.detect_saenger(rs[x[0]], rs[x[1]], x[2]).name == T.SAENGER[(x[0] + x[1], x[2].value)]),
         lambda: itertools.product(bases, bases, members)),
    ])
    producible = (0, 1, 2, 3, 5, 6, 7, 9)
    r1, r2, r3 = residue(1), residue(2), residue(3)

    def merged(classes):
        m = set(classes)
        if 3 in m and 5 in m:
            m = (m - {3, 5}) | {4}
        if 7 in m and 9 in m:
            m = (m - {7, 9}) | {8}
        return m

    def one_pair(seq):
        out = A.merge_and_clean_bph_br([(r1, r2, c) for c in seq])
        return list(out.keys()) == [(r1, r2)] and len(out[(r1, r2)]) == 1 and out[(r1, r2)][0] in merged(seq)

    def two_pairs(x):
        sa, sb, interleave = x
        ta, tb = [(r1, r2, c) for c in sa], [(r1, r3, c) for c in sb]
        inp = [t for pair in itertools.zip_longest(ta, tb) for t in pair if t is not None] if interleave else ta + tb
        out = A.merge_and_clean_bph_br(inp)
        alone_a, alone_b = A.merge_and_clean_bph_br(ta), A.merge_and_clean_bph_br(tb)
        return set(out.keys()) == {(r1, r2), (r1, r3)} and list(out[(r1, r2)]) == list(alone_a[(r1, r2)]) and list(out[(r1, r3)]) == list(alone_b[(r1, r3)])

    def sequences(maxlen):
        for k in range(1, maxlen + 1):
            yield from itertools.permutations(producible, k)

    rec_d = run("merge_and_clean_bph_br", "rnapolis.annotator", [
        ("one-key-one-class-from-the-merged-set(3+5->4,7+9->8)", one_pair, lambda: sequences(len(producible))),
        ("pairs-do-not-influence-each-other", two_pairs,
         lambda: ((a, b, i) for a in sequences(2) for b in sequences(2) for i in (False, True))),
    ])
    return [rec_a, rec_b, rec_d]
