"""C11 Interaction lists are well-formed and self-consistent"""
from oracles import geom_o as GO
from props import _geom

LEVEL = "other"
DEDUCTIVE = []
TRUSTED = ["numpy", "scipy KD-tree", "ordered_set.OrderedSet", "CPython 3.12"]
ASSUMPTIONS = ["A-real"]
EXPLANATION = "see DESIGN.md 4/C11"


def bounded(tier, seed):
    return [_geom.run("list-wellformedness", tier, seed,
                      lambda s, inter, find: GO.c11_check(s.residues, inter, find),
                      lambda inter: len(inter.basePairs) + len(inter.basePhosphateInteractions) + len(inter.baseRiboseInteractions),
                      "corpus structures and perturbations; no repeats / self pairs, participants in the model, orientation and sorting, Saenger presence vs pinned table, BPh/BR class implied by a donor-oxygen contact, one class per pair",
                      "find_pairs|find_stackings|detect_saenger|merge_and_clean")]


from props._util import make_replay
replay = make_replay(bounded)
