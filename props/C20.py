"""C20 mmCIF item editing changes only its target; CLI output equals library result"""
import os
import random
import string

from gen import structures as G
from oracles import transformer_o as TO
from props._util import rng_for

LEVEL = "other"
# solver budget: every obligation of these targets is discharged in well under 2 s on the unchanged tree, so an obligation that is still
# undecided after 4 s per stage (z3, z3 E-matching only, cvc5) is reported as failed without the long default budgets
DEDUCTIVE = [{"module": "rnapolis.transformer", "sidecar": "contracts.transformer_c", "targets": ["copy_from_to", "replace_value", "main"],
              "opts": {"z3_ms": 15000, "cvc5_s": 10}, "retry_unknown": False}]
TRUSTED = [
    "CPython 3.12 as encoded by pyvc (incl. list objects with identity: item-name list, attribute list, row list and rows are heap objects, so the aliasing through getAttributeList()/getRowList() is modelled, not assumed away)",
    "mmcif IoAdapterPy.readFile (contracts.transformer_c.ext_readFile): returns new, pairwise different container/category/list/row objects holding parse(text); category names in a container are pairwise different and each is a catalog key",
    "mmcif IoAdapterPy.writeFile + reading the file back (ext_writeFile): the text is render(W), W = the document read off the containers by walking the name list and the catalog; it depends on nothing else (in particular not on DataCategory's cached attribute count/catalog, which the in-place append leaves stale) - also used by the bounded oracle",
    "mmcif DataContainer.getObjNameList/getObj/replace and DataCategory.getAttributeList/getRowList/DataCategory(...) (ext_getObjNameList, ext_getObj, ext_replace, ext_getAttributeList, ext_getRowList, ext_DataCategory): accessors return the internal list objects; the constructor deep-copies; replace(obj) acts only if obj.getName() is a catalog key, which a DataCategory object passed as the name never is (checked natively: for transformer.py replace() is a no-op)",
    "tempfile.NamedTemporaryFile(mode=text) and builtins.open(path, 'r'|'w') file objects: write/seek(0)/read/__enter__/__exit__ over a ghost file system (ext_NamedTemporaryFile, ext_open, ext_tf_*)",
    "argparse.ArgumentParser()/add_argument(name, help=)/parse_args()/print_help() (ext_ArgumentParser, ext_add_argument, ext_parse_args, ext_print_help): destinations derived from the add_argument calls; positional -> str, optional -> str or None; values = cli_* constants",
]
ASSUMPTIONS = [
    "parse(text) / render(document) are uninterpreted: what the mmcif tokenizer/writer do at text level (quoting, multi-word and '?'/'.' values) is not decided deductively - the bounded check reads results back through the same library",
    "text-mode temp-file I/O is transparent: the reader sees exactly the string written and flushed by seek(0), f.read() returns exactly what writeFile wrote (UTF-8-encodable content, no newline translation)",
    "definition ndist_definition (contracts.transformer_c LEMMAS): ndist(D,k,i,n) = number of different values among the first n cells of the item, by recursion on n",
    "definition firstpos_definition: firstpos(D,k,i,x) = least row of the item holding x (least-number principle: it holds x and is <= every row holding x); used for 'seen in an earlier row' (firstpos < r), in the definition of ndist, and as the explicit witness in 'mapping keys are old values'",
    "requires wellformed(parse(file_content)): item names of a category pairwise different and every row has one cell per item (the reader itself can return short rows for a truncated loop)",
    "replace_value requires distinct_chars(values) (pairwise different characters); NO requires about len(values): the exhausted alphabet is the declared exceptional exit raises = {IndexError: not enough_values(...)}, i.e. some prefix of the rows has more different values than len(values) (stated per prefix; equal to 'more distinct values than characters' by monotonicity of ndist, which is not proved) - proved exact in both directions (obligations raises.IndexError.only-when / .whenever)",
    "heap frame: the contents of pre-existing StrList/RowList/Row model objects are in `modifies` (no such object can be passed in - the parameters are strings; 'everything else untouched' is proved on the written document, clause other-categories-untouched)",
    "main: requires --category given (cli_has_category), wellformed input file content and, in replace mode, distinct characters in --values; IndexError (exhausted alphabet, propagated from replace_value) is a declared exit of main; the ghost file system is not threaded through the two callee contracts, i.e. the library calls are assumed to leave files other than their own temporary files unchanged",
    "main uses the callee contracts copy_from_to@cli / replace_value@cli: the proved contracts with extra preconditions (the data-flow obligations) and only ghost-definition postconditions, hence implied by the proved ones",
]
EXPLANATION = (
    "Deductive (pyvc, real source, contracts/transformer_c.py). copy_from_to [168 obligations] over the abstract document "
    "P = parse(file_content), W = document handed to writeFile: (0) category or source item missing (incl. empty file) => the input string is returned; "
    "(1) otherwise result == render(W); (2) W has the same blocks and categories in the same order; (3) every other category of every block keeps items, "
    "row count/order/lengths and all cells; (4) items of the category unchanged except ONE appended target item when it was absent; (5) same row count, every "
    "row has one cell per item (+1 for a new item); (6) all non-target cells kept; (7) target cell == source cell of the same input row. Safety: no IndexError/"
    "ValueError/AttributeError. replace_value [152]: (0) missing => (input, empty mapping); (1)-(3) as above; (4) items and row shape kept; (5) other cells kept; "
    "(6) every old value is a key and the new cell is its image under the RETURNED mapping; (7) every key is an old value (witness row firstpos); (8) first-seen: a "
    "value whose first row is r (firstpos(value) == r, i.e. not seen in an earlier row) maps to values[ndist(r)] (= number of distinct values before) and "
    "len(mapping) == number of distinct values; (9) injective - on EVERY normal exit, for every alphabet with distinct characters; IndexError is raised exactly "
    "when the alphabet is exhausted (raises.IndexError.only-when / .whenever). The proofs go through the aliasing of the attribute list and the in-place mutated rows: data[0].replace(DataCategory("
    "category_obj, ...)) is modelled faithfully and is a no-op (object passed as name); a variant passing the category NAME (effective replace) also verifies. "
    "main [71]: call-site obligations call[..]->copy_from_to.requires.1-4 / replace_value.requires.2-5 = the first argument of the library call is the CONTENT of "
    "the file named args.input and the others are the command-line values; arg-not-None obligations; ensures: in copy/replace mode the text of the file written "
    "at args.output is the library's (first) string result, otherwise nothing is written; writing a tuple is safe.no_TypeError[f.write(output)]. "
    "Bounded only: text-level behaviour of the mmcif reader/writer (generated documents with quoted / multi-word / '?' / '.' values, corpus files) and the end-to-end "
    "CLI subprocess runs.")
VALUES = "".join(c for c in string.printable if c not in string.whitespace)


def one(case):
    kind, seed, extra = case
    rng = random.Random(seed)
    if kind == "gen":
        text, cats = TO.make_doc(rng)
    else:
        text = open(extra).read()
        cats = TO.read_doc(text)
    names = list(cats) + ["absent_cat"]
    cn = rng.choice(names)
    attrs = (cats[cn][0] if cn in cats else []) + ["absent_item"]
    errs = []
    src = rng.choice(attrs)
    dst = rng.choice(attrs + ["brand_new_item"])
    if src != dst:
        errs += TO.check_copy(text, cn, src, dst)
    col = rng.choice(attrs)
    u = rng.random()
    # full alphabet, a 12-character sample, or a very short one (exhausted by the item's distinct values: either an exception or an injective mapping)
    vals = VALUES if u < .6 else ("".join(rng.sample(VALUES, 12)) if u < .8 else rng.choice(["", "A", "AB", "XYZ"]))
    errs += TO.check_replace(text, cn, col, vals)
    # an item of the category with at least two different values, if there is one (for the repeated-character alphabet of the CLI runs)
    multi = [a for k, a in enumerate(cats[cn][0]) if len({row[k] for row in cats[cn][1]}) >= 2] if cn in cats else []
    return errs, (text, cn, src, dst, col, vals, multi[0] if multi else col)


def bounded(tier, seed):
    rng = rng_for(seed, "c20")
    cases = [("gen", rng.randrange(10 ** 9), None) for _ in range(150 if tier == "quick" else 1500)]
    files = [p for p in G.corpus("quick") if p.endswith(".cif") and os.path.getsize(p) < 300000][: (3 if tier == "quick" else 8)]
    cases += [("file", rng.randrange(10 ** 9), p) for p in files for _ in range(3)]
    ev, nt, viol = 0, 0, []
    cli_inputs = []
    for c in cases:
        ev += 1
        try:
            errs, info = one(c)
        except Exception as e:
            errs, info = [f"raised {type(e).__name__}: {e}"], None
        nt += 1
        if info and len(cli_inputs) < (6 if tier == "quick" else 30) and c[0] == "gen":
            cli_inputs.append(info)
        if errs and len(viol) < 4:
            viol.append({"what": errs[0][:300], "signature": f"edit:{c[0]}:{c[1]}:{os.path.basename(c[2] or '')}", "relates": "copy_from_to|replace_value",
                         "input": {"check": "item-editing", "case": list(c), "seed": seed, "tier": tier}})
    out = [{"name": "item-editing", "evaluations": ev, "distinct_nontrivial": nt, "violations": viol, "samples": [{"case": list(cases[0])}],
            "rule": "generated multi-category documents (quoted, multi-word, '?'/'.' values; loops and key-value categories) and corpus files; random category/item choices incl. absent ones and new target items; copy and replace compared cell by cell through the mmcif reader",
            "bound": f"{len(cases)} documents"}]
    ev2, viol2 = 0, []
    for text, cn, src, dst, col, vals, col2 in cli_inputs:
        # (the third run: an alphabet with a repeated character - whatever the library returns for it, the tool must write the same)
        for mode, a, b in (("copy", src, dst), ("replace", col, vals), ("replace", col2, "XX" + VALUES[:40].replace("X", ""))):
            if mode == "copy" and src == dst:
                continue
            if mode == "replace" and not vals:
                continue  # an empty --values selects no mode at all (the tool prints its help): not an edit, outside the property
            ev2 += 1
            errs = TO.check_cli(text, mode, cn, a, b)
            if errs and len(viol2) < 3:
                viol2.append({"what": errs[0][:300], "signature": f"cli:{mode}:{cn}:{a}", "relates": "main",
                              "input": {"check": "cli", "case": [text, mode, cn, a, b]}})
    out.append({"name": "cli", "evaluations": ev2, "distinct_nontrivial": ev2, "violations": viol2, "samples": [{"mode": "copy"}],
                "rule": "python -m rnapolis.transformer on generated documents, copy and replace modes; output file must equal the library function's return value for the file content",
                "bound": f"{ev2} CLI runs"})
    return out


def replay(inp):
    if inp["check"] == "cli":
        errs = TO.check_cli(*inp["case"])
    else:
        errs, _ = one(tuple(inp["case"]))
    return {"fails": bool(errs), "errors": errs[:3]}
