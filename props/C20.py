"""C20 mmCIF item editing changes only its target; CLI output equals library result"""
import os
import random
import string

from gen import structures as G
from oracles import transformer_o as TO
from props._util import rng_for

LEVEL = "other"
DEDUCTIVE = [{"module": "rnapolis.transformer", "sidecar": "contracts.transformer_c", "targets": ["copy_from_to", "replace_value", "main"]}]
TRUSTED = ["mmcif IoAdapterPy reader/writer (also used as the oracle's reader)", "CPython 3.12"]
ASSUMPTIONS = ["the mmcif library's reader is trusted to report categories/items/rows of a document"]
EXPLANATION = "see DESIGN.md 4/C20"
VALUES = "".join(c for c in string.printable if c not in string.whitespace)


def one(case):
    kind, seed, extra = case
    rng = random.Random(seed)
    if kind == "gen":
        text, cats = TO.make_doc(rng)
    else:
        text = open(extra).read()
        cats = TO.read_doc(text)
    names = list(cats) + ["absent_cat"]
    cn = rng.choice(names)
    attrs = (cats[cn][0] if cn in cats else []) + ["absent_item"]
    errs = []
    src = rng.choice(attrs)
    dst = rng.choice(attrs + ["brand_new_item"])
    if src != dst:
        errs += TO.check_copy(text, cn, src, dst)
    col = rng.choice(attrs)
    vals = VALUES if rng.random() < .7 else "".join(rng.sample(VALUES, 12))
    errs += TO.check_replace(text, cn, col, vals)
    return errs, (text, cn, src, dst, col, vals)


def bounded(tier, seed):
    rng = rng_for(seed, "c20")
    cases = [("gen", rng.randrange(10 ** 9), None) for _ in range(150 if tier == "quick" else 1500)]
    files = [p for p in G.corpus("quick") if p.endswith(".cif") and os.path.getsize(p) < 300000][: (3 if tier == "quick" else 8)]
    cases += [("file", rng.randrange(10 ** 9), p) for p in files for _ in range(3)]
    ev, nt, viol = 0, 0, []
    cli_inputs = []
    for c in cases:
        ev += 1
        try:
            errs, info = one(c)
        except Exception as e:
            errs, info = [f"raised {type(e).__name__}: {e}"], None
        nt += 1
        if info and len(cli_inputs) < (6 if tier == "quick" else 30) and c[0] == "gen":
            cli_inputs.append(info)
        if errs and len(viol) < 4:
            viol.append({"what": errs[0][:300], "signature": f"edit:{c[0]}:{c[1]}:{os.path.basename(c[2] or '')}", "relates": "copy_from_to|replace_value",
                         "input": {"check": "item-editing", "case": list(c), "seed": seed, "tier": tier}})
    out = [{"name": "item-editing", "evaluations": ev, "distinct_nontrivial": nt, "violations": viol, "samples": [{"case": list(cases[0])}],
            "rule": "generated multi-category documents (quoted, multi-word, '?'/'.' values; loops and key-value categories) and corpus files; random category/item choices incl. absent ones and new target items; copy and replace compared cell by cell through the mmcif reader",
            "bound": f"{len(cases)} documents"}]
    ev2, viol2 = 0, []
    for text, cn, src, dst, col, vals in cli_inputs:
        for mode, a, b in (("copy", src, dst), ("replace", col, vals)):
            if mode == "copy" and src == dst:
                continue
            ev2 += 1
            errs = TO.check_cli(text, mode, cn, a, b)
            if errs and len(viol2) < 3:
                viol2.append({"what": errs[0][:300], "signature": f"cli:{mode}:{cn}:{a}", "relates": "main",
                              "input": {"check": "cli", "case": [text, mode, cn, a, b]}})
    out.append({"name": "cli", "evaluations": ev2, "distinct_nontrivial": ev2, "violations": viol2, "samples": [{"mode": "copy"}],
                "rule": "python -m rnapolis.transformer on generated documents, copy and replace modes; output file must equal the library function's return value for the file content",
                "bound": f"{ev2} CLI runs"})
    return out


def replay(inp):
    if inp["check"] == "cli":
        errs = TO.check_cli(*inp["case"])
    else:
        errs, _ = one(tuple(inp["case"]))
    return {"fails": bool(errs), "errors": errs[:3]}
