"""C16 The all-dot-brackets list is exactly the set of greedy-stable assignments"""
from gen.pairings import pairings_upto, random_structure, stems_of
from oracles import common_o as O
from props._util import rng_for, run_cases
from props.C01 import knotted

LEVEL = "other"
DEDUCTIVE = [{"module": "rnapolis.common", "sidecar": "contracts.common_all_c",
              "targets": ["BpSeq.all_dot_brackets", "BpSeq.__make_dot_bracket@dict"]}]
TRUSTED = ["z3 5.1.0 / cvc5 1.0.3", "pyvc encoding of Python semantics (DESIGN 2.3)", "CPython 3.12"]
ASSUMPTIONS = []
EXPLANATION = "see DESIGN.md 4/C16"


def bounded(tier, seed):
    nmax = 7 if tier == "quick" else 9
    rng = rng_for(seed, "c16")
    out = [run_cases("all-pairings", pairings_upto(nmax), O.c16_check, knotted,
                     f"every pairing N<={nmax}: all_dot_brackets against an independent enumeration of greedy-stable proper assignments",
                     f"N<={nmax}", sig=lambda p: "".join(map(str, p)), relates="all_dot_brackets")]
    rnd = []
    while len(rnd) < (30 if tier == "quick" else 300):
        p = random_structure(rng, rng.randint(14, 44), rng.randint(3, 6 if tier == "quick" else 7), maxlen=3)
        if len(stems_of(p)) <= 7:
            rnd.append(p)
    out.append(run_cases("random-groups", rnd, O.c16_check, knotted, "random knotted structures, groups of <=7 stems",
                         f"{len(rnd)} structures", sig=repr, relates="all_dot_brackets"))
    return out


def replay(inp):
    errs = O.c16_check(tuple(inp["case"]))
    return {"fails": bool(errs), "errors": errs[:3]}
