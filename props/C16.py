"""C16 The all-dot-brackets list is exactly the set of greedy-stable assignments"""
from gen.pairings import pairings_upto, random_structure, stems_of
from oracles import common_o as O
from props._util import rng_for, run_cases
from props.C01 import knotted

LEVEL = "other"
DEDUCTIVE = [{"module": "rnapolis.common", "sidecar": "contracts.common_all_c",
              "targets": ["BpSeq.all_dot_brackets", "BpSeq.__make_dot_bracket@dict",
                          "lemma:fcfs_levels_are_proper_and_greedy_stable"]},
             # observe_at Mapping2D3D.all_dot_brackets: one text per member of self.bpseq.all_dot_brackets, in order, each cut per strand
             # (contract of C06's second sidecar) - the list a caller of the 3D route sees is the BpSeq list, member for member
             {"module": "rnapolis.tertiary", "sidecar": "contracts.mapping_ext_c", "targets": ["Mapping2D3D.all_dot_brackets"]}]
TRUSTED = [
    "z3 5.1.0 / cvc5 1.0.3", "pyvc encoding of Python semantics (DESIGN 2.3)", "CPython 3.12",
    "Mapping2D3D.all_dot_brackets (contracts.mapping_ext_c): externals and assumptions as listed in props/C06.py (str.join as an uninterpreted function "
    "of the list of lines, cached properties bpseq / strands_sequences as model fields, offsets_ok)",
    "itertools.combinations(range(n), 2): all pairs a < b, lexicographic order (contracts.common_all_c._combinations)",
    "itertools.permutations(L): every element is L rearranged by a bijection of the positions, and every such rearrangement "
    "occurs (contracts.common_all_c._permutations; 'each once' is not assumed)",
    "itertools.product(*U): every element picks one member of every U[c], and every such choice occurs "
    "(contracts.common_all_c._product)",
    "frozenset(d.items()) as an interned value with the content of d; equal content => same value is NOT assumed "
    "(contracts.common_all_c._frozenset)",
    "dict.update(<frozenset of items>): sets the keys of the items, keeps the others (contracts.common_all_c._dict_update)",
    "collections.defaultdict(set) (contracts.mapping_c._defaultdict)",
    "sorted(<set>, key=lambda d: d.structure): a list holding exactly the members, non-decreasing in the key; the order of two "
    "texts is the uninterpreted text_le (contracts.common_all_c._sorted_keyed)",
    "set of DotBracket (value __eq__/__hash__ over sequence, structure) modelled as a set of object identities: admits "
    "value-duplicates, never fewer members",
    "callee contracts proved under C01 (contracts.common_c): BpSeq.__regions, BpSeq.fcfs, DotBracket.from_string@painted, "
    "BpSeq.sequence",
]
ASSUMPTIONS = [
    "levels30(self) / groups_small(self): the property's quantifier (groups of crossing stems have at most 8 <= 30 stems) as "
    "uninterpreted predicates; groups_small_definition (ASSUMED, cardinality step): under it every component list - proved "
    "to be a duplicate-free list of stems of one group - has at most 30 entries",
    "sorted_rearrangement (ASSUMED mathematical fact, used by the completeness clause only): the stems of a component can be "
    "listed in non-decreasing order of the levels F (srt / srti: the sorting bijection and its inverse)",
    "the DFS while-loop and the enumeration loops are proved partially correct (no decreases clause)",
    "completeness is stated for pseudoknotted structures; for pseudoknot-free ones the single member is BpSeq.fcfs (round "
    "brackets only, proved)",
    "FC_definition (definitional lemma of contracts.common_c; existence and uniqueness of FC proved in lean/Definitional.lean, see C01) is used "
    "for fcfs's own stem list fcfs_R on the pseudoknot-free path only; on the pseudoknotted path FC_def(regions) occurs only as a HYPOTHESIS "
    "(inside fc_is, clause fcfs-notation-is-a-member), which is satisfiable by FC_definition_consistent - the clause is not vacuous; the two "
    "uses lie in disjoint cases (knot_free / not knot_free), so the one-stem-list-per-context discipline (FC_definition_one_R_per_context) is "
    "kept. levels30(self) is constrained only by levels30_definition (consistent together with FC_definition: levels30_definition_consistent) "
    "and serves as the precondition of the BpSeq.fcfs call",
]
EXPLANATION = (
    "Under contract (contracts.common_all_c, reusing contracts.common_c): BpSeq.all_dot_brackets (all ten loops) and a "
    "dict-typed variant of BpSeq.__make_dot_bracket verified against the same body. "
    "ensures every-member-lossless (the C01 clause): every member has the structure's length and sequence and decodes to exactly "
    "its base pairs - each member is __make_dot_bracket(regions, orders) and the call-site obligations "
    "`assembled-assignment-is-proper-and-greedy-stable` prove that `orders` is proper on ALL stems and greedy-stable (every "
    "stem on the lowest level not taken by a crossing stem). "
    "Permutation loop (soundness): invariants loop6/loop7 = the FCFS inner invariant (level available iff no earlier "
    "neighbour on it, ghost witnesses), proper-so-far, greedy-so-far; next(filter(..)) never raises StopIteration (ghost "
    "counter M = 1 + highest level used <= i < len(component) slots: no pigeonhole needed); the recorded frozenset satisfies "
    "fs_good (`recorded-assignment-is-proper-and-greedy-stable`). "
    "Conflict graph: j in graph[i] iff stems i, j cross (loop0, `conflict-graph`). DFS: the component lists partition the "
    "vertices, no vertex twice, no edge between two components (comps_ok, loops 1-3); NOT proved: that a component is "
    "connected. "
    "ensures every-proper-greedy-stable-assignment-is-a-member (completeness, ghost parameter F arbitrary): for a "
    "pseudoknotted structure the painting of every proper greedy-stable assignment F is a member - the permutation of a "
    "component sorted by F replays F (`next-is-f`, `sorted-permutation-replays-f`), it is enumerated (permutations), the "
    "per-component records are combined (product) and F's painting enters the set. "
    "lemma fcfs_levels_are_proper_and_greedy_stable (SMT): the FCFS levels FC (FC_def of contracts.common_c) are proper and "
    "greedy-stable; ensures fcfs-notation-is-a-member: for a pseudoknotted structure, if F lists the FCFS levels of `regions` "
    "(fc_is: FC_def(regions), F[a] == FC(a) < 30) some member's text is painted with them ('always contains the FCFS "
    "notation'; BpSeq.fcfs is not called on that path, its contract says its text is painted with the same levels over "
    "its own copy of the stems - that the two stem lists coincide rests on cached_property, C01's listed assumption). "
    "ensures round-brackets-only-when-pseudoknot-free: the early-exit member IS the object returned by self.fcfs (exit "
    "obligation `result[0] is fcfs_result`), and its text has only '(' ')' '.': no two stems of `regions` cross => no two "
    "stems of fcfs's stem list cross (crossing base pairs lie on two different crossing stems of `regions`: regions_cover + "
    "lemma strands_apart) => nothing is ever taken => FC == 0 everywhere => painted_g with level 0. "
    "ensures ordered-by-structure-text (C14): ascending by the members' texts (text_le). "
    "ensures single-notation-when-pseudoknot-free: no crossing stems => exactly one member (BpSeq.fcfs). "
    "Stays bounded (oracle): 'without repetition' (needs extensional frozenset / DotBracket value equality), 'contains the "
    "optimal notation' (optimal => greedy-stable, exchange argument), position-by-position equality of the FCFS member with "
    "self.fcfs's text for pseudoknotted structures (fcfs is not called there).")


# glue functions of the property's observe_at list (contracts/glue_c.py; texts shared in props/_glue_text.py)
from props import _glue_text as _GT
DEDUCTIVE += [{"module": "rnapolis.annotator", "sidecar": "contracts.glue_c",
               "targets": ["extract_secondary_structure", "add_common_output_arguments", "handle_output_arguments@prefix", "main@annotator"]}]
TRUSTED = list(TRUSTED) + _GT.TRUSTED
ASSUMPTIONS = list(ASSUMPTIONS) + _GT.ASSUMPTIONS
EXPLANATION = EXPLANATION + _GT.C16


def bounded(tier, seed):
    nmax = 7 if tier == "quick" else 9
    rng = rng_for(seed, "c16")
    out = [run_cases("all-pairings", pairings_upto(nmax), O.c16_check, knotted,
                     f"every pairing N<={nmax}: all_dot_brackets against an independent enumeration of greedy-stable proper assignments",
                     f"N<={nmax}", sig=lambda p: "".join(map(str, p)), relates="all_dot_brackets")]
    rnd = []
    while len(rnd) < (30 if tier == "quick" else 300):
        p = random_structure(rng, rng.randint(14, 44), rng.randint(3, 6 if tier == "quick" else 7), maxlen=3)
        if len(stems_of(p)) <= 7:
            rnd.append(p)
    out.append(run_cases("random-groups", rnd, O.c16_check, knotted, "random knotted structures, groups of <=7 stems",
                         f"{len(rnd)} structures", sig=repr, relates="all_dot_brackets"))
    # groups of 8 crossing stems (8! = 40320 orderings inside the library): a hub stem crossed by seven nested stems (star), a
    # chain of eight stems each crossing the next (path), and a hub with a path hanging off it - shapes in which the greedy-stable
    # assignments are few and depend on which stem comes first
    def star(k, hub_first=True):
        # hub (1 pair) crossing k nested leaves: positions  h l1..lk H Lk..L1   (h-H crosses every l-L)
        n = 2 * k + 2
        p = [0] * (n + 1)
        p[1], p[k + 2] = k + 2, 1
        for t in range(k):
            a, b = 2 + t, n - t
            p[a], p[b] = b, a
        return tuple(p[1:])

    def path(k):
        # a1 a2 A1 a3 A2 a4 A3 ... : stem i crosses stems i-1 and i+1 only
        order = ["a1"]
        for i in range(2, k + 1):
            order += [f"a{i}", f"A{i - 1}"]
        order.append(f"A{k}")
        pos = {name: i + 1 for i, name in enumerate(order)}
        p = [0] * (len(order) + 1)
        for i in range(1, k + 1):
            p[pos[f"a{i}"]], p[pos[f"A{i}"]] = pos[f"A{i}"], pos[f"a{i}"]
        return tuple(p[1:])
    from gen.pairings import stretch
    big = [star(7), stretch(star(7), [2, 3, 3, 3, 3, 3, 3, 3]), path(8)]
    if tier != "quick":
        big += [star(8), path(9)]
    out.append(run_cases("eight-stem-groups", big, O.c16_check, knotted,
                         "one connected group of 8 (thorough: 9) crossing stems - star and path conflict graphs - against the independent enumeration (level <= degree bound)",
                         f"{len(big)} structures", sig=repr, relates="all_dot_brackets"))
    # the other two observation points: Mapping2D3D.all_dot_brackets (through annotator.extract_secondary_structure) and the
    # annotator command line tool with --all-dot-brackets, on corpus structures
    import os
    from gen import structures as G
    files = [p for p in G.corpus(tier) if os.path.getsize(p) < (300000 if tier == "quick" else 3000000)]
    cases = [(p, fg) for p in files for fg in (False, True)]
    out.append(run_cases("mapping-and-tool", cases, mapping_check, lambda c: True,
                         "corpus structures: the texts of Mapping2D3D.all_dot_brackets (extract_secondary_structure(all_dot_brackets=True)), joined over strands, "
                         "are without repetition exactly the greedy-stable assignments of the structure's BPSEQ (independent enumeration when the conflicted stems "
                         "are <= 10), carry its sequence, and `annotator -a` prints exactly these texts",
                         f"{len(cases)} (structure, find_gaps) cases", sig=lambda c: f"{os.path.basename(c[0])}:{c[1]}", relates="all_dot_brackets|Mapping2D3D"))
    return out


def mapping_check(case):
    import contextlib, io, sys
    from gen import structures as G
    from rnapolis import annotator
    path, find_gaps = case[0], bool(case[1])
    s = G.load(path)
    s2d, dbs = annotator.extract_secondary_structure(s, None, find_gaps, True)
    rows = [ln.split() for ln in s2d.bpseq.splitlines() if ln.strip()]
    pairing, seq = tuple(int(r[2]) for r in rows), "".join(r[1] for r in rows)
    joined = ["".join(t.splitlines()[2::3]) for t in dbs]
    errs = []
    if any("".join(t.splitlines()[1::3]) != seq for t in dbs):
        errs.append("a member does not carry the BPSEQ's sequence")
    if len(set(joined)) != len(joined):
        errs.append("Mapping2D3D.all_dot_brackets repeats a member")
    stems, adj = O.stem_graph(pairing)
    if sum(1 for a in adj if adj[a]) <= 10:
        want = O.c16_expected(pairing)
        if set(joined) != want:
            errs.append(f"Mapping2D3D.all_dot_brackets {sorted(set(joined))[:3]}.. ({len(set(joined))}) != greedy-stable set {sorted(want)[:3]}.. ({len(want)})")
    if not any(adj.values()) and (len(joined) != 1 or any(c not in "()." for c in joined[0])):
        errs.append("pseudoknot-free structure must give one round-bracket text")
    buf, old = io.StringIO(), sys.argv
    try:
        sys.argv = ["annotator", path, "-a"] + (["-f"] if find_gaps else [])
        with contextlib.redirect_stdout(buf):
            annotator.main()
    finally:
        sys.argv = old
    if buf.getvalue() != "".join(t + "\n" for t in dbs):
        errs.append("`annotator -a` does not print exactly the texts of all_dot_brackets")
    return errs


def replay(inp):
    if inp.get("check") == "mapping-and-tool":
        errs = mapping_check(inp["case"])
        return {"fails": bool(errs), "errors": errs[:3]}
    errs = O.c16_check(tuple(inp["case"]))
    return {"fails": bool(errs), "errors": errs[:3]}
