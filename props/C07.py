"""C07 Structural elements decompose the secondary structure consistently"""
from gen.pairings import pairings_upto, random_structure, stems_of
from oracles import common_o as O
from props._util import rng_for, run_cases

LEVEL = "other"
DEDUCTIVE = [{"module": "rnapolis.common", "sidecar": "contracts.common_elems_c", "targets": ["BpSeq.__stems_entries"]},
             {"module": "rnapolis.common", "sidecar": "contracts.common_elems_c",
              "opts": {"z3_probe_ms": 800},  # stage order: short z3 attempt, cvc5, then the usual z3 stages
              "targets": ["Strand.from_bpseq_entries", "lemma:consecutive", "lemma:onto_length",
                          "Stem.from_bpseq_entries", "BpSeq.elements@prefix"]},
             # observe_at motif_extractor.main: data flow of the command-line tool (library calls opaque, see ASSUMPTIONS)
             {"module": "rnapolis.motif_extractor", "sidecar": "contracts.motif_c", "targets": ["main"]}]
TRUSTED = ["z3 5.1.0 / cvc5 1.0.3", "pyvc encoding of Python semantics (DESIGN 2.3)", "CPython 3.12",
           "external sorted() (contracts.common_elems_c._sorted_int_set): for a set of integers, the strictly increasing list of "
           "exactly its members",
           "external collections.defaultdict (only named; the statement that uses it lies behind the cut point)",
           "motif_extractor.main (contracts/motif_c.py) externals: argparse.ArgumentParser / add_argument / parse_args (parse_args exits "
           "or returns a namespace whose attributes are the constants cli_<dest>(): Optional string for --dbn / --bpseq, bool for the "
           "store_true flags); builtins.print and ArgumentParser.print_help as ONE new entry of the ghost list ref(Stdout, 0).lines per "
           "call (print_help: the opaque entry help_text(); print inside a loop only if the loop contract declares writes "
           "['Stdout.lines']); itertools.chain of lists = their concatenation; str() of a DotBracket object = db_text(value), str() of "
           "a Stem / SingleStrand / Hairpin / Loop object = elem_text(structure value, kind, position) (uninterpreted)"]
ASSUMPTIONS = [
    "cached_property model: every access to BpSeq.__stems_entries / BpSeq.dot_bracket returns the value of a ghost slot "
    "(self.stems_ / self.dot_bracket_) that satisfies the property's contract in the current state; for __stems_entries this is "
    "the contract proved under C01 (re-proved here as a target), for dot_bracket see next item",
    "assumed callee contract BpSeq.dot_bracket@text (MILP encoder, subject of C02/C13): returns without raising a DotBracket "
    "whose structure text has len(entries) characters - nothing else about the text is used, the strands' structure texts are "
    "proved to be its slices whatever it contains",
    "dataclass __post_init__ of Stem / SingleStrand / Hairpin / Loop (self.description = str(self)) is not modelled: it writes "
    "only the undeclared field `description` of the object under construction",
    "PREFIX contract: BpSeq.elements is verified from its entry up to, not including, the statement `graph = defaultdict(set)`; "
    "its clauses speak of the local variables at that point. That the rest of the function returns `stems` and `hairpins` "
    "unchanged and only appends to `single_strands` is a syntactic observation (no statement behind the cut assigns, mutates or "
    "writes them), not an engine proof",
    "motif_extractor.main: every library call is an ASSUMED callee contract of contracts/motif_c.py (none is a verify target "
    "there): BpSeq.from_file, DotBracket.from_file, BpSeq.from_dotbracket, BpSeq.without_isolated, BpSeq.without_pseudoknots and the "
    "cached properties BpSeq.dot_bracket / BpSeq.elements are opaque functions of an abstract structure value `val` carried by each "
    "object (bpseq_file(path), dbn_file(path), bp_of_db, wo_isolated, wo_pseudoknots, dot_bracket_of, n_el / element (src, kind, idx) - "
    "all uninterpreted), modify no existing object, and may raise ValueError / IndexError / KeyError / RuntimeError (and OSError "
    "for the two readers). What these functions compute is the subject of the other targets (elements prefix here, C12 for the "
    "two removals, C01 for the text readers); main's clauses hold for ANY such functions. The elements tuple is modelled as four "
    "lists of one model class Element (the real classes differ; main only prints them)",
    "motif_extractor.main: `out()` (the printed lines) is empty when main starts (precondition: the list counts from the start of "
    "the call); one entry per print() call, not per text line (the first entry holds an embedded newline)",
]
EXPLANATION = (
    "Under contract (sidecar contracts/common_elems_c.py): BpSeq.__stems_entries (contract of common_c, C01: the stems are "
    "exactly the maximal runs of directly stacked 5'->3' pairs, in 5' order, every pair in exactly the stem the ghost map GS "
    "names - 'the stems partition the base pairs into maximal runs of directly stacked pairs'); Strand.from_bpseq_entries "
    "(first/last = ends of the run of positions, sequence = the entries' nucleotides, structure = dotbracket[first-1:last]; "
    "reverse=True: ends swapped, nucleotides reversed - never used by the library); Stem.from_bpseq_entries for a run T of "
    "stacked pairs of a valid structure ('mirrored 5' and 3' strands': the filtered list of partners is proved to be the "
    "contiguous run all_entries[pair(last5)-1 : pair(first5)], hence strand3p.first == pair(last5), strand3p.last == "
    "pair(first5), both strands carry the slices of sequence and text; the step 'a strictly increasing map onto an integer "
    "interval is j -> a + j and has the interval's length' is the pair of SMT lemmas consecutive (induction on j) / "
    "onto_length); BpSeq.elements@prefix (PREFIX contract, see ASSUMPTIONS) whose clauses at the cut point are: S are the "
    "maximal runs; one Stem object per run, in 5' order, with the run's mirrored strand ends and the slices; every stop is a "
    "paired position and the first/last stop is the first/last paired position, so the 5' (3') single strand is reported "
    "exactly when the structure starts (ends) with unpaired nucleotides and covers them plus the first (last) paired one, "
    "with its slices; every reported hairpin runs from a nucleotide to its partner with only unpaired nucleotides between "
    "('hairpins are pairs enclosing only unpaired nucleotides', the direction reported => definition) and carries its slices; "
    "every loop-strand candidate runs between two consecutive paired nucleotides that are not partners, interior unpaired, "
    "with its slices ('every reported strand's sequence and structure text equal the corresponding slices' for stems, "
    "hairpins, tails and the candidates every loop strand / free single strand is taken from); nothing allocated before the "
    "call is written (frame). "
    "BOUNDED ONLY (oracles, all pairings N <= 10 + random knotted structures): the loop-linking graph over loop candidates "
    "(defaultdict(set), lines ~599-608), the closure walk (`while True` / for-else, `used` set of Strand values, lines "
    "~610-633: sets keyed by records with text fields are outside the engine's value model) and the final single-strand loop; "
    "hence 'every loop is a closed cycle of >= 2 strands whose consecutive ends are base-paired', 'every pair enclosing only "
    "unpaired nucleotides IS reported as a hairpin' (converse direction) and 'every unpaired nucleotide lies in the interior "
    "of exactly one single strand, hairpin or loop strand'. Observed while reading: `if i in used` compares an int with a set "
    "of Strand values (always False), and a structure without any pair returns four empty lists (no single strand at all) - "
    "both are left to the bounded oracle / triage."
    " COMMAND-LINE TOOL (observe_at motif_extractor.main, sidecar contracts/motif_c.py, module rnapolis.motif_extractor): main() is "
    "executed symbolically from argparse to the last print, the library calls being opaque functions of an abstract structure value "
    "(see ASSUMPTIONS). Clauses, for every command line and every file: (no-input-option-prints-help-and-nothing-else) with neither "
    "--dbn nor --bpseq (missing or empty) exactly one thing is printed, the help text; otherwise "
    "(dot-bracket-and-elements-are-read-from-ONE-object) the BpSeq object whose dot_bracket is printed IS the object whose elements "
    "are printed, (that-object-is-file-then-without-isolated-then-without-pseudoknots) it holds the file's structure (--dbn wins over "
    "--bpseq; DotBracket.from_file then BpSeq.from_dotbracket, or BpSeq.from_file), replaced by its without_isolated() when "
    "--remove-isolated and THEN by its without_pseudoknots() when --remove-pseudoknots (the uninterpreted functions do not commute, "
    "so the order is part of the clause), (first-line-is-the-dot-bracket-of-that-structure) the first print is 'Full dot-bracket:' + "
    "newline + str(dot_bracket of that structure), (then-every-element-of-that-structure-in-order-and-nothing-else) followed by "
    "one print per element of `elements` of that structure - stems, single strands, hairpins, loops, each list in list order - and "
    "nothing else. Not covered by this target: what the printed texts look like (str of the element classes) and the library "
    "calls themselves; the bounded CLI run of this module compares the real output with the library's."
)
# --- appended (loop-linking graph and the tail of BpSeq.elements now under contract; supersedes the statements above about where the
# cut lies and about what is bounded only) ---
DEDUCTIVE += [{"module": "rnapolis.common", "sidecar": "contracts.common_elems_tail_c", "targets": ["BpSeq.elements@tail"]}]
TRUSTED += ["external collections.defaultdict(set) (contracts.common_elems_c._defaultdict), now USED by the verified part of "
            "BpSeq.elements: an empty dict whose missing-key read inserts set() (the engine's defaultdict semantics); at the start of "
            "the tail contract the local `graph` is such a defaultdict(set) (start_defaultdicts)",
            "pyvc tail contracts (engine.verify, start_at / start_from / start_locals / start_assumes): a function is verified from a "
            "top-level statement on, in a state where the named locals are unknown values of their shapes, the heap is unknown, and "
            "only clauses are assumed that the named prefix contract of the same function proves (textually the same clause) at its "
            "cut point in front of the same statement",
            "pyvc set objects kept as the list of the values added (class entry boxed_valueset; calls.boxed_valueset_method): "
            "`x in s` is equality of x with one of the values added (what a Python set answers for values whose __hash__ is "
            "consistent with __eq__, as for the frozen dataclass Strand), s.add / s.update(list) append; nothing else is modelled"]
ASSUMPTIONS += [
    "CUT MOVED: the target BpSeq.elements@prefix now denotes the longer prefix contract bpseq_elements_graph (contracts/common_elems_c.py): "
    "BpSeq.elements is verified from its entry up to, not including, the statement `used = set()` - i.e. including the two nested loops that "
    "build the loop-linking graph; every clause listed for the old cut point is proved at the new one",
    "TAIL: BpSeq.elements@tail (contracts/common_elems_tail_c.py) verifies the rest of the function, from `used = set()` to the return, as a "
    "TAIL contract: its entry facts are the clauses TAIL_FACTS that BpSeq.elements@prefix proves at that cut point (valid structure, every "
    "loop-strand candidate is cand_ok, the two graph clauses, no loop reported yet); the locals stems / single_strands / hairpins / loops / "
    "loop_candidates / graph are unknown values of their shapes there. The two halves are proved under class tables that differ only by "
    "the class StrandSet (the model of `used`), which the prefix does not use. Composition of the two halves (the state at the cut of a "
    "real run satisfies the prefix's proved clauses, hence the tail's assumptions) is the engine's tail-contract rule, not a separate proof",
    "`used` (a set of Strand values) is modelled as a set object kept as the list of the values added (StrandSet); Strand == Strand is the "
    "dataclass field-wise equality (first, last, sequence, structure); Loop.__post_init__ / SingleStrand.__post_init__ are not modelled "
    "(as for Stem / Hairpin above)",
    "termination of the closure walk `while True` is NOT proved (no `decreases`): all tail clauses are partial-correctness statements",
]
EXPLANATION += (
    " LOOP-LINKING GRAPH AND TAIL (appended; lines ~599-639 are no longer bounded-only). With LC the loop-strand candidates and "
    "link(a, b) := entries[LC[a].last - 1].pair == LC[b].first ('the 3' end of candidate a is base-paired with the 5' end of candidate b'): "
    "(A) BpSeq.elements@prefix, at the new cut point `used = set()`: (graph-edges-join-base-paired-consecutive-ends) b in graph[a] only if "
    "a != b are candidate numbers and link(a, b); (every-base-paired-pair-of-ends-is-an-edge) for all candidates a < b: link(a, b) => b in "
    "graph[a] and link(b, a) => a in graph[b]; the reads self.entries[i_last - 1] / [j_last - 1] cannot raise; "
    "(every-gap-with-unpaired-interior-is-a-hairpin-or-a-loop-candidate, hairpins-span-their-gaps, candidates-span-their-gaps) along "
    "the stops loop (ghost maps KIND / IDX per gap, HPG / LCG per hairpin / candidate): for every two CONSECUTIVE stops p < q whose "
    "interior p+1..q-1 is unpaired, the gap is reported - as a hairpin with strand p+1..q+1 when entries[p].pair == q+1, otherwise as a "
    "loop-strand candidate with that strand - and every hairpin / candidate spans exactly one such gap (the code-side half of 'every "
    "pair enclosing only unpaired nucleotides IS reported as a hairpin' and of the coverage clause; the gap that reports nothing is "
    "shown to contain a paired nucleotide, by a ghost witness). "
    "(B) BpSeq.elements@tail, from `used = set()` to the return (closure walk `for i: loop = [..]; while True: for j in graph[i]: .. break / "
    "else: break`, the closing test, `used.update(loop)`, the final loop over the candidates), clauses about the RETURNED tuple: "
    "(every-loop-is-a-closed-cycle-...) every reported Loop has at least two strands, the 3' end of each strand is base-paired with the 5' "
    "end of the next, the 3' end of the last with the 5' end of the first, and every strand is a candidate (between two paired nucleotides "
    "that are not partners, interior unpaired, sequence / structure the slices) - 'every loop is a closed cycle of at least two strands "
    "whose consecutive ends are base-paired and whose interiors are unpaired'; walk invariants: the walk stands at candidate i, is a chain "
    "of base-paired ends, holds candidates only; >= 2 strands because a one-strand walk cannot pass the closing test (a candidate's ends are "
    "not partners); (stems / hairpins returned unchanged, earlier single strands kept) the tail returns the prefix's `stems` and `hairpins` "
    "lists as they are and only appends to `single_strands` - now an engine proof; (new-single-strands-are-free-candidates, "
    "every-candidate-outside-the-loops-is-a-single-strand, only-candidates-outside-the-loops-are-new-single-strands, "
    "strands-of-reported-loops-are-in-used, used-holds-only-strands-of-reported-loops) the set `used` holds exactly the strands of the "
    "reported loops; every candidate that is not in it is reported as a plain single strand (neither 5' nor 3'), and every new single "
    "strand is such a candidate - so every loop-strand candidate is a strand of a reported loop or a reported single strand, and no "
    "single strand is a strand of a reported loop; no IndexError / KeyError anywhere in the tail; nothing allocated before the cut is "
    "written. "
    "STILL BOUNDED ONLY, precisely: (i) termination of `while True` (needs: the strands of `loop` are pairwise different candidates, then a "
    "pigeonhole bound len(loop) <= len(LC)); (ii) 'exactly one' inside the loops: that no candidate is a strand of two reported loops or "
    "occurs twice in one (needs: a graph node has at most one successor, and a reported loop is closed under it; note `if i in used` "
    "compares an int with Strand values and never fires, so a walk may START at a used candidate - it then cannot close); (iii) the "
    "statements about the stops that connect candidates / hairpins to ARBITRARY positions: 'every pair enclosing only unpaired "
    "nucleotides IS reported as a hairpin' (converse direction: needs that the two ends of such a pair are inner stem ends, hence stops, "
    "and consecutive in `stops`) and 'every unpaired nucleotide lies in the interior of exactly one single strand, hairpin or loop "
    "strand' (needs, on top of (A) and (B): an unpaired position between two consecutive stops lies in a gap whose interior is entirely "
    "unpaired - because a paired interior position would belong to a stem strand whose two ends are stops; plus disjointness of the "
    "reported strands' interiors). Both missing steps are statements about the STOPS (that all four ends of every stem are stops is in the "
    "code but only the outer two are in the invariant stop_ends; contiguity of stem strands), not about the reporting code; (iv) a structure without any pair returns four empty lists (early return, no single strand "
    "at all): outside both halves' clauses. These stay with the exhaustive oracle (all pairings N <= 10)."
)


def bounded(tier, seed):
    nmax = 8 if tier == "quick" else 10
    rng = rng_for(seed, "c07")
    out = [run_cases("all-pairings", pairings_upto(nmax), O.c07_check, lambda p: len(stems_of(p)) >= 2,
                     f"every pairing N<={nmax}: elements against the definitions of stem / hairpin / loop / single strand; non-trivial = >=2 stems",
                     f"N<={nmax}", sig=lambda p: "".join(map(str, p)) if max(p, default=0) < 10 else repr(p), relates="elements")]
    rnd = [random_structure(rng, rng.randint(14, 60), rng.randint(2, 7), maxlen=4) for _ in range(80 if tier == "quick" else 1500)]
    out.append(run_cases("random", rnd, O.c07_check, lambda p: len(stems_of(p)) >= 2, "random nested/knotted structures N<=60",
                         f"{len(rnd)} structures", sig=repr, relates="elements"))
    cli = []
    pool = [p for p in pairings_upto(7) if len(stems_of(p)) >= 2][::9] + rnd[:12 if tier == "quick" else 200]
    for k, p in enumerate(pool):
        for fmt in (("bpseq", "dbn") if k % 3 == 0 else ("bpseq",)):
            for rm_iso in (False, True):
                for rm_pk in (False, True):
                    cli.append((tuple(p), fmt, rm_iso, rm_pk))
    out.append(run_cases("command-line-tool", cli, cli_check, lambda c: c[2] or c[3],
                         "motif_extractor.main in-process on a BPSEQ / dot-bracket file with every combination of --remove-isolated / --remove-pseudoknots: "
                         "printed strands are slices of the printed sequence and dot-bracket, printed stems are pairs of it, and it is the structure the options ask for",
                         f"{len(cli)} runs", sig=repr, relates="elements"))
    return out


def cli_check(case):
    """the command line tool (observe_at: motif_extractor.main): the printed strands are slices of the printed sequence and
    dot-bracket, the printed stems are pairs of the printed dot-bracket, and what is printed is the decomposition of the
    structure the options ask for (isolated pairs / pseudoknots removed first)"""
    import contextlib, io, os, sys, tempfile
    from rnapolis import motif_extractor
    from rnapolis.common import DotBracket
    pairing, fmt, rm_iso, rm_pk = tuple(case[0]), case[1], case[2], case[3]
    seq = O.seq_of(pairing, None)
    b = O.make_bpseq(pairing, seq)
    with tempfile.TemporaryDirectory(prefix="c07-cli-") as d:
        if fmt == "bpseq":
            path = os.path.join(d, "in.bpseq")
            open(path, "w").write("".join(f"{i + 1} {seq[i]} {pairing[i]}\n" for i in range(len(pairing))))
            argv = ["motif_extractor", "--bpseq", path]
        else:
            path = os.path.join(d, "in.dbn")
            open(path, "w").write(f">strand\n{seq}\n{b.dot_bracket.structure}\n")
            argv = ["motif_extractor", "--dbn", path]
        argv += ["--remove-isolated"] * rm_iso + ["--remove-pseudoknots"] * rm_pk
        buf, old = io.StringIO(), sys.argv
        try:
            sys.argv = argv
            with contextlib.redirect_stdout(buf):
                motif_extractor.main()
        finally:
            sys.argv = old
    lines = buf.getvalue().splitlines()
    if len(lines) < 3 or lines[0] != "Full dot-bracket:":
        return [f"unexpected output head {lines[:3]}"]
    pseq, pdb = lines[1], lines[2]
    errs = []
    if pseq != seq or len(pdb) != len(seq):
        errs.append(f"printed sequence/structure {pseq!r}/{pdb!r} do not belong to the input sequence {seq!r}")
        return errs
    # the structure the options ask for (by the oracle's own removal rules), as a set of pairs
    want = {(i + 1, j) for i, j in enumerate(pairing) if j > i + 1}
    if rm_iso:
        while True:
            iso = {(i, j) for (i, j) in want if (i - 1, j + 1) not in want and (i + 1, j - 1) not in want}
            if not iso:
                break
            want -= iso
    try:
        got = {(i + 1, j + 1) for i, j in DotBracket.from_string(pseq, pdb).pairs}
    except Exception as e:
        return [f"printed dot-bracket does not decode: {type(e).__name__}"]
    if not rm_pk and got != want:
        errs.append(f"printed dot-bracket decodes to {sorted(got)} instead of {sorted(want)}")
    if rm_pk and (not got <= want or any(c not in "()." for c in pdb)):
        errs.append(f"printed dot-bracket {pdb!r} after --remove-pseudoknots is not a round-bracket subset of the structure")
    for ln in lines[3:]:
        tok = ln.split(" ")
        kind, rest = tok[0], tok[1:]
        if kind not in ("Stem", "SingleStrand", "SingleStrand5p", "SingleStrand3p", "Hairpin", "Loop") or len(rest) % 4:
            errs.append(f"unexpected element line {ln!r}")
            continue
        strands = [(int(rest[k]), int(rest[k + 1]), rest[k + 2], rest[k + 3]) for k in range(0, len(rest), 4)]
        for first, last, sq, st in strands:
            if sq != pseq[first - 1:last] or st != pdb[first - 1:last]:
                errs.append(f"{kind} strand {first}-{last} {sq} {st}: not the slices of the printed sequence / dot-bracket")
        if kind == "Stem" and len(strands) == 2:
            (f5, l5, _, _), (f3, l3, _, _) = strands
            if any((f5 + t, l3 - t) not in got for t in range(l5 - f5 + 1)):
                errs.append(f"Stem {f5}-{l5}/{f3}-{l3}: not pairs of the printed dot-bracket")
    return errs[:5]


def replay(inp):
    if inp.get("check") == "command-line-tool":
        errs = cli_check(inp["case"])
        return {"fails": bool(errs), "errors": errs[:3]}
    errs = O.c07_check(tuple(inp["case"]))
    return {"fails": bool(errs), "errors": errs[:3]}
