"""C07 Structural elements decompose the secondary structure consistently"""
from gen.pairings import pairings_upto, random_structure, stems_of
from oracles import common_o as O
from props._util import rng_for, run_cases

LEVEL = "other"
DEDUCTIVE = [{"module": "rnapolis.common", "sidecar": "contracts.common_elems_c", "targets": ["BpSeq.__stems_entries"]},
             {"module": "rnapolis.common", "sidecar": "contracts.common_elems_c",
              "opts": {"z3_probe_ms": 800},  # stage order: short z3 attempt, cvc5, then the usual z3 stages
              "targets": ["Strand.from_bpseq_entries", "lemma:consecutive", "lemma:onto_length",
                          "Stem.from_bpseq_entries", "BpSeq.elements@prefix"]}]
TRUSTED = ["z3 5.1.0 / cvc5 1.0.3", "pyvc encoding of Python semantics (DESIGN 2.3)", "CPython 3.12",
           "external sorted() (contracts.common_elems_c._sorted_int_set): for a set of integers, the strictly increasing list of "
           "exactly its members",
           "external collections.defaultdict (only named; the statement that uses it lies behind the cut point)"]
ASSUMPTIONS = [
    "cached_property model: every access to BpSeq.__stems_entries / BpSeq.dot_bracket returns the value of a ghost slot "
    "(self.stems_ / self.dot_bracket_) that satisfies the property's contract in the current state; for __stems_entries this is "
    "the contract proved under C01 (re-proved here as a target), for dot_bracket see next item",
    "assumed callee contract BpSeq.dot_bracket@text (MILP encoder, subject of C02/C13): returns without raising a DotBracket "
    "whose structure text has len(entries) characters - nothing else about the text is used, the strands' structure texts are "
    "proved to be its slices whatever it contains",
    "dataclass __post_init__ of Stem / SingleStrand / Hairpin / Loop (self.description = str(self)) is not modelled: it writes "
    "only the undeclared field `description` of the object under construction",
    "PREFIX contract: BpSeq.elements is verified from its entry up to, not including, the statement `graph = defaultdict(set)`; "
    "its clauses speak of the local variables at that point. That the rest of the function returns `stems` and `hairpins` "
    "unchanged and only appends to `single_strands` is a syntactic observation (no statement behind the cut assigns, mutates or "
    "writes them), not an engine proof",
]
EXPLANATION = (
    "Under contract (sidecar contracts/common_elems_c.py): BpSeq.__stems_entries (contract of common_c, C01: the stems are "
    "exactly the maximal runs of directly stacked 5'->3' pairs, in 5' order, every pair in exactly the stem the ghost map GS "
    "names - 'the stems partition the base pairs into maximal runs of directly stacked pairs'); Strand.from_bpseq_entries "
    "(first/last = ends of the run of positions, sequence = the entries' nucleotides, structure = dotbracket[first-1:last]; "
    "reverse=True: ends swapped, nucleotides reversed - never used by the library); Stem.from_bpseq_entries for a run T of "
    "stacked pairs of a valid structure ('mirrored 5' and 3' strands': the filtered list of partners is proved to be the "
    "contiguous run all_entries[pair(last5)-1 : pair(first5)], hence strand3p.first == pair(last5), strand3p.last == "
    "pair(first5), both strands carry the slices of sequence and text; the step 'a strictly increasing map onto an integer "
    "interval is j -> a + j and has the interval's length' is the pair of SMT lemmas consecutive (induction on j) / "
    "onto_length); BpSeq.elements@prefix (PREFIX contract, see ASSUMPTIONS) whose clauses at the cut point are: S are the "
    "maximal runs; one Stem object per run, in 5' order, with the run's mirrored strand ends and the slices; every stop is a "
    "paired position and the first/last stop is the first/last paired position, so the 5' (3') single strand is reported "
    "exactly when the structure starts (ends) with unpaired nucleotides and covers them plus the first (last) paired one, "
    "with its slices; every reported hairpin runs from a nucleotide to its partner with only unpaired nucleotides between "
    "('hairpins are pairs enclosing only unpaired nucleotides', the direction reported => definition) and carries its slices; "
    "every loop-strand candidate runs between two consecutive paired nucleotides that are not partners, interior unpaired, "
    "with its slices ('every reported strand's sequence and structure text equal the corresponding slices' for stems, "
    "hairpins, tails and the candidates every loop strand / free single strand is taken from); nothing allocated before the "
    "call is written (frame). "
    "BOUNDED ONLY (oracles, all pairings N <= 10 + random knotted structures): the loop-linking graph over loop candidates "
    "(defaultdict(set), lines ~599-608), the closure walk (`while True` / for-else, `used` set of Strand values, lines "
    "~610-633: sets keyed by records with text fields are outside the engine's value model) and the final single-strand loop; "
    "hence 'every loop is a closed cycle of >= 2 strands whose consecutive ends are base-paired', 'every pair enclosing only "
    "unpaired nucleotides IS reported as a hairpin' (converse direction) and 'every unpaired nucleotide lies in the interior "
    "of exactly one single strand, hairpin or loop strand'. Observed while reading: `if i in used` compares an int with a set "
    "of Strand values (always False), and a structure without any pair returns four empty lists (no single strand at all) - "
    "both are left to the bounded oracle / triage."
)


def bounded(tier, seed):
    nmax = 8 if tier == "quick" else 10
    rng = rng_for(seed, "c07")
    out = [run_cases("all-pairings", pairings_upto(nmax), O.c07_check, lambda p: len(stems_of(p)) >= 2,
                     f"every pairing N<={nmax}: elements against the definitions of stem / hairpin / loop / single strand; non-trivial = >=2 stems",
                     f"N<={nmax}", sig=lambda p: "".join(map(str, p)) if max(p, default=0) < 10 else repr(p), relates="elements")]
    rnd = [random_structure(rng, rng.randint(14, 60), rng.randint(2, 7), maxlen=4) for _ in range(80 if tier == "quick" else 1500)]
    out.append(run_cases("random", rnd, O.c07_check, lambda p: len(stems_of(p)) >= 2, "random nested/knotted structures N<=60",
                         f"{len(rnd)} structures", sig=repr, relates="elements"))
    cli = []
    pool = [p for p in pairings_upto(7) if len(stems_of(p)) >= 2][::9] + rnd[:12 if tier == "quick" else 200]
    for k, p in enumerate(pool):
        for fmt in (("bpseq", "dbn") if k % 3 == 0 else ("bpseq",)):
            for rm_iso in (False, True):
                for rm_pk in (False, True):
                    cli.append((tuple(p), fmt, rm_iso, rm_pk))
    out.append(run_cases("command-line-tool", cli, cli_check, lambda c: c[2] or c[3],
                         "motif_extractor.main in-process on a BPSEQ / dot-bracket file with every combination of --remove-isolated / --remove-pseudoknots: "
                         "printed strands are slices of the printed sequence and dot-bracket, printed stems are pairs of it, and it is the structure the options ask for",
                         f"{len(cli)} runs", sig=repr, relates="elements"))
    return out


def cli_check(case):
    """the command line tool (observe_at: motif_extractor.main): the printed strands are slices of the printed sequence and
    dot-bracket, the printed stems are pairs of the printed dot-bracket, and what is printed is the decomposition of the
    structure the options ask for (isolated pairs / pseudoknots removed first)"""
    import contextlib, io, os, sys, tempfile
    from rnapolis import motif_extractor
    from rnapolis.common import DotBracket
    pairing, fmt, rm_iso, rm_pk = tuple(case[0]), case[1], case[2], case[3]
    seq = O.seq_of(pairing, None)
    b = O.make_bpseq(pairing, seq)
    with tempfile.TemporaryDirectory(prefix="c07-cli-") as d:
        if fmt == "bpseq":
            path = os.path.join(d, "in.bpseq")
            open(path, "w").write("".join(f"{i + 1} {seq[i]} {pairing[i]}\n" for i in range(len(pairing))))
            argv = ["motif_extractor", "--bpseq", path]
        else:
            path = os.path.join(d, "in.dbn")
            open(path, "w").write(f">strand\n{seq}\n{b.dot_bracket.structure}\n")
            argv = ["motif_extractor", "--dbn", path]
        argv += ["--remove-isolated"] * rm_iso + ["--remove-pseudoknots"] * rm_pk
        buf, old = io.StringIO(), sys.argv
        try:
            sys.argv = argv
            with contextlib.redirect_stdout(buf):
                motif_extractor.main()
        finally:
            sys.argv = old
    lines = buf.getvalue().splitlines()
    if len(lines) < 3 or lines[0] != "Full dot-bracket:":
        return [f"unexpected output head {lines[:3]}"]
    pseq, pdb = lines[1], lines[2]
    errs = []
    if pseq != seq or len(pdb) != len(seq):
        errs.append(f"printed sequence/structure {pseq!r}/{pdb!r} do not belong to the input sequence {seq!r}")
        return errs
    # the structure the options ask for (by the oracle's own removal rules), as a set of pairs
    want = {(i + 1, j) for i, j in enumerate(pairing) if j > i + 1}
    if rm_iso:
        while True:
            iso = {(i, j) for (i, j) in want if (i - 1, j + 1) not in want and (i + 1, j - 1) not in want}
            if not iso:
                break
            want -= iso
    try:
        got = {(i + 1, j + 1) for i, j in DotBracket.from_string(pseq, pdb).pairs}
    except Exception as e:
        return [f"printed dot-bracket does not decode: {type(e).__name__}"]
    if not rm_pk and got != want:
        errs.append(f"printed dot-bracket decodes to {sorted(got)} instead of {sorted(want)}")
    if rm_pk and (not got <= want or any(c not in "()." for c in pdb)):
        errs.append(f"printed dot-bracket {pdb!r} after --remove-pseudoknots is not a round-bracket subset of the structure")
    for ln in lines[3:]:
        tok = ln.split(" ")
        kind, rest = tok[0], tok[1:]
        if kind not in ("Stem", "SingleStrand", "SingleStrand5p", "SingleStrand3p", "Hairpin", "Loop") or len(rest) % 4:
            errs.append(f"unexpected element line {ln!r}")
            continue
        strands = [(int(rest[k]), int(rest[k + 1]), rest[k + 2], rest[k + 3]) for k in range(0, len(rest), 4)]
        for first, last, sq, st in strands:
            if sq != pseq[first - 1:last] or st != pdb[first - 1:last]:
                errs.append(f"{kind} strand {first}-{last} {sq} {st}: not the slices of the printed sequence / dot-bracket")
        if kind == "Stem" and len(strands) == 2:
            (f5, l5, _, _), (f3, l3, _, _) = strands
            if any((f5 + t, l3 - t) not in got for t in range(l5 - f5 + 1)):
                errs.append(f"Stem {f5}-{l5}/{f3}-{l3}: not pairs of the printed dot-bracket")
    return errs[:5]


def replay(inp):
    if inp.get("check") == "command-line-tool":
        errs = cli_check(inp["case"])
        return {"fails": bool(errs), "errors": errs[:3]}
    errs = O.c07_check(tuple(inp["case"]))
    return {"fails": bool(errs), "errors": errs[:3]}
