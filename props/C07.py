"""C07 Structural elements decompose the secondary structure consistently"""
from gen.pairings import pairings_upto, random_structure, stems_of
from oracles import common_o as O
from props._util import rng_for, run_cases

LEVEL = "other"
DEDUCTIVE = []
TRUSTED = ["CPython 3.12"]
ASSUMPTIONS = []
EXPLANATION = "see DESIGN.md 4/C07"


def bounded(tier, seed):
    nmax = 8 if tier == "quick" else 10
    rng = rng_for(seed, "c07")
    out = [run_cases("all-pairings", pairings_upto(nmax), O.c07_check, lambda p: len(stems_of(p)) >= 2,
                     f"every pairing N<={nmax}: elements against the definitions of stem / hairpin / loop / single strand; non-trivial = >=2 stems",
                     f"N<={nmax}", sig=lambda p: "".join(map(str, p)) if max(p, default=0) < 10 else repr(p), relates="elements")]
    rnd = [random_structure(rng, rng.randint(14, 60), rng.randint(2, 7), maxlen=4) for _ in range(80 if tier == "quick" else 1500)]
    out.append(run_cases("random", rnd, O.c07_check, lambda p: len(stems_of(p)) >= 2, "random nested/knotted structures N<=60",
                         f"{len(rnd)} structures", sig=repr, relates="elements"))
    return out


def replay(inp):
    errs = O.c07_check(tuple(inp["case"]))
    return {"fails": bool(errs), "errors": errs[:3]}
