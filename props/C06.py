"""C06 3D-to-2D mapping gives a valid matching and faithful text for any pair list"""
import os

from gen import structures as G
from oracles import mapping_o as M
from props._util import rng_for, run_cases

LEVEL = "other"
DEDUCTIVE = [{"module": "rnapolis.tertiary", "sidecar": "contracts.mapping_c",
              "targets": ["Mapping2D3D.__generate_bpseq", "Mapping2D3D._generated_bpseq_data", "Mapping2D3D.base_pairs@body",
                          "BasePair3D.reverse", "Structure3D.find_residue@body"]},
             {"module": "rnapolis.tertiary", "sidecar": "contracts.mapping_ext_c",
              "targets": ["Mapping2D3D.extended_dot_bracket", "Mapping2D3D.__generate_dot_bracket_per_strand",
                          "Mapping2D3D.dot_bracket", "Mapping2D3D.bpseq@body",
                          "Mapping2D3D.strands_sequences@body", "Mapping2D3D.__generate_bpseq@numbering", "lemma:same_numbering",
                          "Mapping2D3D.all_dot_brackets"]},
             # the orientation nt1 < nt2 by which canonical pairs are selected (conflict resolution, rows of the extended dot-bracket)
             # is the residue order: the contract of C05 / C04 (lexicographic on model, chain, number, insertion code)
             {"module": "rnapolis.tertiary", "sidecar": "contracts.annotator_c", "targets": ["Residue3D.__lt__"]}]
TRUSTED = ["CPython 3.12", "z3 5.1.0 / cvc5 1.0.3", "pyvc encoding of Python semantics (DESIGN 2.3)",
           "the MILP path of BpSeq.dot_bracket (C02)",
           "external (contracts.mapping_c EXTERNALS) builtins.sorted on a set: returns a list holding exactly the members of the set, each once; "
           "the ordering clause is NOT assumed (arbitrary permutation: over-approximates sorted()); its key function raises nothing",
           "external (contracts.mapping_c EXTERNALS) collections.defaultdict(set): empty dict whose missing-key read inserts set()",
           "attr:BasePair3D.is_canonical (PURE_ATTRS): a pure function of the frozen record value; nothing else about it is used",
           "contracts.mapping_ext_c uses the same two externals (defaultdict, sorted on a set) for Mapping2D3D.bpseq@body and introduces no new one",
           "BpSeq.dot_bracket of common.py (C02) as read by Mapping2D3D.dot_bracket / extended_dot_bracket: a model field of the BpSeq object holding a DotBracket with a str `structure`; nothing about that text is assumed",
           "external (contracts.mapping_ext_c EXTERNALS) str.join, only as '\\n'.join(<list of str>): a str that is a deterministic function of the list (uninterpreted py_join of length and elements); nothing else about the joined text is assumed (used by Mapping2D3D.dot_bracket and all_dot_brackets; spec name join_nl)",
           "BpSeq.all_dot_brackets of common.py (C16) as read by Mapping2D3D.all_dot_brackets: a model field of the BpSeq object holding a list of DotBracket objects; nothing about the texts is assumed",
           "pyvc: write-back of a mutated list through a tuple component (`result[-1][1].append(x)`: engine.assign_to, Load-context access path only; a real item store into a tuple stays unsupported) - value semantics, exact as long as the component list has no alias; cross-checked against CPython on 72 evaluations of two bodies"]
ASSUMPTIONS = ["each residue is named the same way (label+auth, label only, or auth only) throughout one pair list; orientation of a pair (which residue is first, hence which of cWH / cHW labels its row) follows the order of the names the list carries",
               "pair lists name nucleotide residues; self pairs are not generated (requires no_self_pairs: an entry whose two residues both resolve never resolves them to the same 3D residue); Saenger labels are a function of (bases, class) within one list",
               "structure: the nucleotide residues of Structure3D.residues are pairwise different values (==), i.e. usable as distinct dict keys (requires distinct_nucleotides)",
               "structure: every residue has a label or an auth identifier (Residue.number is an int, Residue.chain a str, never None)",
               "frozen dataclasses Residue3D / Residue / ResidueLabel / ResidueAuth and the Enum LeontisWesthof are modelled as interned values: == is identity of the value, every attribute (incl. the properties chain/number/icode, the cached_property is_nucleotide, LeontisWesthof.reverse) is a pure function of the value; the converse 'equal modelled fields => equal value' is not assumed",
               "assumed callee contract Residue3D.is_connected: a pure boolean function of the two residues (uninterpreted `connected`)",
               "Residue.__lt__ (common.py) is a pure boolean relation of the two residues (uninterpreted `res_lt`); nothing else about it is used",
               "cached_property rule: Mapping2D3D.base_pairs is a deterministic function of the unchanged object - its value is the model field base_pairs_value (clause `result == self.base_pairs_value` of the callee contract; every other clause of that contract is proved against the body as Mapping2D3D.base_pairs@body)",
               "Optional[Saenger] is only copied/compared by the code under contract: modelled as an opaque scalar",
               "BpSeq.__post_init__ (common.py) is not modelled: BpSeq.pairs of the returned object is unconstrained; it cannot raise on Entry rows",
               "the clause 'keeps every canonical pair that conflicts with no other' is stated for the entry in 5'->3' orientation (nt1 < nt2 by Residue.__lt__); both orientations are always in Mapping2D3D.base_pairs (proved), an entry whose two residues are not strictly ordered either way (same chain, number, icode) is not covered",
               "set iteration order is arbitrary in the engine; which of two conflicting pairs survives is deliberately unspecified (the property does not say)",
               "(mapping_ext_c) cached_property rule, as for base_pairs: Mapping2D3D.strands_sequences read by a caller is the model field strands_value (assumed callee contract strands_callee; the body is under the prefix contract Mapping2D3D.strands_sequences@body, see EXPLANATION (8)), Mapping2D3D.bpseq read by a caller is the model field bpseq_value (clause `result == self.bpseq_value`; the other clauses are proved against the body as Mapping2D3D.bpseq@body)",
               "(mapping_ext_c) Mapping2D3D.strand_offsets is a specification-only field: requires offsets_ok pins it to the prefix sums of the strand lengths of strands_value (always satisfiable, restricts no input)",
               "(mapping_ext_c) rows / used_in_row of extended_dot_bracket hold list / set OBJECTS with identity (classes PairRow 'boxed_list', ResSet 'boxed_set'): every `[]` / `set()` display assigned to row / used creates a new heap object, row.append / used.add write that object's content field, aliases (elements of rows / used_in_row, the zip loop variables) denote the same object",
               "(mapping_ext_c) LeontisWesthof is the real Enum class there (`for lw in LeontisWesthof` runs over its 18 members in definition order as a symbolic member, lw.value is the member's real value); the field lw of BasePair / BasePair3D is declared enum[LeontisWesthof] (ordinal) and ENUM_ORDINAL_EQ makes `base_pair.lw == lw` the comparison of ordinals",
               "(mapping_ext_c) assumed callee contracts, each PROVED as a target of this property in contracts.mapping_c and not re-proved under the class table of mapping_ext_c (which differs only in the representation of the field lw, which none of them reads): Mapping2D3D.__generate_bpseq, Mapping2D3D._generated_bpseq_data, Mapping2D3D.base_pairs, Residue3D.is_connected",
               "(mapping_ext_c) a row (list object) passed to __generate_bpseq stands for its content at the time of the call; the engine checks syntactically that the callee's body neither changes nor passes on that parameter",
               "(mapping_ext_c) extended_dot_bracket is under a PREFIX contract: verified up to, not including, the final '\\n'.join of the table of lines; the returned string itself is not under contract (dot_bracket and all_dot_brackets are under full contracts: the returned text is py_join of the proved lines)",
               "(mapping_ext_c) strands_sequences@body is a PREFIX contract: verified up to, not including, the final comprehension [(chain, ''.join(sequence)) ...]; the clauses speak of the local list of (chain, list of pieces). That text t of strands_value is the concatenation of the pieces of strand t - and hence as long as the number of pieces exactly when every one-letter name has length one (Residue3D.one_letter_name is a str field; the readers only ever store one character) - is NOT proved by the engine (join over a symbolic list)",
               "(mapping_ext_c) the inner lists of strands_sequences (`[name]` displays inside the tuples appended to `result`) are modelled with value semantics and write-back through the access path result[-1][1]; exact because each list is created by its own display, is reachable only through its tuple in `result`, and no alias of it is ever taken (syntactic observation on the body)",
               "(mapping_ext_c) Mapping2D3D.__generate_bpseq@numbering re-proves the body of __generate_bpseq under the class table of mapping_ext_c as a PREFIX contract (cut at the final return) and states the numbering rule over its locals; that strands_sequences and __generate_bpseq agree (same positions, same total length) follows from the two proved at-stop statements - the same start, the same step 1 + gapcount over the same filtered nucleotide list - by the SMT lemma same_numbering (induction, proved); instantiating the lemma with the two statements is a meta-level step (no function has both sets of locals in scope), not an engine proof"]
EXPLANATION = ("Deductive (pyvc, sidecar contracts/mapping_c.py, real source re-read on every run): "
               "(1) Mapping2D3D.__generate_bpseq(base_pairs) under `requires` distinct nucleotides + the pair list is a matching over 3D residues: "
               "entries are numbered 1..N (index_ == position), the BPSEQ is valid (pair in range, != self, symmetric => at most one partner), every numbered "
               "index carries the one-letter name of its residue and every other index is an unpaired '?', the numbered residues are exactly the nucleotide "
               "residues of the structure, each once, in file order, with exactly max(0, dnumber-1) placeholders between neighbours where gap detection fires "
               "(find_gaps and not is_connected and same chain) and none elsewhere, a non-empty BPSEQ starts and ends with a nucleotide; every pairing joins the "
               "residues of a list entry and every list entry with both residues numbered is present; the BpSeq object is fresh. "
               "(2) Mapping2D3D._generated_bpseq_data: conflict resolution (while True / for-else, decreases len(canonical)) keeps canonical a duplicate-free "
               "sub-list of the canonical input pairs, every dropped pair has a competitor for one of its residues, at exit no residue occurs in two pairs - "
               "the `requires` of (1) is PROVED at the call site - and the result has all structural clauses of (1) plus: every pairing comes from a canonical "
               "pair of Mapping2D3D.base_pairs; every canonical pair (orientation nt1<nt2) that no canonical entry competes with is present. "
               "(3) Mapping2D3D.base_pairs (lifting): the result is duplicate-free, consists only of liftings / reversed liftings of input entries whose two "
               "residues resolve (dangling entries dropped), contains the lifting and its reverse of every such entry, has no self pairs; BasePair3D.reverse "
               "swaps the residues and reverses the class; Structure3D.find_residue returns the residue registered under the label, else under the auth id, else None. "
               "NOT under contract (bounded stand-in only): the final comprehension of strands_sequences that joins every strand's pieces into its text, the final join of extended_dot_bracket, "
               "and the link from a BPSEQ to its dot-bracket text (BpSeq.dot_bracket: C02; BpSeq.all_dot_brackets: C16). Order of first occurrence in base_pairs is not proved. "
               "(4) second sidecar contracts/mapping_ext_c.py (vocabulary of mapping_c imported): Mapping2D3D.extended_dot_bracket, prefix contract up to the final join, `rows` / `used_in_row` as lists of list / set objects with identity, "
               "the loop over LeontisWesthof symbolic in the class. Invariants of the pair loop, each a named obligation: the row / set objects are pairwise distinct and created by the loop; every row is non-empty and a MATCHING over the 3D residues "
               "(no residue in two of its pairs, no self pair) - so the precondition matching(row) of __generate_bpseq is PROVED at the call site (the clause both repaired defects dd9a38e / 0e0063f broke), and by (1) each row's BPSEQ is valid and "
               "holds every pair of the row whose residues are numbered; the set kept beside a row covers every residue of the row; rows hold only given pairs of the current class in orientation nt1 < nt2; every such pair of Mapping2D3D.base_pairs "
               "is in some row (ghost witness arrays, restated as an exists at loop exit: `every-wanted-pair-is-in-a-row`); no pair is drawn twice (neither in two rows nor twice in one). At the stop point: one block of lines per strand, "
               "headed by '    >strand_<chain>' and 'seq <sequence>', all blocks equally long; line 2+k of block t is '<class value> ' + piece k,t; piece k,t is the slice of the k-th printed row's text at the strand's offset and of the strand's length "
               "('as long as the sequence'); that text is the dot_bracket.structure of a BPSEQ object that is valid (symmetric, in range: no index carries two partners). "
               "(5) __generate_dot_bracket_per_strand(text): one text per strand, the t-th being text[offset_t : offset_t + len(sequence_t)], offsets = prefix sums of the strand lengths ('the per-strand text concatenates to exactly that sequence and matching' at the level of slices). "
               "(6) dot_bracket (full contract): the returned text is the newline-join (uninterpreted py_join) of the lines LINES, three per strand - '>strand_<chain>', the sequence, the strand's slice of self.bpseq.dot_bracket.structure. "
               "(7) bpseq wrapper (@body): its copy of the conflict-resolution loop terminates and raises nothing; the result (first component of _generated_bpseq_data) is numbered 1..N and a valid BPSEQ. "
               "(8) strands_sequences@body (prefix contract up to the final joining comprehension; the in-place `result[-1][1].append(..)` on a list inside a tuple is executed by a generic engine handler): at the cut, with NU the nucleotide residues in file order "
               "(filtered), FLAT the pieces of all strands one after the other, OFF the strands' start offsets: OFF are the prefix sums of the strands' lengths and len(FLAT) their total ('the concatenation'), no strand is empty; nucleotide k stands at FLAT[POS[k]] with its "
               "one-letter name, POS[0] == 0 and POS[k+1] == POS[k] + 1 + gapcount(NU[k], NU[k+1]) - exactly max(0, dnumber-1) placeholders where find_gaps and not is_connected and same chain, none elsewhere - and len(FLAT) == POS[last] + 1; every position of FLAT that is "
               "not a POS[k] holds '?'; nucleotide k lies in strand ST[k] whose chain is its chain, ST[0] == 0 and ST grows by one exactly where the chain changes (one entry per maximal run of one chain; gap-filled neighbours stay in one entry), len(result) == ST[last] + 1. "
               "(9) __generate_bpseq@numbering (prefix variant at the final return, same invariants as (1)): the rows are 1..N, NUMBERS[NU[0]] == 1, NUMBERS[NU[k+1]] == NUMBERS[NU[k]] + 1 + gapcount(NU[k], NU[k+1]), N == NUMBERS[NU[last]], row x carries the name of its residue "
               "or '?' - the same rule as (8) shifted by one, over the same NU; lemma same_numbering (SMT, induction): two sequences with A[0] == B[0] + 1 and equal steps satisfy A[k] == B[k] + 1, so POS[k] + 1 == NUMBERS[NU[k]], len(FLAT) == N and FLAT is the sequence column "
               "(the instantiation across the two functions is meta-level, see ASSUMPTIONS). "
               "(10) all_dot_brackets (full contract): one text per member of self.bpseq.all_dot_brackets, in order; text d is py_join of the lines LN[d], which are per strand the header, the sequence and the strand's slice of member d's structure (cut exactly like dot_bracket).")

# glue functions of the property's observe_at list (contracts/glue_c.py; texts shared in props/_glue_text.py)
from props import _glue_text as _GT
DEDUCTIVE += [{"module": "rnapolis.adapter", "sidecar": "contracts.glue_c",
               "targets": ["extract_secondary_structure_from_external", "parse_external_output", "process_external_tool_output"]},
              {"module": "rnapolis.annotator", "sidecar": "contracts.glue_c", "targets": ["extract_base_interactions", "extract_secondary_structure"]}]
TRUSTED = list(TRUSTED) + _GT.TRUSTED
ASSUMPTIONS = list(ASSUMPTIONS) + _GT.ASSUMPTIONS
EXPLANATION = EXPLANATION + _GT.C06


def bounded(tier, seed):
    rng = rng_for(seed, "c06")
    paths = [p for p in G.corpus("quick") if os.path.getsize(p) < 300000]
    n = 10 if tier == "quick" else 120
    cases = [(p, rng.randrange(10 ** 9), fg, ws) for p in paths for fg in (False, True) for ws in (False, True) for _ in range(max(1, n // 4))]
    return [run_cases("pair-lists", cases, M.check_case, lambda c: True,
                      "corpus structures x generated pair lists (random pairs over 10 LW classes, a hub residue with 3-4 partners in one class, exact and reversed duplicates, dangling entries) with/without gap detection and with/without Saenger labels; BPSEQ, per-strand dot-bracket and extended rows checked against the definitions",
                      f"{len(cases)} (structure, list) cases", sig=lambda c: f"{os.path.basename(c[0])}:{c[1]}:{c[2]}:{c[3]}", relates="Mapping2D3D")]


def replay(inp):
    errs = M.check_case(tuple(inp["case"]))
    return {"fails": bool(errs), "errors": errs[:3]}
