"""C06 3D-to-2D mapping gives a valid matching and faithful text for any pair list"""
import os

from gen import structures as G
from oracles import mapping_o as M
from props._util import rng_for, run_cases

LEVEL = "other"
DEDUCTIVE = [{"module": "rnapolis.tertiary", "sidecar": "contracts.mapping_c",
              "targets": ["Mapping2D3D.__generate_bpseq", "Mapping2D3D._generated_bpseq_data", "Mapping2D3D.base_pairs@body",
                          "BasePair3D.reverse", "Structure3D.find_residue@body"]}]
TRUSTED = ["CPython 3.12", "the MILP path of BpSeq.dot_bracket (C02)"]
ASSUMPTIONS = ["pair lists name nucleotide residues; self pairs are not generated; Saenger labels are a function of (bases, class) within one list"]
EXPLANATION = "see DESIGN.md 4/C06"


def bounded(tier, seed):
    rng = rng_for(seed, "c06")
    paths = [p for p in G.corpus("quick") if os.path.getsize(p) < 300000]
    n = 10 if tier == "quick" else 120
    cases = [(p, rng.randrange(10 ** 9), fg, ws) for p in paths for fg in (False, True) for ws in (False, True) for _ in range(max(1, n // 4))]
    return [run_cases("pair-lists", cases, M.check_case, lambda c: True,
                      "corpus structures x generated pair lists (random pairs over 10 LW classes, a hub residue with 3-4 partners in one class, exact and reversed duplicates, dangling entries) with/without gap detection and with/without Saenger labels; BPSEQ, per-strand dot-bracket and extended rows checked against the definitions",
                      f"{len(cases)} (structure, list) cases", sig=lambda c: f"{os.path.basename(c[0])}:{c[1]}:{c[2]}:{c[3]}", relates="Mapping2D3D")]


def replay(inp):
    errs = M.check_case(tuple(inp["case"]))
    return {"fails": bool(errs), "errors": errs[:3]}
