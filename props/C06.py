"""C06 3D-to-2D mapping gives a valid matching and faithful text for any pair list"""
import os

from gen import structures as G
from oracles import mapping_o as M
from props._util import rng_for, run_cases

LEVEL = "other"
DEDUCTIVE = [{"module": "rnapolis.tertiary", "sidecar": "contracts.mapping_c",
              "targets": ["Mapping2D3D.__generate_bpseq", "Mapping2D3D._generated_bpseq_data", "Mapping2D3D.base_pairs@body",
                          "BasePair3D.reverse", "Structure3D.find_residue@body"]},
             {"module": "rnapolis.tertiary", "sidecar": "contracts.mapping_ext_c",
              "targets": ["Mapping2D3D.extended_dot_bracket", "Mapping2D3D.__generate_dot_bracket_per_strand",
                          "Mapping2D3D.dot_bracket", "Mapping2D3D.bpseq@body",
                          "Mapping2D3D.strands_sequences@body", "Mapping2D3D.__generate_bpseq@numbering", "lemma:same_numbering",
                          "Mapping2D3D.all_dot_brackets"]},
             # the orientation nt1 < nt2 by which canonical pairs are selected (conflict resolution, rows of the extended dot-bracket)
             # is the residue order: the contract of C05 / C04 (lexicographic on model, chain, number, insertion code)
             {"module": "rnapolis.tertiary", "sidecar": "contracts.annotator_c", "targets": ["Residue3D.__lt__"]}]
TRUSTED = ["CPython 3.12", "z3 5.1.0 / cvc5 1.0.3", "pyvc encoding of Python semantics (DESIGN 2.3)",
           "the MILP path of BpSeq.dot_bracket (C02)",
           "external (contracts.mapping_c EXTERNALS) builtins.sorted on a set: returns a list holding exactly the members of the set, each once; "
           "the ordering clause is NOT assumed (arbitrary permutation: over-approximates sorted()); its key function raises nothing",
           "external (contracts.mapping_c EXTERNALS) collections.defaultdict(set): empty dict whose missing-key read inserts set()",
           "attr:BasePair3D.is_canonical (PURE_ATTRS): a pure function of the frozen record value; nothing else about it is used",
           "contracts.mapping_ext_c uses the same two externals (defaultdict, sorted on a set) for Mapping2D3D.bpseq@body and introduces no new one",
           "BpSeq.dot_bracket of common.py (C02) as read by Mapping2D3D.dot_bracket / extended_dot_bracket: a model field of the BpSeq object holding a DotBracket with a str `structure`; nothing about that text is assumed"]
ASSUMPTIONS = ["each residue is named the same way (label+auth, label only, or auth only) throughout one pair list; orientation of a pair (which residue is first, hence which of cWH / cHW labels its row) follows the order of the names the list carries",
               "pair lists name nucleotide residues; self pairs are not generated (requires no_self_pairs: an entry whose two residues both resolve never resolves them to the same 3D residue); Saenger labels are a function of (bases, class) within one list",
               "structure: the nucleotide residues of Structure3D.residues are pairwise different values (==), i.e. usable as distinct dict keys (requires distinct_nucleotides)",
               "structure: every residue has a label or an auth identifier (Residue.number is an int, Residue.chain a str, never None)",
               "frozen dataclasses Residue3D / Residue / ResidueLabel / ResidueAuth and the Enum LeontisWesthof are modelled as interned values: == is identity of the value, every attribute (incl. the properties chain/number/icode, the cached_property is_nucleotide, LeontisWesthof.reverse) is a pure function of the value; the converse 'equal modelled fields => equal value' is not assumed",
               "assumed callee contract Residue3D.is_connected: a pure boolean function of the two residues (uninterpreted `connected`)",
               "Residue.__lt__ (common.py) is a pure boolean relation of the two residues (uninterpreted `res_lt`); nothing else about it is used",
               "cached_property rule: Mapping2D3D.base_pairs is a deterministic function of the unchanged object - its value is the model field base_pairs_value (clause `result == self.base_pairs_value` of the callee contract; every other clause of that contract is proved against the body as Mapping2D3D.base_pairs@body)",
               "Optional[Saenger] is only copied/compared by the code under contract: modelled as an opaque scalar",
               "BpSeq.__post_init__ (common.py) is not modelled: BpSeq.pairs of the returned object is unconstrained; it cannot raise on Entry rows",
               "the clause 'keeps every canonical pair that conflicts with no other' is stated for the entry in 5'->3' orientation (nt1 < nt2 by Residue.__lt__); both orientations are always in Mapping2D3D.base_pairs (proved), an entry whose two residues are not strictly ordered either way (same chain, number, icode) is not covered",
               "set iteration order is arbitrary in the engine; which of two conflicting pairs survives is deliberately unspecified (the property does not say)",
               "(mapping_ext_c) cached_property rule, as for base_pairs: Mapping2D3D.strands_sequences read by a caller is the model field strands_value (assumed callee contract strands_callee; the BODY of strands_sequences is not under contract), Mapping2D3D.bpseq read by a caller is the model field bpseq_value (clause `result == self.bpseq_value`; the other clauses are proved against the body as Mapping2D3D.bpseq@body)",
               "(mapping_ext_c) Mapping2D3D.strand_offsets is a specification-only field: requires offsets_ok pins it to the prefix sums of the strand lengths of strands_value (always satisfiable, restricts no input)",
               "(mapping_ext_c) rows / used_in_row of extended_dot_bracket hold list / set OBJECTS with identity (classes PairRow 'boxed_list', ResSet 'boxed_set'): every `[]` / `set()` display assigned to row / used creates a new heap object, row.append / used.add write that object's content field, aliases (elements of rows / used_in_row, the zip loop variables) denote the same object",
               "(mapping_ext_c) LeontisWesthof is the real Enum class there (`for lw in LeontisWesthof` runs over its 18 members in definition order as a symbolic member, lw.value is the member's real value); the field lw of BasePair / BasePair3D is declared enum[LeontisWesthof] (ordinal) and ENUM_ORDINAL_EQ makes `base_pair.lw == lw` the comparison of ordinals",
               "(mapping_ext_c) assumed callee contracts, each PROVED as a target of this property in contracts.mapping_c and not re-proved under the class table of mapping_ext_c (which differs only in the representation of the field lw, which none of them reads): Mapping2D3D.__generate_bpseq, Mapping2D3D._generated_bpseq_data, Mapping2D3D.base_pairs, Residue3D.is_connected",
               "(mapping_ext_c) a row (list object) passed to __generate_bpseq stands for its content at the time of the call; the engine checks syntactically that the callee's body neither changes nor passes on that parameter",
               "(mapping_ext_c) extended_dot_bracket and dot_bracket are under PREFIX contracts: verified up to, not including, the final '\\n'.join of the table of lines; the returned string itself is not under contract"]
EXPLANATION = ("Deductive (pyvc, sidecar contracts/mapping_c.py, real source re-read on every run): "
               "(1) Mapping2D3D.__generate_bpseq(base_pairs) under `requires` distinct nucleotides + the pair list is a matching over 3D residues: "
               "entries are numbered 1..N (index_ == position), the BPSEQ is valid (pair in range, != self, symmetric => at most one partner), every numbered "
               "index carries the one-letter name of its residue and every other index is an unpaired '?', the numbered residues are exactly the nucleotide "
               "residues of the structure, each once, in file order, with exactly max(0, dnumber-1) placeholders between neighbours where gap detection fires "
               "(find_gaps and not is_connected and same chain) and none elsewhere, a non-empty BPSEQ starts and ends with a nucleotide; every pairing joins the "
               "residues of a list entry and every list entry with both residues numbered is present; the BpSeq object is fresh. "
               "(2) Mapping2D3D._generated_bpseq_data: conflict resolution (while True / for-else, decreases len(canonical)) keeps canonical a duplicate-free "
               "sub-list of the canonical input pairs, every dropped pair has a competitor for one of its residues, at exit no residue occurs in two pairs - "
               "the `requires` of (1) is PROVED at the call site - and the result has all structural clauses of (1) plus: every pairing comes from a canonical "
               "pair of Mapping2D3D.base_pairs; every canonical pair (orientation nt1<nt2) that no canonical entry competes with is present. "
               "(3) Mapping2D3D.base_pairs (lifting): the result is duplicate-free, consists only of liftings / reversed liftings of input entries whose two "
               "residues resolve (dangling entries dropped), contains the lifting and its reverse of every such entry, has no self pairs; BasePair3D.reverse "
               "swaps the residues and reverses the class; Structure3D.find_residue returns the residue registered under the label, else under the auth id, else None. "
               "NOT under contract (bounded stand-in only): the body of strands_sequences (agreement of its gap computation with the BPSEQ numbering; its value is a model field for the callers), "
               "all_dot_brackets, the final '\\n'.join of dot_bracket / extended_dot_bracket, and the link from a BPSEQ to its dot-bracket text (BpSeq.dot_bracket: C02). Order of first occurrence in base_pairs is not proved. "
               "(4) second sidecar contracts/mapping_ext_c.py (vocabulary of mapping_c imported): Mapping2D3D.extended_dot_bracket, prefix contract up to the final join, `rows` / `used_in_row` as lists of list / set objects with identity, "
               "the loop over LeontisWesthof symbolic in the class. Invariants of the pair loop, each a named obligation: the row / set objects are pairwise distinct and created by the loop; every row is non-empty and a MATCHING over the 3D residues "
               "(no residue in two of its pairs, no self pair) - so the precondition matching(row) of __generate_bpseq is PROVED at the call site (the clause both repaired defects dd9a38e / 0e0063f broke), and by (1) each row's BPSEQ is valid and "
               "holds every pair of the row whose residues are numbered; the set kept beside a row covers every residue of the row; rows hold only given pairs of the current class in orientation nt1 < nt2; every such pair of Mapping2D3D.base_pairs "
               "is in some row (ghost witness arrays, restated as an exists at loop exit: `every-wanted-pair-is-in-a-row`); no pair is drawn twice (neither in two rows nor twice in one). At the stop point: one block of lines per strand, "
               "headed by '    >strand_<chain>' and 'seq <sequence>', all blocks equally long; line 2+k of block t is '<class value> ' + piece k,t; piece k,t is the slice of the k-th printed row's text at the strand's offset and of the strand's length "
               "('as long as the sequence'); that text is the dot_bracket.structure of a BPSEQ object that is valid (symmetric, in range: no index carries two partners). "
               "(5) __generate_dot_bracket_per_strand(text): one text per strand, the t-th being text[offset_t : offset_t + len(sequence_t)], offsets = prefix sums of the strand lengths ('the per-strand text concatenates to exactly that sequence and matching' at the level of slices). "
               "(6) dot_bracket (prefix contract): three lines per strand - '>strand_<chain>', the sequence, the strand's slice of self.bpseq.dot_bracket.structure. "
               "(7) bpseq wrapper (@body): its copy of the conflict-resolution loop terminates and raises nothing; the result (first component of _generated_bpseq_data) is numbered 1..N and a valid BPSEQ.")

def bounded(tier, seed):
    rng = rng_for(seed, "c06")
    paths = [p for p in G.corpus("quick") if os.path.getsize(p) < 300000]
    n = 10 if tier == "quick" else 120
    cases = [(p, rng.randrange(10 ** 9), fg, ws) for p in paths for fg in (False, True) for ws in (False, True) for _ in range(max(1, n // 4))]
    return [run_cases("pair-lists", cases, M.check_case, lambda c: True,
                      "corpus structures x generated pair lists (random pairs over 10 LW classes, a hub residue with 3-4 partners in one class, exact and reversed duplicates, dangling entries) with/without gap detection and with/without Saenger labels; BPSEQ, per-strand dot-bracket and extended rows checked against the definitions",
                      f"{len(cases)} (structure, list) cases", sig=lambda c: f"{os.path.basename(c[0])}:{c[1]}:{c[2]}:{c[3]}", relates="Mapping2D3D")]


def replay(inp):
    errs = M.check_case(tuple(inp["case"]))
    return {"fails": bool(errs), "errors": errs[:3]}
