"""C05 Annotation depends only on internal geometry and identity, not on presentation"""
import os
import random
import tempfile

import numpy as np

from gen import emit, structures as G
from props._util import make_replay, rng_for

LEVEL = "other"
DEDUCTIVE = []
TRUSTED = ["numpy", "scipy KD-tree", "mmcif reader", "CPython 3.12"]
ASSUMPTIONS = ["A-order: the iteration order of query_pairs' result is a function of the set of index pairs (DESIGN 4/C05)",
               "A-real: equality of decisions under rigid motion up to the property's 1e-6 margins"]
EXPLANATION = "see DESIGN.md 4/C05"


def summary(structure, back=lambda k: k):
    """canonical annotation + secondary structure; `back` maps renamed identifiers back to the original ones"""
    from rnapolis.annotator import extract_secondary_structure

    def rid(nt):
        r = structure.find_residue(nt.label, nt.auth)
        return back((r.chain, r.number, r.icode))
    s2d, dbs = extract_secondary_structure(structure, None, False, False)
    bi = s2d.baseInteractions
    return {
        "pairs": [(rid(b.nt1), rid(b.nt2), b.lw.value, b.saenger.value if b.saenger else None) for b in bi.basePairs],
        "stackings": [(rid(b.nt1), rid(b.nt2), b.topology.value) for b in bi.stackings],
        "bph": sorted((rid(b.nt1), rid(b.nt2), b.bph.value) for b in bi.basePhosphateInteractions),
        "br": sorted((rid(b.nt1), rid(b.nt2), b.br.value) for b in bi.baseRiboseInteractions),
        "bpseq": s2d.bpseq, "dot": [l for l in s2d.dotBracket.splitlines() if not l.startswith(">")],
        "ext": [l for l in s2d.extendedDotBracket.splitlines() if ">strand" not in l],
    }


def diff(a, b):
    for k in a:
        if a[k] != b[k]:
            x = [i for i in a[k] if i not in b[k]][:2] if isinstance(a[k], list) else a[k]
            y = [i for i in b[k] if i not in a[k]][:2] if isinstance(b[k], list) else b[k]
            return f"{k} differs: only before {str(x)[:160]} / only after {str(y)[:160]}"
    return None


def rename(structure, rng):
    """order-preserving renaming of chains and residue numbers"""
    from rnapolis.common import ResidueAuth, ResidueLabel
    chains = sorted({x.chain for r in structure.residues for x in (r.label, r.auth) if x is not None})
    pool = sorted(rng.sample([c + d for c in "ABCDEFGHKMPQRSTXYZ" for d in ["", "1", "x"]], len(chains)))
    cmap = dict(zip(chains, pool))
    off, mul = rng.randint(-50, 500), rng.choice([1, 1, 2, 3])
    inv = {}

    def ident(label, auth):
        nl = ResidueLabel(cmap[label.chain], label.number * mul + off, label.name) if label is not None else None
        na = ResidueAuth(cmap[auth.chain], auth.number * mul + off, auth.icode, auth.name) if auth is not None else None
        return nl, na
    s2 = G.rebuild(structure, ident_fn=ident)
    for r, r2 in zip(structure.residues, s2.residues):
        inv[(r2.chain, r2.number, r2.icode)] = (r.chain, r.number, r.icode)
    return s2, (lambda k: inv[k])


def via_file(structure, fmt):
    from rnapolis.parser import read_3d_structure
    recs = emit.from_structure(structure)
    text = emit.to_pdb(recs) if fmt == "pdb" else emit.to_cif(recs)
    with tempfile.NamedTemporaryFile("w", suffix="." + fmt, delete=False) as f:
        f.write(text)
        p = f.name
    try:
        with open(p) as fh:
            return read_3d_structure(fh)
    finally:
        os.unlink(p)


def fits_pdb(s):
    return all(len(r.chain.strip()) == 1 and -999 <= r.number <= 9999 and len(r.name) <= 3 and all(len(a.name) <= 4 for a in r.atoms) for r in s.residues) \
        and sum(len(r.atoms) for r in s.residues) < 99999


def bounded(tier, seed):
    rng = rng_for(seed, "c05")
    ev, nt, viol, samples = 0, 0, [], []

    def report(tag, what, msg):
        if msg and len(viol) < 5:
            viol.append({"what": f"{tag} [{what}]: {msg}"[:300], "signature": f"{what}:{tag}", "relates": "find_pairs|find_stackings|parse",
                         "input": {"check": "presentation", "case": [tag, what], "seed": seed, "tier": tier}})
    paths = [p for p in G.corpus(tier) if os.path.getsize(p) < (400000 if tier == "quick" else 10 ** 9)]
    for path in paths:
        tag = os.path.basename(path)
        s = G.load(path)
        try:
            base = summary(s)
        except Exception as e:
            report(tag, "baseline", f"raised {type(e).__name__}: {e}")
            continue
        nt += len(base["pairs"]) > 0
        reps = 2 if tier == "quick" else 6
        for k in range(reps):
            ev += 1
            moved = G.rigid(s, rng, max_t=500.0, axis_perm=(k == 0))
            report(tag, f"rigid{k}", diff(base, summary(moved)))
            if fits_pdb(s):
                # the same (moved, 3-decimal) atoms through both file formats
                ev += 1
                try:
                    a, b = summary(via_file(moved, "pdb")), summary(via_file(moved, "cif"))
                    report(tag, f"pdb-vs-cif{k}", diff(a, b))
                    if k == 0:
                        report(tag, "file-vs-memory", diff(summary(via_file(s, "cif")), summary(G.rebuild(s, atom_fn=lambda a_: (round(a_.x, 3), round(a_.y, 3), round(a_.z, 3))))))
                except Exception as e:
                    report(tag, f"pdb-vs-cif{k}", f"raised {type(e).__name__}: {e}")
        ev += 1
        report(tag, "atom-order", diff(base, summary(G.rebuild(s, shuffle_rng=rng))))
        ev += 1
        try:
            s2, back = rename(s, rng)
            report(tag, "renaming", diff(base, summary(s2, back)))
        except Exception as e:
            report(tag, "renaming", f"raised {type(e).__name__}: {e}")
        if len(samples) < 3:
            samples.append({"structure": tag, "pairs": len(base["pairs"]), "stackings": len(base["stackings"])})
    return [{"name": "presentation", "evaluations": ev, "distinct_nontrivial": nt, "violations": viol, "samples": samples,
             "rule": "corpus structures under random rotations / an exact axis permutation / translations up to +-500 A, atom order shuffled inside residues, order-preserving renaming of chains and numbers, and the same atoms emitted as PDB vs mmCIF; full interaction lists, BPSEQ, dot-bracket and extended dot-bracket compared; non-trivial = structure with base pairs",
             "bound": f"{len(paths)} structures, {ev} transformed evaluations"}]


replay = make_replay(bounded)
