"""C05 Annotation depends only on internal geometry and identity, not on presentation"""
import os
import random
import tempfile

import numpy as np

from gen import emit, structures as G
from props._util import make_replay, rng_for

LEVEL = "other"
_GEOMETRY_LEMMAS = [  # = contracts.geometry_lemmas_c.SMT_LEMMAS (every kind-"smt" lemma of the sidecar)
    "mul_zero", "mul_one", "mul_eq", "mul_eq2", "sqrt_unique", "lin_zero6", "lin_sum3", "lin_diff2", "trans3", "trans4",
    "binet_cauchy", "rigid_diff", "det_product", "cross_cofactor", "rot_dot", "rot_det", "rot_cofactor", "rot_cross_0",
    "rot_cross_1", "rot_cross_2", "rot_cross", "inv_dot_diff", "inv_sqdist", "inv_dist", "inv_volume", "inv_normal_dot",
    "inv_normal_sqnorm", "inv_offset_num", "inv_torsion", "centroid_2", "centroid_3", "centroid_6", "centroid_8",
    "centroid_9", "centroid_10", "centroid_11", "centroid_perm_3", "rename_order", "affine_renumbering_increasing",
    "rename_sorted"]

# deductive part: spec-level LEMMAS only (no function of /repo is put under contract by C05 itself; the code-level contracts whose
# specs are built from these primitives belong to C03 / C04 / C11 / C18).  `module` only tells the engine which file to parse.
DEDUCTIVE = [{"module": "rnapolis.tertiary", "sidecar": "contracts.geometry_lemmas_c",
              "targets": ["lemma:" + l for l in _GEOMETRY_LEMMAS]},
             # "renamed order-preservingly (up to that renaming)": the residue order the output is sorted and oriented by IS the
             # lexicographic order of (model, chain, number, insertion code) on plain string / integer comparison - the order the
             # rename_* lemmas are stated for (a case-folding or length-first chain comparison is a different order)
             {"module": "rnapolis.tertiary", "sidecar": "contracts.annotator_c", "targets": ["Residue3D.__lt__"]},
             # "the same atoms supplied as PDB instead of mmCIF": both residue-level readers decode a record / a row to the
             # fields as written (the contracts of C08: fixed PDB columns incl. four-character and negative residue numbers;
             # atom_site items incl. both null markers) - hence to the same atoms
             {"module": "rnapolis.parser", "sidecar": "contracts.parser_c", "targets": ["parse_pdb@decode", "lemma:record_names", "lemma:decoded_snoc"]},
             {"module": "rnapolis.parser", "sidecar": "contracts.parser_cif_c", "targets": ["try_parse_int", "parse_cif@decode"],
              "opts": {"z3_probe_ms": 400, "cvc5_probe_s": 6}},
             # the gap test behind the '?' placeholders of the derived secondary structure (find_gaps): decided by the O3'-P distance
             # alone (contract of C15), a quantity the rigid-motion lemmas show invariant - a test on single coordinate differences fails it
             {"module": "rnapolis.tertiary", "sidecar": "contracts.connectivity_c", "targets": ["Residue3D.is_connected", "Residue3D.find_atom"]}]
TRUSTED = ["numpy", "scipy KD-tree", "mmcif reader", "CPython 3.12",
           "z3 5.1.0 / cvc5 1.0.3 (every lemma obligation is discharged by z3; ring identities by its polynomial normaliser)",
           "numpy.linalg.norm(v) is the non-negative real n with n*n == v.v (contracts/externals.py np_norm; used by inv_dist / inv_torsion only)",
           "pyvc spec evaluation (DESIGN 2.3): vec3 as three reals, x / n for a numeral n as exact division"]
ASSUMPTIONS = ["A-order: the iteration order of query_pairs' result is a function of the set of index pairs (DESIGN 4/C05); since fix 2e35b7c "
               "find_pairs iterates sorted(query_pairs(..)) and find_stackings decides every pair independently and sorts its output, so only "
               "the SET of contacts matters - not a lemma of the deductive part, sampled by the bounded part",
               "A-real: equality of decisions under rigid motion up to the property's 1e-6 margins; the lemmas are over the real numbers "
               "(a rotation matrix with R^T R = I and det R = 1 EXACTLY, exact sums and products); float rounding of R p + t, of sums in a "
               "different order and of the 3-decimal file formats is what the property's margin exclusion is for - bounded part only",
               "the lemmas are about the spec-level primitives (dot products / oriented volumes / norms of coordinate differences, centroids, "
               "the lexicographic residue order); that every decision of the annotation IS a function of these is the content of the "
               "C03 / C04 / C11 / C18 code contracts and, for the code not under contract, an assumption sampled by the bounded part",
               "acos, atan2 and degrees are functions (equal arguments give equal values); no other property of them is used",
               "rename_order / rename_sorted take the renaming as component-wise maps on (chain, number, icode) that are strictly increasing "
               "(stated at the compared keys); Python's str and int comparisons are strict total orders"]
EXPLANATION = (
    "Deductive (contracts/geometry_lemmas_c.py, lemma targets only, all proved by z3 in < 0.2 s per obligation): for R given by nine reals with "
    "R^T R = I (six polynomial equations) and det R = 1, and any translation t - "
    "rot_dot: (Ru).(Rv) == u.v [certificate: goal - sum m_ij (G_ij - delta_ij) == 0 as a ring identity]; rot_det: oriented volumes, "
    "det[Ru Rv Rw] == det R det[u v w]; rot_cofactor + rot_cross: R equals its cofactor matrix, (Ru)x(Rv) == R(u x v) [adjugate identity "
    "det R R^T == (R^T R) adj R]; binet_cauchy: (a x b).(c x d) is a polynomial in dot products. Corollaries for p -> Rp + t, stated for the "
    "expressions the annotation uses: inv_dot_diff, inv_sqdist, inv_dist (distance tests), inv_volume, inv_normal_dot / inv_normal_sqnorm "
    "(cos-numerator and squared norms of the base normals cross(v1, v2) of Residue3D.base_normal_vector: stacking angle, same_direction sign), "
    "inv_offset_num ((g - h).normal: stacking offset test with centroids g, h and the hydrogen-bond-vs-normal test of find_pairs), inv_torsion "
    "(C18's X, triple product and Y = |v2| T: cis/trans and BPh/BR classes). centroid_n (n = 2, 3, 6, 8, 9, 10, 11): the mean of the moved "
    "points is the moved mean; centroid_perm_3: means do not depend on the atom order; rename_order / rename_sorted / "
    "affine_renumbering_increasing: an order-isomorphic renaming of (chain, number, icode) commutes with the residue order and hence with "
    "sorting. Vacuity: 14 deliberately false siblings (reflection det R = -1, a dropped orthogonality equation, absolute positions, wrong "
    "divisor, weighted mean, non-strict renaming, ...) are all refuted with models (python -m contracts.geometry_lemmas_c). "
    "NOT deductive: float rounding and the 1e-6 margins (A-real), the enumeration order of the KD-tree contact set (A-order; repaired in the "
    "code by sorting), find_atom order-independence under unique atom names (C03/C04 find_atom contract, C08 duplicate filter), and "
    "PDB-vs-mmCIF agreement (C08/C15). Bounded: corpus structures under random rotations / an exact axis permutation / translations, "
    "shuffled atom order, order-preserving renaming, PDB vs mmCIF - full interaction lists and secondary structure compared. See DESIGN.md 4/C05.")


def summary(structure, back=lambda k: k):
    """canonical annotation + secondary structure; `back` maps renamed identifiers back to the original ones"""
    from rnapolis.annotator import extract_secondary_structure

    def rid(nt):
        r = structure.find_residue(nt.label, nt.auth)
        return back((r.chain, r.number, r.icode))
    s2d, dbs = extract_secondary_structure(structure, None, False, False)
    bi = s2d.baseInteractions
    return {
        "pairs": [(rid(b.nt1), rid(b.nt2), b.lw.value, b.saenger.value if b.saenger else None) for b in bi.basePairs],
        "stackings": [(rid(b.nt1), rid(b.nt2), b.topology.value) for b in bi.stackings],
        "bph": sorted((rid(b.nt1), rid(b.nt2), b.bph.value) for b in bi.basePhosphateInteractions),
        "br": sorted((rid(b.nt1), rid(b.nt2), b.br.value) for b in bi.baseRiboseInteractions),
        "bpseq": s2d.bpseq, "dot": [l for l in s2d.dotBracket.splitlines() if not l.startswith(">")],
        "ext": [l for l in s2d.extendedDotBracket.splitlines() if ">strand" not in l],
    }


def gap_summary(structure):
    """the derived secondary structure with gap detection (find_gaps=True): BPSEQ with '?' placeholders, per-strand dot-bracket"""
    from rnapolis.annotator import extract_secondary_structure
    s2d, _ = extract_secondary_structure(structure, None, True, False)
    return {"bpseq(find_gaps)": s2d.bpseq, "dot(find_gaps)": [l for l in s2d.dotBracket.splitlines() if not l.startswith(">")]}


def with_open_junction(structure, rng):
    """the structure with one backbone junction pulled open: everything behind a connected O3'-P junction is translated along the
    junction so that the O3'-P distance is 2.9-3.6 A (clearly above the 2.4 A rule) and its residues are renumbered +1 (a numbered
    gap); None when the structure has no such junction"""
    import numpy as np
    res = structure.residues
    cands = [k for k in range(len(res) - 1) if res[k].chain == res[k + 1].chain and res[k].is_connected(res[k + 1])
             and res[k].auth is not None and res[k + 1].auth is not None]
    if not cands:
        return None
    k = rng.choice(cands)
    o3 = next(a for a in res[k].atoms if a.name == "O3'")
    p = next(a for a in res[k + 1].atoms if a.name == "P")
    v = np.array([p.x - o3.x, p.y - o3.y, p.z - o3.z])
    delta = v / np.linalg.norm(v) * rng.choice([2.9, 3.2, 3.6]) - v
    behind = {id(r) for r in res[k + 1:] if r.chain == res[k].chain}
    ids = {}
    for r in res:
        for a in r.atoms:
            ids[id(a)] = id(r) in behind
    from rnapolis.common import ResidueAuth, ResidueLabel
    chain, number = res[k].auth.chain, res[k].auth.number

    def ident(label, auth):
        if auth is not None and auth.chain == chain and auth.number > number:
            return (ResidueLabel(label.chain, label.number + 1, label.name) if label is not None else None), ResidueAuth(auth.chain, auth.number + 1, auth.icode, auth.name)
        return label, auth
    return G.rebuild(structure, atom_fn=lambda a: (a.x + delta[0], a.y + delta[1], a.z + delta[2]) if ids[id(a)] else (a.x, a.y, a.z), ident_fn=ident)


def diff(a, b):
    for k in a:
        if a[k] != b[k]:
            x = [i for i in a[k] if i not in b[k]][:2] if isinstance(a[k], list) else a[k]
            y = [i for i in b[k] if i not in a[k]][:2] if isinstance(b[k], list) else b[k]
            return f"{k} differs: only before {str(x)[:160]} / only after {str(y)[:160]}"
    return None


def rename(structure, rng, force_pack=False):
    """order-preserving renaming of chains and residue numbers"""
    from rnapolis.common import ResidueAuth, ResidueLabel
    chains = sorted({x.chain for r in structure.residues for x in (r.label, r.auth) if x is not None})
    pool = sorted(rng.sample([c + d for c in "ABCDEFGHKMPQRSTXYZ" for d in ["", "1", "x"]], len(chains)))
    if rng.random() < 0.5 and len(chains) > 1:
        # chain ids that differ only in letter case (mmCIF files with more than 26 chains use them): still order-preserving
        letters = rng.sample("ABCDEFGHKMPQRSTXYZ", (len(chains) + 1) // 2)
        pool = sorted(rng.sample([c for L in letters for c in (L, L.lower())], len(chains)))
    cmap = dict(zip(chains, pool))
    off, mul = rng.randint(-50, 500), rng.choice([1, 1, 2, 3])
    inv = {}
    # a third of the renamings number residues in the style "10, 10A, 11, 11A": new number = n // 2, insertion code 'A' for odd n
    # (floor division is monotone and ' ' < 'A', so the order is preserved); only for structures that carry author identifiers
    # without insertion codes (the label identifier has no insertion code and keeps distinct numbers)
    if force_pack:
        mul = 1
    pack = (force_pack or rng.random() < 0.34) and all(r.auth is not None and r.auth.icode is None for r in structure.residues)

    def ident(label, auth):
        nl = ResidueLabel(cmap[label.chain], label.number * mul + off, label.name) if label is not None else None
        na = None
        if auth is not None:
            n = auth.number * mul + off
            na = ResidueAuth(cmap[auth.chain], n // 2, None if n % 2 == 0 else "A", auth.name) if pack else ResidueAuth(cmap[auth.chain], n, auth.icode, auth.name)
        return nl, na
    s2 = G.rebuild(structure, ident_fn=ident)
    for r, r2 in zip(structure.residues, s2.residues):
        inv[(r2.chain, r2.number, r2.icode)] = (r.chain, r.number, r.icode)
    return s2, (lambda k: inv[k])


def via_file(structure, fmt, null_icode="?"):
    from rnapolis.parser import read_3d_structure
    recs = emit.from_structure(structure)
    text = emit.to_pdb(recs) if fmt == "pdb" else emit.to_cif(recs, null_icode=null_icode)
    with tempfile.NamedTemporaryFile("w", suffix="." + fmt, delete=False) as f:
        f.write(text)
        p = f.name
    try:
        with open(p) as fh:
            return read_3d_structure(fh)
    finally:
        os.unlink(p)


def fits_pdb(s):
    return all(len(r.chain.strip()) == 1 and -999 <= r.number <= 9999 and len(r.name) <= 3 and all(len(a.name) <= 4 for a in r.atoms) for r in s.residues) \
        and sum(len(r.atoms) for r in s.residues) < 99999


def bounded(tier, seed):
    rng = rng_for(seed, "c05")
    ev, nt, viol, samples = 0, 0, [], []

    def report(tag, what, msg):
        if msg and len(viol) < 5:
            viol.append({"what": f"{tag} [{what}]: {msg}"[:300], "signature": f"{what}:{tag}", "relates": "find_pairs|find_stackings|parse",
                         "input": {"check": "presentation", "case": [tag, what], "seed": seed, "tier": tier}})
    paths = [p for p in G.corpus(tier) if os.path.getsize(p) < (400000 if tier == "quick" else 10 ** 9)]
    for path in paths:
        tag = os.path.basename(path)
        s = G.load(path)
        try:
            base = summary(s)
        except Exception as e:
            report(tag, "baseline", f"raised {type(e).__name__}: {e}")
            continue
        nt += len(base["pairs"]) > 0
        reps = 2 if tier == "quick" else 6
        for k in range(reps):
            ev += 1
            moved = G.rigid(s, rng, max_t=500.0, axis_perm=(k == 0))
            report(tag, f"rigid{k}", diff(base, summary(moved)))
            if fits_pdb(s):
                # the same (moved, 3-decimal) atoms through both file formats
                ev += 1
                try:
                    a, b = summary(via_file(moved, "pdb")), summary(via_file(moved, "cif", null_icode="?."[k % 2]))  # both legal null markers
                    report(tag, f"pdb-vs-cif{k}", diff(a, b))
                    if k == 0:
                        report(tag, "file-vs-memory", diff(summary(via_file(s, "cif")), summary(G.rebuild(s, atom_fn=lambda a_: (round(a_.x, 3), round(a_.y, 3), round(a_.z, 3))))))
                except Exception as e:
                    report(tag, f"pdb-vs-cif{k}", f"raised {type(e).__name__}: {e}")
        # gap detection (find_gaps=True) under rigid motion, on the structure as it is and with one junction pulled open to 2.9-3.6 A
        try:
            for what, sg in (("gaps", s), ("open-junction", with_open_junction(s, rng))):
                if sg is None:
                    continue
                bg = gap_summary(sg)
                for k in range(reps):
                    ev += 1
                    report(tag, f"{what}-rigid{k}", diff(bg, gap_summary(G.rigid(sg, rng, max_t=500.0, axis_perm=(k == 0)))))
        except Exception as e:
            report(tag, "gaps-rigid", f"raised {type(e).__name__}: {e}")
        ev += 1
        report(tag, "atom-order", diff(base, summary(G.rebuild(s, shuffle_rng=rng))))
        ev += 1
        try:
            s2, back = rename(s, rng)
            report(tag, "renaming", diff(base, summary(s2, back)))
            if all(r.auth is not None and r.auth.icode is None for r in s.residues):
                ev += 1
                s2, back = rename(s, rng, force_pack=True)
                report(tag, "renaming-with-insertion-codes", diff(base, summary(s2, back)))
        except Exception as e:
            report(tag, "renaming", f"raised {type(e).__name__}: {e}")
        # the same atoms as PDB and as mmCIF with residue numbers that fill the four PDB columns (>= 1000 or <= -100)
        if fits_pdb(s) and max((r.number for r in s.residues), default=0) < 5000:
            ev += 1
            try:
                shift = rng.choice([1000, 4000, -600])
                s3 = G.rebuild(s, ident_fn=lambda label, auth: (None if auth is not None else label,
                                                                 type(auth)(auth.chain, auth.number + shift, auth.icode, auth.name) if auth is not None else None))
                if all(-999 <= r.number <= 9999 for r in s3.residues):
                    report(tag, "pdb-vs-cif-wide-numbers", diff(summary(via_file(s3, "pdb")), summary(via_file(s3, "cif"))))
            except Exception as e:
                report(tag, "pdb-vs-cif-wide-numbers", f"raised {type(e).__name__}: {e}")
        if len(samples) < 3:
            samples.append({"structure": tag, "pairs": len(base["pairs"]), "stackings": len(base["stackings"])})
    return [{"name": "presentation", "evaluations": ev, "distinct_nontrivial": nt, "violations": viol, "samples": samples,
             "rule": "corpus structures under random rotations / an exact axis permutation / translations up to +-500 A, atom order shuffled inside residues, order-preserving renaming of chains and numbers, and the same atoms emitted as PDB vs mmCIF; full interaction lists, BPSEQ, dot-bracket and extended dot-bracket compared; non-trivial = structure with base pairs",
             "bound": f"{len(paths)} structures, {ev} transformed evaluations"}]


replay = make_replay(bounded)
