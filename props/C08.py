"""C08 Structure reading preserves atoms, residue identity and the requested model"""
from oracles import reader_o as R
from props._util import rng_for, run_cases

LEVEL = "other"
DEDUCTIVE = [{"module": "rnapolis.parser", "sidecar": "contracts.parser_c",
              "targets": ["read_3d_structure", "group_atoms", "lemma:close_run", "lemma:close_run_keys", "lemma:extend_open", "lemma:start_open",
                          "parse_pdb@decode", "lemma:record_names", "lemma:decoded_snoc",
                          "filter_clashing_atoms", "filter_clashing_atoms@single"]},
             # the mmCIF leg: per-row decode of the atom_site category (prefix contract of parse_cif) and try_parse_int
             {"module": "rnapolis.parser", "sidecar": "contracts.parser_cif_c",
              "targets": ["parse_cif@decode", "try_parse_int", "lemma:numeral_is_int_literal", "lemma:signed_numeral_shape"],
              "opts": {"z3_probe_ms": 400, "cvc5_probe_s": 6}}]
TRUSTED = ["mmcif IoAdapterPy tokeniser", "scipy KD-tree", "float()/int() of well-formed numerals", "CPython 3.12",
           # assumed contracts / externals of contracts/parser_c.py (deductive part)
           "KDTree.query_pairs(r) returns exactly the index pairs (a < b) of points at distance <= r (assumed contract); KDTree(points) raises ValueError iff the point list is empty; numpy.array(list of (x, y, z)) is that point list",
           "IO.seek / IO.readlines: readlines() after seek(0) returns the list of the file's lines (ghost field IO.lines)",
           "str.strip(): a deterministic function of its argument (uninterpreted py_strip); float(str): uninterpreted value py_float(s), raises ValueError exactly unless the uninterpreted py_float_ok(s); int(str): pyvc ext_int_of_str (ASCII grammar [ws][+-]digits[_digits][ws], value uninterpreted py_int except plain digit strings and '-'+digits)",
           "Residue3D.is_nucleotide is a pure function of the frozen record (uninterpreted; only the nucleic_acid_only filter uses it)",
           "callee contracts assumed, not verified: is_cif, parse_cif (result shapes only, no ensures), get_residue_name, get_one_letter_name (may raise IndexError), detect_one_letter_name (each: returns a str, no ensures)",
           "z3 / cvc5 (strings, arrays, quantifiers)",
           # mmCIF leg (contracts/parser_cif_c.py)
           "mmcif reader (the one assumed statement, external Adapter.readFile): IoAdapterPy().readFile(path) returns the file's data blocks as new container objects; the first block has a category atom_site iff HAS, whose getAttributeList() is ATTRS and getRowList() is ROWS (NB, HAS, ATTRS, ROWS: ghost parameters the contract is universally quantified over); container.getObj(name) is the category of that name or None; the two lists are modelled as immutable values (parse_cif only reads them)",
           "IO.seek(0) has no effect the code under contract observes; cif.name is the path handed to the reader",
           "int(str): pyvc ext_int_of_str (ASCII grammar [ws][+-]digits[_digits][ws]; value py_int, tied to SMT-LIB str.to_int on plain digit strings and '-'+digits); int(None) raises TypeError; float(str): uninterpreted py_float / py_float_ok",
           "dict(zip(K, V)) for two lists: pyvc's dict-comprehension encoding over the list of pairs (first-occurrence order, last value wins), cross-checked against CPython on 360 small cases",
           "callee contract assumed in contracts/parser_cif_c.py: filter_clashing_atoms (result shape; ValueError iff the atom list is empty, as verified under contracts/parser_c.py) - only on the path of a file without data blocks"]
ASSUMPTIONS = ["ties in occupancy leave the surviving copy unspecified (either is accepted)",
               "definitional lemmas (not proved, conservative abbreviations): wfl_definition (wfl(l) := wf_line(lines[l]), the per-line PDB well-formedness predicate of parse_pdb@decode's precondition), within_definition (within(p, q, r) := |p - q|^2 <= r^2; never unfolded by a proof)",
               "parse_pdb@decode precondition (well-formed PDB text): record names occupy columns 1-6; every ATOM/HETATM line has >= 27 characters (shorter ones raise IndexError at line[21] / line[26]; slices never raise) and its resSeq / x / y / z / occupancy columns parse; MODEL serials and MODRES sequence numbers parse; MODRES lines have >= 24 characters; the file has at least one ATOM/HETATM record",
               "tuple(residue_atoms) is modelled as the immutable sequence of the list's elements (sidecar TUPLE_AS_SEQUENCE); dicts modified in loops keep the representation invariant 'key list = keys, each once' (DICT_ORDER_INVARIANT); composite dict/set keys are packed by an injective uninterpreted function (PACK_KEYS)",
               "arithmetic over the reals (A-real); strings are z3 sequences of code points <= 0x2FFFF",
               "termination of filter_clashing_atoms' recursion is not proved (partial correctness: the recursive calls use the function's own contract)",
               "the order of filter_clashing_atoms' result depends on the iteration order of a set of ints (CPython: increasing for set(range(n)) minus discards): the contracts state the result up to that order (ghost enumeration E); 'file order' of read_3d_structure / group_atoms is relative to the atom list parse_pdb / parse_cif return",
               # mmCIF leg
               "parse_cif@decode is a PREFIX contract: symbolic execution ends in front of `if mod_residue:` (after the atom_site loop). That the three loops behind it (pdbx_struct_mod_residue, entity_poly, entity) do not touch atoms_to_process and that the function returns filter_clashing_atoms(atoms_to_process) is read off the source, not proved: `modified` is a dict keyed by two different record classes (ResidueLabel and ResidueAuth), which the engine's dict encoding (one key shape per dict) refuses",
               "parse_cif@decode precondition (well-formed atom_site category): item names pairwise different; every row has one cell per item; POS is the column index of ATTRS (exists for every ATTRS); the items label_atom_id, Cartn_x, Cartn_y, Cartn_z (read by subscript: KeyError otherwise) and label_seq_id, auth_seq_id (an absent one makes try_parse_int(None) raise TypeError - see EXPLANATION) exist; in every row the coordinates parse, the model number parses if the item exists, the occupancy parses or is '?' / '.', and the residue is named completely at least once: label (asym, numeric seq, comp) or auth (asym, numeric seq, comp) - a row with neither is silently skipped by the code and is outside this contract"]
EXPLANATION = ("Deductive part (pyvc, contracts/parser_c.py; real source re-read on every run). "
               "read_3d_structure: with P the parsed atom list, the atoms handed to group_atoms are exactly the atoms of P, unchanged, in file order, each once (ghost index maps X, Y from the filter's definition), whose model is the requested one if some atom has it and else the model of the first atom; 'a model present in the file is returned and never another'; the result is group_atoms' grouping of them; IndexError only when the file has no atom (ghost assertion). "
               "group_atoms: the residues are consecutive non-empty runs S[k]..S[k+1] covering all atoms in order, each residue holds exactly its run's atoms in order, its (label, auth, model) is that of every one of its atoms, neighbouring residues differ in that key (maximal runs); with nucleic_acid_only the result is a subsequence of these residues. "
               "parse_pdb@decode (under the well-formedness precondition): every ATOM/HETATM record (record name in columns 1-6) is decoded exactly once in file order, with name = strip(cols 13-16), resName = strip(18-20), chain = col 22, number = int(strip(23-26)) (so negative numbers), icode = None iff col 27 is blank, x/y/z/occupancy = float(strip(31-38/39-46/47-54/55-60)), model = int(strip(cols 11-14)) of the LAST preceding MODEL record, 1 if none; no IndexError/ValueError; the returned atoms satisfy filter_clashing_atoms' contract w.r.t. the decoded ones. MODRES handling: only exception freedom. "
               "filter_clashing_atoms (any number of models, recursion through its own contract): every result atom is an input atom; at most one per (model, label, auth, name); it has the highest occupancy-or-0 among the input atoms of that slot; no two result atoms of one model with known occupancies are within the clash distance (KD-tree contract). "
               "filter_clashing_atoms@single (one model): additionally the kept copies UL (one per key, highest occupancy, input atoms), the result = the surviving positions of UL each once (in set-iteration order E), a kept copy is dropped only if it lost a pairwise comparison against a kept copy within the clash distance whose occupancy is not lower, ValueError iff the input is empty. "
               "Not deductive (bounded oracle only): parse_cif / mmCIF null markers, is_cif, the name helpers, completeness of filter_clashing_atoms across models ('every atom is represented unless a copy lost a comparison' is proved for one model only), result order of the clash filter, termination of the recursion. "
               "mmCIF leg (added later; contracts/parser_cif_c.py - of the 'Not deductive' list above, parse_cif's atom_site decode and the null markers are now under contract): "
               "try_parse_int: an optionally '-'-signed digit string is parsed to exactly the number written (value pinned through SMT-LIB str.to_int, so a reader that rejects negative numbers fails); the result is None exactly for texts int() rejects, in particular '?' and '.'; otherwise it is int(text); TypeError exactly for None. "
               "parse_cif@decode (prefix contract, relative to the ghost document NB / HAS / ATTRS / ROWS / POS): when the first data block has an atom_site category, atoms_to_process holds exactly one atom per row, in file order (len == len(ROWS), atom j from row j), and for every row: "
               "label = (label_asym_id, label_seq_id, label_comp_id) if all three items exist and the number is an int literal, else None; auth = (auth_asym_id, auth_seq_id, insertion code, auth_comp_id) likewise, where the insertion code is None for an absent pdbx_PDB_ins_code item and for BOTH null markers '?' and '.', else the cell as written; "
               "model = int(pdbx_PDB_model_num), 1 when the category has no such item; name = label_atom_id (auth_atom_id is never read - the label name always wins); x / y / z = float(Cartn_x / y / z); occupancy = float(occupancy), None for an absent item and for '?' / '.'; entity id = label_entity_id or None; "
               "no exception from the loop under the precondition; without a data block or without atom_site no atom is produced; ValueError only for a file without any data block (filter_clashing_atoms([]), the candidate finding above). "
               "Observation (not a clause of the property): for a category that lacks the item label_seq_id or auth_seq_id, parse_cif raises TypeError (try_parse_int(None): int(None) is a TypeError, which `except ValueError` does not catch) although the code plainly means 'None when absent' (`if label_residue_number is None and auth_residue_number is None: raise RuntimeError`). "
               "Still not deductive: is_cif, the name helpers, the three other categories of parse_cif and its final call (see ASSUMPTIONS), filter_clashing_atoms' completeness across models.")


def bounded(tier, seed):
    rng = rng_for(seed, "c08")
    n = 120 if tier == "quick" else 1500
    seeds = [rng.randrange(10 ** 9) for _ in range(n)]
    out = [run_cases("synthetic-tables", seeds, R.check_case, lambda s: True,
                     "generated atom tables (1-3 models with non-consecutive numbers sharing residue identities, 1-2 chains, negative numbers, insertion codes, alternate locations, <0.5 A clashes with occupancy 0/0.3/0.5/1, hetero groups) emitted as PDB and as mmCIF ('?' or '.' null insertion code) by an independent emitter; every model requested in turn",
                     f"{n} tables x 2 formats x (default + every model)", sig=str, relates="read_3d_structure|parse_pdb|parse_cif|filter_clashing_atoms|group_atoms")]
    out.append(run_cases("absent-occupancy", seeds[: n // 3], R.check_occupancy_markers, lambda s: True,
                         "mmCIF tables whose occupancy is '?' or '.' on some atoms", f"{n // 3} tables", sig=str, relates="parse_cif|filter_clashing_atoms"))
    return out


def replay(inp):
    f = R.check_case if inp["check"] == "synthetic-tables" else R.check_occupancy_markers
    errs = f(inp["case"])
    return {"fails": bool(errs), "errors": errs[:3]}
