"""C08 Structure reading preserves atoms, residue identity and the requested model"""
from oracles import reader_o as R
from props._util import rng_for, run_cases

LEVEL = "other"
DEDUCTIVE = [{"module": "rnapolis.parser", "sidecar": "contracts.parser_c",
              "targets": ["read_3d_structure", "group_atoms", "lemma:close_run", "lemma:close_run_keys", "lemma:extend_open", "lemma:start_open",
                          "parse_pdb@decode", "lemma:record_names", "lemma:decoded_snoc",
                          "filter_clashing_atoms", "filter_clashing_atoms@single"]}]
TRUSTED = ["mmcif IoAdapterPy tokeniser", "scipy KD-tree", "float()/int() of well-formed numerals", "CPython 3.12"]
ASSUMPTIONS = ["ties in occupancy leave the surviving copy unspecified (either is accepted)"]
EXPLANATION = "see DESIGN.md 4/C08"


def bounded(tier, seed):
    rng = rng_for(seed, "c08")
    n = 120 if tier == "quick" else 1500
    seeds = [rng.randrange(10 ** 9) for _ in range(n)]
    out = [run_cases("synthetic-tables", seeds, R.check_case, lambda s: True,
                     "generated atom tables (1-3 models with non-consecutive numbers sharing residue identities, 1-2 chains, negative numbers, insertion codes, alternate locations, <0.5 A clashes with occupancy 0/0.3/0.5/1, hetero groups) emitted as PDB and as mmCIF ('?' or '.' null insertion code) by an independent emitter; every model requested in turn",
                     f"{n} tables x 2 formats x (default + every model)", sig=str, relates="read_3d_structure|parse_pdb|parse_cif|filter_clashing_atoms|group_atoms")]
    out.append(run_cases("absent-occupancy", seeds[: n // 3], R.check_occupancy_markers, lambda s: True,
                         "mmCIF tables whose occupancy is '?' or '.' on some atoms", f"{n // 3} tables", sig=str, relates="parse_cif|filter_clashing_atoms"))
    return out


def replay(inp):
    f = R.check_case if inp["check"] == "synthetic-tables" else R.check_occupancy_markers
    errs = f(inp["case"])
    return {"fails": bool(errs), "errors": errs[:3]}
