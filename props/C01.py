"""C01 BPSEQ <-> dot-bracket conversion is lossless for every encoder"""
from gen.pairings import pairings_upto, pairs_of, random_structure, stems_of
from oracles import common_o as O
from props._util import rng_for, run_cases

LEVEL = "other"
DEDUCTIVE = [{"module": "rnapolis.common", "sidecar": "contracts.common_c",
              "targets": ["BpSeq.sequence", "BpSeq.__stems_entries", "lemma:strands_apart",
                          "DotBracket.__post_init__", "DotBracket.__post_init__@painted", "DotBracket.from_string",
                          "DotBracket.from_string@painted", "BpSeq.__make_dot_bracket", "BpSeq.fcfs"]}]
TRUSTED = ["z3 5.1.0 / cvc5 1.0.3", "pyvc encoding of Python semantics (DESIGN 2.3)", "CPython 3.12"]
ASSUMPTIONS = []
EXPLANATION = "see DESIGN.md 4/C01"


def knotted(p):
    st = stems_of(p)
    return any(O.crossing(a[0], b[0]) for i, a in enumerate(st) for b in st[i + 1:])


def bounded(tier, seed):
    nmax = 7 if tier == "quick" else 9
    out = [run_cases("forward-all-pairings", pairings_upto(nmax), O.c01_forward, knotted,
                     f"every partial matching on N<={nmax} positions through fcfs, dot_bracket and all_dot_brackets; non-trivial = has crossing stems",
                     f"N<={nmax}", sig=lambda p: "".join(map(str, p)) if max(p, default=0) < 10 else repr(p), relates="BpSeq")]
    rng = rng_for(seed, "c01")
    rnd = [random_structure(rng, rng.randint(12, 60), rng.randint(2, 7)) for _ in range(60 if tier == "quick" else 600)]
    out.append(run_cases("forward-random", rnd, lambda p: O.c01_forward(p, with_all=len(stems_of(p)) <= 7), knotted,
                         "random knotted structures N<=60, <=7 stems", "60 structures" if tier == "quick" else "600 structures",
                         sig=repr, relates="BpSeq"))
    # converse: balanced strings over the 30 bracket types (painted with random proper levels)
    conv = []
    for p in rnd + list(pairings_upto(6)):
        stems, adj = O.stem_graph(p)
        lv = []
        for a in range(len(stems)):
            free = [l for l in range(30) if all(lv[b] != l for b in adj[a] if b < a)]
            lv.append(rng.choice(free[:6]) if rng.random() < .7 else rng.choice(free))
        conv.append(O.paint(p, lv))
    out.append(run_cases("converse", conv, O.c01_converse, lambda s: any(c not in "()." for c in s),
                         "balanced dot-bracket strings (random proper painting over 30 bracket types) -> BPSEQ -> dot-bracket",
                         f"{len(conv)} strings", sig=str, relates="from_dotbracket|DotBracket"))
    return out


def replay(inp):
    case = inp["case"]
    if inp["check"] == "converse":
        errs = O.c01_converse(case)
    else:
        errs = O.c01_forward(tuple(case))
    return {"fails": bool(errs), "errors": errs[:3]}
