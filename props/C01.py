"""C01 BPSEQ <-> dot-bracket conversion is lossless for every encoder"""
from gen.pairings import pairings_upto, pairs_of, random_structure, stems_of
from oracles import common_o as O
from props._util import rng_for, run_cases

LEVEL = "other"
DEDUCTIVE = [{"module": "rnapolis.common", "sidecar": "contracts.common_c",
              "targets": ["BpSeq.sequence", "BpSeq.__stems_entries", "BpSeq.__regions", "lemma:strands_apart",
                          "DotBracket.__post_init__", "DotBracket.__post_init__@painted", "DotBracket.from_string",
                          "DotBracket.from_string@painted", "BpSeq.__make_dot_bracket", "BpSeq.fcfs"]},
             # BPSEQ / dot-bracket TEXT layer (observe_at BpSeq.from_string / __str__; DotBracket.from_file) over an abstract text model
             {"module": "rnapolis.common", "sidecar": "contracts.common_text_c",
              "opts": {"z3_probe_ms": 400, "cvc5_probe_s": 6},  # stage order: short z3 attempt, cvc5, then the usual z3 stages
              "targets": ["BpSeq.__post_init__", "BpSeq.from_string", "BpSeq.__str__", "lemma:cnt_all_kept", "lemma:bpseq_text_round_trip",
                          "BpSeq.from_file", "DotBracket.from_string", "DotBracket.from_file"]}]
TRUSTED = ["z3 5.1.0 / cvc5 1.0.3", "pyvc encoding of Python semantics (DESIGN 2.3)", "CPython 3.12",
           "Lean 4.33.0 + Mathlib v4.33.0 (lean/Definitional.lean, plain `lean`, standard axioms only)",
           "text layer (contracts/common_text_c.py) externals, each an UNINTERPRETED deterministic function of its argument about which the "
           "engine assumes nothing but a length >= 0 for the lists: str.splitlines() (splitlines.n / .at), str.strip() (py_strip), "
           "str.rstrip() (py_rstrip), str.split() without arguments (wsplit.n / .at), '\\n'.join(list of str) (py_join of length and "
           "elements; the list joined last is kept under the ghost name JOINED), open(path) -> file object (may raise OSError) whose read() "
           "is file_text(path) and whose readlines() is file_lines(path), file __enter__ / __exit__; modelled exactly, not abstractly: "
           "'<constant template>'.format(args) for plain `{}` fields and int / str arguments = the literal pieces and str(arg) "
           "concatenated; int(str) is the engine's own model (py_int, ValueError unless an optionally signed decimal with optional "
           "surrounding whitespace / single underscores); logging.warning is dropped"]
EXTRA_KIND = "Lean 4 + Mathlib: existence and uniqueness of the definitional functions FC / levels30 (lean/Definitional.lean, ~5 s; both tiers)"
ASSUMPTIONS = [
    "Entry.sequence is one character (field declared `char` in the sidecar): BPSEQ sequences are one letter per entry",
    "FC / taken (first-come-first-served level function) and levels30 ('needs at most 30 levels', the property's quantifier) are introduced by characteristic properties (definitional lemmas FC_definition / levels30_definition of contracts/common_c.py) that the SMT engine assumes; that functions with exactly these properties EXIST for every stem list (the axioms are consistent) and are UNIQUE on the stems 0..len(R)-1 (least level not used by an earlier crossing stem, by strong recursion: the axiom is a definition) is proved in Lean 4 + Mathlib - lean/Definitional.lean: FC_definition_consistent, FC_definition_unique, FC_is_fc, levels30_definition_consistent (model in which levels30(self) holds exactly when all FCFS levels are < 30: the precondition of BpSeq.fcfs is not vacuous). Still a reading (lean/README.md, section Definitional.lean): that the Lean predicate FCdef is FC_def(R) clause by clause, and the discipline 'FC_definition is instantiated for ONE stem list per verification condition' (FC / taken carry no argument R; two different stem lists can be contradictory: theorem FC_definition_one_R_per_context) - BpSeq.fcfs instantiates it once, for its own `regions`",
    "composition across calls (the stems seen by fcfs are the stems seen by __regions) relies on cached_property: one evaluation per object",
    "the MILP encoder (dot_bracket / convert_to_dot_bracket) and all_dot_brackets reach __make_dot_bracket through their own contracts (C13/C02, C16); where those are not proved the members are covered by the bounded part only",
    "text layer (contracts/common_text_c.py): Entry.sequence is a general str there (whatever the second column holds), not one character",
    "text layer, definitional lemmas cnt_definition / cnt_step: cnt(t, k) = number of kept lines (non-empty after strip(), exactly three split() fields) among the first k lines of t, by primitive recursion on k (cnt(t, 0) = 0, cnt(t, k + 1) = cnt(t, k) + [line k kept]) - assumed by the SMT engine as the definition of the counting function in which 'the entries are the kept lines in file order' is stated (entry of kept line k sits at position cnt(t, k))",
    "text layer, ROUND TRIP ONLY (lemma bpseq_text_round_trip; the contracts of from_string / __str__ / from_file use none of them) - assumed facts about Python's str methods, with plain(s) := 's is not empty and holds no whitespace character (str.isspace)', an uninterpreted predicate that is the DOMAIN of the round-trip clause (every entry's symbol is plain): "
    "T1_join_splitlines ('\\n'.join(L).splitlines() == L when every L[k] is three plain texts joined by single blanks), "
    "T2_strip_three (such a line is its own strip()), T3_split_three (its split() is the three texts), "
    "T4_int_text_plain (str(i) of an int is plain), T5_int_of_int_text (int() accepts str(i) and int(str(i)) == i, in the engine's model of int(str) and str(int))",
    "text layer: assumed callee contract DotBracket.__post_init__ (frame only: writes self.pairs, raises nothing but IndexError) - proved in contracts/common_c.py (targets above) under the one-character-list representation of the two texts; BpSeq.__post_init__ (frame only) is a target of the text sidecar itself",
    "text layer: the file's content does not change during a call (file_text / file_lines are functions of the path); nothing is assumed about how read() and readlines() of one file relate",
]
EXPLANATION = (
    "Deductive (all inputs, no bound on N, on the number of stems or on nesting): BpSeq.__stems_entries returns exactly the maximal runs of "
    "stacked 5'->3' pairs in 5' order and every 5'->3' pair lies in one of them (ghost inverse map GS); BpSeq.__make_dot_bracket, for regions that are "
    "those stems and ANY proper level assignment below 30, writes a text of the structure's length and sequence that carries OPEN/CLOSE[level] on the two "
    "strands of every stem and '.' elsewhere (ghost inverse strand map G), on which the real decoder DotBracket.__post_init__ never pops an empty stack "
    "and returns exactly the structure's pairs (clause `lossless`: every decoded pair is a pair of the entries, listed by increasing 3' position, and no 3' "
    "partner is left out) - this is 'balanced, decodes to exactly the base pairs, nothing lost, nothing invented, no two crossing stems on one bracket type' "
    "for every encoder that calls it with a proper assignment; BpSeq.fcfs computes the first-come-first-served levels (orders == FC), which are proper, hence "
    "its result is lossless. The decoder's general contract (any text): pairs are distinct ordered positions, IndexError only on unbalanced text. "
    "Lemma strands_apart (strands of different stems of a valid structure are disjoint intervals) is proved by SMT with explicit witnesses. "
    "Bounded (stand-in, not counted as proved): optimal / all-dot-brackets members end to end, the converse direction (dot-bracket -> BPSEQ -> dot-bracket) "
    "and BpSeq.from_string/__str__ on enumerated pairings and random knotted structures."
    " TEXT LAYER, deductive (sidecar contracts/common_text_c.py; the str methods are uninterpreted functions of an abstract text, see TRUSTED): "
    "BpSeq.from_string, for EVERY text: (entries-are-the-three-column-lines-in-file-order) the entries are exactly the kept lines - stripped, non-empty, exactly "
    "three whitespace-separated fields, whatever the fields contain ('?', '-', '.', lower case ...) - in file order, entry = (int(field 0), field 1, int(field 2)), "
    "every other line is skipped (existence-free form: the entry of kept line k sits at position cnt(t, k), the number of kept lines before it, and there are "
    "cnt(t, number of lines) entries); (raises.ValueError only-when / whenever) ValueError exactly when some kept line has a first or third field that int() rejects; "
    "new objects only. BpSeq.__str__: (one-line-per-entry-joined-by-newlines) the result is '\\n'.join of one line str(i) + ' ' + c + ' ' + str(j) per entry, in order. "
    "Lemma bpseq_text_round_trip (SMT, from T1..T5 of ASSUMPTIONS and lemma cnt_all_kept, induction): for entries whose symbols are non-empty and whitespace-free, "
    "with t as __str__'s postcondition describes it, from_string(t) does not raise and every entry list its postcondition describes has exactly b's entries "
    "(index, symbol, partner; same number, same order) - from_string(str(b)) has b's entries. BpSeq.from_file: from_string's clauses about the text read from the path. "
    "DotBracket.from_string (str representation): holds exactly the two texts, ValueError exactly when the lengths differ. DotBracket.from_file: a 2-line file is "
    "(sequence, structure), a 3-line file (header, sequence, structure) with the header ignored, lines rstrip()ped, RuntimeError exactly for every other line count, "
    "ValueError exactly when the two texts' lengths differ. "
    "NOT ESTABLISHED (refused by the engine, not approximated; bounded oracle `multi-strand text` only): MultiStrandDotBracket.from_string - one re.finditer over a "
    "regular expression with lazy quantifiers / optional groups plus generator expressions over the matches ('external call re.finditer has no assumed contract'; "
    "the stub contract in the sidecar records what it produces per strand); there is no from_multiline_string in this version of the library. A change of "
    "BpSeq.from_string that goes through `re` (e.g. a regular expression instead of split()) is likewise reported NOT-ESTABLISHED, never judged.")


def deductive_extra(tier, seed):
    from props.C12 import lean_file_records
    return lean_file_records("/verif/lean/Definitional.lean", "Definitional",
                             ["FC_definition_consistent", "FC_definition_unique", "FC_is_fc", "levels30_definition_consistent",
                              "levels30_bound_independent_of_model", "FC_definition_one_R_per_context"], tier)


def knotted(p):
    st = stems_of(p)
    return any(O.crossing(a[0], b[0]) for i, a in enumerate(st) for b in st[i + 1:])


def bounded(tier, seed):
    nmax = 7 if tier == "quick" else 9
    out = [run_cases("forward-all-pairings", pairings_upto(nmax), O.c01_forward, knotted,
                     f"every partial matching on N<={nmax} positions through fcfs, dot_bracket and all_dot_brackets; non-trivial = has crossing stems",
                     f"N<={nmax}", sig=lambda p: "".join(map(str, p)) if max(p, default=0) < 10 else repr(p), relates="BpSeq")]
    rng = rng_for(seed, "c01")
    rnd = [random_structure(rng, rng.randint(12, 60), rng.randint(2, 7)) for _ in range(60 if tier == "quick" else 600)]
    out.append(run_cases("forward-random", rnd, lambda p: O.c01_forward(p, with_all=len(stems_of(p)) <= 7), knotted,
                         "random knotted structures N<=60, <=7 stems", "60 structures" if tier == "quick" else "600 structures",
                         sig=repr, relates="BpSeq"))
    # many bracket levels: k mutually crossing stems need k levels (k = 11, 12 through the MILP as well; k = 30 through FCFS)
    def clique(k, ln=1):
        from gen.pairings import stretch
        base = tuple(list(range(k + 1, 2 * k + 1)) + list(range(1, k + 1)))
        return stretch(base, [ln] * k) if ln > 1 else base
    deep = [(clique(11), True), (clique(12, 2), True), (clique(30), False), (clique(29, 2), False)]
    if tier != "quick":
        deep += [(clique(k), True) for k in (13, 16, 20)]
    out.append(run_cases("many-levels", deep, lambda c: O.c01_forward(c[0], with_all=False, with_milp=c[1]), lambda c: True,
                         "k mutually crossing stems (k bracket levels): fcfs for k up to 30, dot_bracket (MILP) for k = 11, 12 (thorough: up to 20)",
                         f"{len(deep)} structures", sig=lambda c: f"clique-{len(stems_of(c[0]))}x{len(c[0]) // (2 * len(stems_of(c[0])))}", relates="BpSeq"))
    # converse: balanced strings over the 30 bracket types (painted with random proper levels)
    conv = []
    for p in rnd + list(pairings_upto(6)):
        stems, adj = O.stem_graph(p)
        lv = []
        for a in range(len(stems)):
            free = [l for l in range(30) if all(lv[b] != l for b in adj[a] if b < a)]
            lv.append(rng.choice(free[:6]) if rng.random() < .7 else rng.choice(free))
        conv.append(O.paint(p, lv))
    out.append(run_cases("converse", conv, O.c01_converse, lambda s: any(c not in "()." for c in s),
                         "balanced dot-bracket strings (random proper painting over 30 bracket types) -> BPSEQ -> dot-bracket",
                         f"{len(conv)} strings", sig=str, relates="from_dotbracket|DotBracket"))
    # BPSEQ text (observe_at: BpSeq.from_string / __str__): every three-column line is one entry, whatever the residue symbol is
    texts = []
    for k, p in enumerate(rnd[:30] + [q for q in pairings_upto(6) if any(q)][::5]):
        alphabet = ["ACGU", "ACGUacgu", "ACGUN?", "AC-GU.", "ACGU*_~", "?"][k % 6]
        texts.append((tuple(p), "".join(rng.choice(alphabet) for _ in p), k % 4))
    out.append(run_cases("bpseq-text", texts, bpseq_text_check, lambda c: any(ch not in "ACGU" for ch in c[1]),
                         "BPSEQ text -> BpSeq.from_string -> entries / str() / dot-bracket: one entry per three-column line in file order (index, symbol, partner) for "
                         "symbols outside ACGU as well ('?' gap markers, lower case, '-', '.', '*'), different column separators and blank lines; the text written "
                         "back parses to the same entries; the dot-bracket has the text's sequence and length",
                         f"{len(texts)} texts", sig=repr, relates="from_string|BpSeq"))
    # multi-strand dot-bracket text (observe_at: MultiStrandDotBracket.from_string): the strands of the text, in order, concatenated
    multi = []
    for k, st in enumerate(conv[:40]):
        n = len(st)
        cuts = sorted(rng.sample(range(1, n), min(n - 1, rng.randint(0, 3)))) if n > 1 else []
        multi.append((st, tuple(cuts), k % 3, "".join(rng.choice("ACGUacguNRY-.T") for _ in st)))
    out.append(run_cases("multi-strand-text", multi, multi_strand_check, lambda c: len(c[1]) >= 1,
                         "a balanced dot-bracket cut into 1-4 strands, written as (>header,) sequence, structure lines -> MultiStrandDotBracket.from_string: strands "
                         "in order with first/last/sequence/structure, whole sequence and structure are the concatenations, and BpSeq.from_dotbracket of it has "
                         "exactly the pairs of the uncut string", f"{len(multi)} texts", sig=repr, relates="MultiStrandDotBracket|from_dotbracket"))
    return out


def multi_strand_check(case):
    from rnapolis.common import BpSeq, MultiStrandDotBracket
    structure, cuts, style, seq = case
    bounds = [0] + list(cuts) + [len(structure)]
    parts = [(seq[a:b], structure[a:b]) for a, b in zip(bounds, bounds[1:])]
    text = ""
    for t, (sq, st) in enumerate(parts):
        if style == 0 or (style == 2 and t % 2 == 0):
            text += f">strand_{'ABCD'[t]}\n"
        text += f"{sq}\n{st}" + ("\n" if (t + 1 < len(parts) or style != 1) else "")
    m = MultiStrandDotBracket.from_string(text)
    errs = []
    if m.sequence != seq or m.structure != structure:
        errs.append(f"whole sequence/structure {m.sequence!r}/{m.structure!r} are not the concatenations {seq!r}/{structure!r}")
    want = [(a + 1, b, sq, st) for (a, b), (sq, st) in zip(zip(bounds, bounds[1:]), parts)]
    got = [(x.first, x.last, x.sequence, x.structure) for x in m.strands]
    if got != want:
        errs.append(f"strands {got} instead of {want}")
    if not errs:
        b = BpSeq.from_dotbracket(m)
        pairs = {(e.index_, e.pair) for e in b.entries if e.pair > e.index_}
        if pairs != O.decode(structure):
            errs.append(f"from_dotbracket pairs {sorted(pairs)} != {sorted(O.decode(structure))}")
    return errs


def bpseq_text_check(case):
    from rnapolis.common import BpSeq
    p, seq, style = case
    sep = [" ", "\t", "   ", " \t "][style]
    lines = [f"{i + 1}{sep}{seq[i]}{sep}{p[i]}" + (" " if style == 2 else "") for i in range(len(p))]
    text = ("\n\n" if style == 3 else "\n").join(lines) + ("\n" if style != 1 else "")
    b = BpSeq.from_string(text)
    got = [(e.index_, e.sequence, e.pair) for e in b.entries]
    want = [(i + 1, seq[i], p[i]) for i in range(len(p))]
    if got != want:
        return [f"from_string: {len(got)} entries {got[:4]}.. instead of {len(want)} {want[:4]}.."]
    again = BpSeq.from_string(str(b))
    if [(e.index_, e.sequence, e.pair) for e in again.entries] != want:
        return ["from_string(str(b)) differs from b"]
    errs = []
    for name, d in (("fcfs", b.fcfs), ("dot_bracket", b.dot_bracket)):
        if d.sequence != seq or len(d.structure) != len(p):
            errs.append(f"{name}: sequence {d.sequence!r} / length {len(d.structure)} instead of {seq!r} / {len(p)}")
        elif sorted((i + 1, j + 1) for i, j in d.pairs) != sorted((i + 1, j) for i, j in enumerate(p) if j > i + 1):
            errs.append(f"{name}: decodes to other pairs than the text holds")
    return errs


def replay(inp):
    case = inp["case"]
    if inp["check"] == "multi-strand-text":
        errs = multi_strand_check((case[0], tuple(case[1]), case[2], case[3]))
        return {"fails": bool(errs), "errors": errs[:3]}
    if inp["check"] == "bpseq-text":
        errs = bpseq_text_check((tuple(case[0]), case[1], case[2]))
        return {"fails": bool(errs), "errors": errs[:3]}
    if inp["check"] == "converse":
        errs = O.c01_converse(case)
    else:
        errs = O.c01_forward(tuple(case))
    return {"fails": bool(errs), "errors": errs[:3]}
