"""C01 BPSEQ <-> dot-bracket conversion is lossless for every encoder"""
from gen.pairings import pairings_upto, pairs_of, random_structure, stems_of
from oracles import common_o as O
from props._util import rng_for, run_cases

LEVEL = "other"
DEDUCTIVE = [{"module": "rnapolis.common", "sidecar": "contracts.common_c",
              "targets": ["BpSeq.sequence", "BpSeq.__stems_entries", "BpSeq.__regions", "lemma:strands_apart",
                          "DotBracket.__post_init__", "DotBracket.__post_init__@painted", "DotBracket.from_string",
                          "DotBracket.from_string@painted", "BpSeq.__make_dot_bracket", "BpSeq.fcfs"]}]
TRUSTED = ["z3 5.1.0 / cvc5 1.0.3", "pyvc encoding of Python semantics (DESIGN 2.3)", "CPython 3.12"]
ASSUMPTIONS = [
    "Entry.sequence is one character (field declared `char` in the sidecar): BPSEQ sequences are one letter per entry",
    "FC (first-come-first-served level function) and levels30 ('needs at most 30 levels', the property's quantifier) are introduced by characteristic properties (definitional lemmas FC_definition / levels30_definition), not proved to exist by SMT",
    "composition across calls (the stems seen by fcfs are the stems seen by __regions) relies on cached_property: one evaluation per object",
    "the MILP encoder (dot_bracket / convert_to_dot_bracket) and all_dot_brackets reach __make_dot_bracket through their own contracts (C13/C02, C16); where those are not proved the members are covered by the bounded part only",
]
EXPLANATION = (
    "Deductive (all inputs, no bound on N, on the number of stems or on nesting): BpSeq.__stems_entries returns exactly the maximal runs of "
    "stacked 5'->3' pairs in 5' order and every 5'->3' pair lies in one of them (ghost inverse map GS); BpSeq.__make_dot_bracket, for regions that are "
    "those stems and ANY proper level assignment below 30, writes a text of the structure's length and sequence that carries OPEN/CLOSE[level] on the two "
    "strands of every stem and '.' elsewhere (ghost inverse strand map G), on which the real decoder DotBracket.__post_init__ never pops an empty stack "
    "and returns exactly the structure's pairs (clause `lossless`: every decoded pair is a pair of the entries, listed by increasing 3' position, and no 3' "
    "partner is left out) - this is 'balanced, decodes to exactly the base pairs, nothing lost, nothing invented, no two crossing stems on one bracket type' "
    "for every encoder that calls it with a proper assignment; BpSeq.fcfs computes the first-come-first-served levels (orders == FC), which are proper, hence "
    "its result is lossless. The decoder's general contract (any text): pairs are distinct ordered positions, IndexError only on unbalanced text. "
    "Lemma strands_apart (strands of different stems of a valid structure are disjoint intervals) is proved by SMT with explicit witnesses. "
    "Bounded (stand-in, not counted as proved): optimal / all-dot-brackets members end to end, the converse direction (dot-bracket -> BPSEQ -> dot-bracket) "
    "and BpSeq.from_string/__str__ on enumerated pairings and random knotted structures.")


def knotted(p):
    st = stems_of(p)
    return any(O.crossing(a[0], b[0]) for i, a in enumerate(st) for b in st[i + 1:])


def bounded(tier, seed):
    nmax = 7 if tier == "quick" else 9
    out = [run_cases("forward-all-pairings", pairings_upto(nmax), O.c01_forward, knotted,
                     f"every partial matching on N<={nmax} positions through fcfs, dot_bracket and all_dot_brackets; non-trivial = has crossing stems",
                     f"N<={nmax}", sig=lambda p: "".join(map(str, p)) if max(p, default=0) < 10 else repr(p), relates="BpSeq")]
    rng = rng_for(seed, "c01")
    rnd = [random_structure(rng, rng.randint(12, 60), rng.randint(2, 7)) for _ in range(60 if tier == "quick" else 600)]
    out.append(run_cases("forward-random", rnd, lambda p: O.c01_forward(p, with_all=len(stems_of(p)) <= 7), knotted,
                         "random knotted structures N<=60, <=7 stems", "60 structures" if tier == "quick" else "600 structures",
                         sig=repr, relates="BpSeq"))
    # many bracket levels: k mutually crossing stems need k levels (k = 11, 12 through the MILP as well; k = 30 through FCFS)
    def clique(k, ln=1):
        from gen.pairings import stretch
        base = tuple(list(range(k + 1, 2 * k + 1)) + list(range(1, k + 1)))
        return stretch(base, [ln] * k) if ln > 1 else base
    deep = [(clique(11), True), (clique(12, 2), True), (clique(30), False), (clique(29, 2), False)]
    if tier != "quick":
        deep += [(clique(k), True) for k in (13, 16, 20)]
    out.append(run_cases("many-levels", deep, lambda c: O.c01_forward(c[0], with_all=False, with_milp=c[1]), lambda c: True,
                         "k mutually crossing stems (k bracket levels): fcfs for k up to 30, dot_bracket (MILP) for k = 11, 12 (thorough: up to 20)",
                         f"{len(deep)} structures", sig=lambda c: f"clique-{len(stems_of(c[0]))}x{len(c[0]) // (2 * len(stems_of(c[0])))}", relates="BpSeq"))
    # converse: balanced strings over the 30 bracket types (painted with random proper levels)
    conv = []
    for p in rnd + list(pairings_upto(6)):
        stems, adj = O.stem_graph(p)
        lv = []
        for a in range(len(stems)):
            free = [l for l in range(30) if all(lv[b] != l for b in adj[a] if b < a)]
            lv.append(rng.choice(free[:6]) if rng.random() < .7 else rng.choice(free))
        conv.append(O.paint(p, lv))
    out.append(run_cases("converse", conv, O.c01_converse, lambda s: any(c not in "()." for c in s),
                         "balanced dot-bracket strings (random proper painting over 30 bracket types) -> BPSEQ -> dot-bracket",
                         f"{len(conv)} strings", sig=str, relates="from_dotbracket|DotBracket"))
    return out


def replay(inp):
    case = inp["case"]
    if inp["check"] == "converse":
        errs = O.c01_converse(case)
    else:
        errs = O.c01_forward(tuple(case))
    return {"fails": bool(errs), "errors": errs[:3]}
