"""C18 Torsion angles follow the IUPAC convention in both implementations"""
import math

from oracles import torsion_o as T
from props._util import rng_for, run_cases

LEVEL = "other"
EXPECT_FAIL = {"calculate_torsion_angle"}  # known finding: tertiary_v2 returns the negated torsion
SMT_LEMMAS = ["mul_one", "mul_eq", "sq_one", "one_minus_sq", "prod_le_one", "sq_bound", "sumsq_nonneg", "pos_prod4", "inv_pos",
              "cancel_sq", "reversal", "mirror", "translation"]
DEDUCTIVE = [
    {"module": "rnapolis.tertiary", "sidecar": "contracts.tertiary_c",
     "targets": ["calculate_torsion_angle_coords"] + ["lemma:" + l for l in SMT_LEMMAS]},
    {"module": "rnapolis.tertiary_v2", "sidecar": "contracts.tertiary_v2_c", "targets": ["calculate_torsion_angle@negated"],
     "suppressed_if_proved": "calculate_torsion_angle"},
    # the clause C18 states for the second implementation; fails on the current tree (known finding): short budget
    {"module": "rnapolis.tertiary_v2", "sidecar": "contracts.tertiary_v2_c", "targets": ["calculate_torsion_angle"],
     "opts": {"z3_ms": 8000, "cvc5_s": 8}, "retry_unknown": False},
]
TRUSTED = ["z3 5.1.0 / cvc5 1.0.3", "numpy vector algebra is exact real algebra (A-real)",
           "atan2 over the reals is invariant under positive scaling of its argument point (lemma atan2_scale, assumed)",
           "pyvc encoding (DESIGN 2.3)"]
ASSUMPTIONS = ["A-real: machine floats treated as mathematical reals; isnan() never true on real terms",
               "atan2(y, x) is *the* angle of the point (x, y); only scale invariance is used by the proof",
               "rotation invariance of the IUPAC polynomials is not proved by SMT here (translation, reversal, mirror are); it is sampled by the bounded check"]
EXPLANATION = ("Deductive: calculate_torsion_angle_coords (tertiary.py) returns atan2(Y, X) of the IUPAC polynomials on every non-degenerate input "
               "(48 obligations incl. clip-is-identity via Lagrange/Cauchy-Schwarz certificates); tertiary_v2.calculate_torsion_angle returns atan2(-Y, X) "
               "(contract @negated, proved) and therefore fails the IUPAC clause (known finding). Lemmas: reversal, mirror, translation. "
               "Bounded: constructed dihedrals (NeRF) with random bond lengths/angles/rigid motions through both functions.")


def bounded(tier, seed):
    rng = rng_for(seed, "c18")
    n = 400 if tier == "quick" else 6000
    cases = [(rng.uniform(-math.pi, math.pi), rng.randrange(10 ** 9)) for _ in range(n)]
    cases += [(p, k) for k, p in enumerate([math.pi, math.pi / 2, -math.pi / 2, 0.0, 1e-3, -1e-3, math.pi - 1e-3, -math.pi + 1e-3, math.radians(-160)])]
    ev, viol, nt = 0, {}, 0
    for c in cases:
        ev += 1
        nt += abs(math.sin(c[0])) > 1e-3
        for sig, msg in T.check_case(c):
            viol.setdefault(sig, {"what": msg, "signature": sig, "input": {"check": "constructed-dihedral", "case": list(c)}, "relates": "calculate_torsion_angle"})
    planar = run_cases("exact-planar", T.planar_cases(), T.check_planar, lambda c: True,
                       "exactly coplanar cis / trans arrangements on integer and 3-decimal coordinates in the three coordinate planes (sine term exactly 0.0): expected 0 / pi",
                       "144 point sets", sig=lambda c: f"{c[0]}:{c[1][3]}", relates="calculate_torsion_angle")
    return [planar, {"name": "constructed-dihedral", "evaluations": ev, "distinct_nontrivial": nt, "violations": list(viol.values()),
             "samples": [{"phi": cases[0][0], "seed": cases[0][1]}],
             "rule": "phi uniform in (-pi, pi] plus boundary values, bond lengths 0.8-2.5, bond angles 20-160 deg, random rotation and translation (+-300 A); non-trivial = |sin phi| > 1e-3",
             "bound": f"{len(cases)} constructions"}]


def replay(inp):
    if inp.get("check") == "exact-planar":
        c = inp["case"]
        errs = T.check_planar((c[0], [tuple(p) for p in c[1]]))
    else:
        errs = T.check_case(tuple(inp["case"]))
    return {"fails": bool(errs), "errors": errs[:3]}
