"""C18 Torsion angles follow the IUPAC convention in both implementations"""
import math

from oracles import torsion_o as T
from props._util import rng_for, run_cases

LEVEL = "other"
EXPECT_FAIL = {"calculate_torsion_angle"}  # known finding: tertiary_v2 returns the negated torsion
SMT_LEMMAS = ["mul_one", "mul_eq", "sq_one", "one_minus_sq", "prod_le_one", "sq_bound", "sumsq_nonneg", "pos_prod4", "inv_pos",
              "cancel_sq", "reversal", "mirror", "translation"]
USER_LEMMAS = ["same_square", "atan2_same_point", "tors_reversal", "torsion_of_reversal", "inv_unique", "inv_of_positive",
               "negated_same_norm", "nondegenerate_reversal", "general_position_reversal"]
# = contracts.torsion_rot_c.TARGETS (every lemma of that sidecar; the sidecar checks at import that this is the dependency closure of
# rigid_motion_coords / rigid_motion_v2, so no lemma is used that is not proved here)
ROT_LEMMAS = ["mul_zero", "mul_one", "mul_eq", "mul_eq2", "sqrt_unique", "lin_zero6", "lin_diff2", "trans3", "trans4", "binet_cauchy", "rot_dot",
              "rot_det", "inv_dot_diff", "inv_sqdist", "inv_dist", "inv_volume", "inv_torsion", "inv_same", "chain_eq", "neg_eq", "atan2_cong",
              "norm_eq_of_sq", "ge_eq", "gt_eq", "unit_cross_sq", "inv_cross_dot", "inv_cross_norm", "inv_unit_cross_norm", "rigid_torsion",
              "rigid_guards_coords", "rigid_guards_v2", "rigid_motion_coords", "rigid_motion_v2"]
DEDUCTIVE = [
    {"module": "rnapolis.tertiary", "sidecar": "contracts.tertiary_c",
     "targets": ["calculate_torsion_angle_coords"] + ["lemma:" + l for l in SMT_LEMMAS]},
    # "independent of ... rigid motion": spec-level lemmas over the polynomials and guards of the two code contracts above / below
    # (contracts/torsion_rot_c.py; `module` only tells the engine which file to parse)
    {"module": "rnapolis.tertiary", "sidecar": "contracts.torsion_rot_c", "targets": ["lemma:" + l for l in ROT_LEMMAS],
     "opts": {"z3_ms": 10000, "cvc5_s": 10}},
    {"module": "rnapolis.tertiary_v2", "sidecar": "contracts.tertiary_v2_c", "targets": ["calculate_torsion_angle@negated"],
     "suppressed_if_proved": "calculate_torsion_angle"},
    # the clause C18 states for the second implementation; fails on the current tree (known finding): short budget
    {"module": "rnapolis.tertiary_v2", "sidecar": "contracts.tertiary_v2_c", "targets": ["calculate_torsion_angle"],
     "opts": {"z3_ms": 8000, "cvc5_s": 8}, "retry_unknown": False},
    # last sentence of C18 ("Hence glycosidic chi of A-form RNA is anti ... in every table the library produces"): the users
    # of the torsion function inherit the convention through their call sites (contracts/tertiary_users_c.py)
    {"module": "rnapolis.tertiary", "sidecar": "contracts.tertiary_users_c",
     "targets": ["torsion_angle", "Residue3D.find_atom", "Residue3D.__chi_purine", "Residue3D.__chi_pyrimidine", "Residue3D.chi",
                 "Residue3D.chi_class"] + ["lemma:" + l for l in USER_LEMMAS],
     # every obligation here is discharged in well under a second; a shorter budget keeps a failing run (changed code) fast
     "opts": {"z3_ms": 10000, "cvc5_s": 10}},
    {"module": "rnapolis.annotator", "sidecar": "contracts.tertiary_users_c", "targets": ["detect_cis_trans"],
     "opts": {"z3_ms": 10000, "cvc5_s": 10}},
]
TRUSTED = ["z3 5.1.0 / cvc5 1.0.3", "numpy vector algebra is exact real algebra (A-real)",
           "numpy.linalg.norm(v) is the non-negative real n with n*n == v.v (contracts/externals.py np_norm; code contracts and the rigid-motion lemmas)",
           "atan2 over the reals is invariant under positive scaling of its argument point (lemma atan2_scale, assumed)",
           "pyvc encoding (DESIGN 2.3)",
           "users (contracts/tertiary_users_c.py): numpy.array of a 3-element list is that vector; math.degrees / math.radians as uninterpreted "
           "functions, math.radians strictly increasing (lemma radians_increasing_above, assumed); math.isnan(x) is true exactly for the NaN "
           "sentinel; str.upper() exact on a single ASCII character and uninterpreted on every other string (CASE_MAP_UNINTERPRETED)",
           "users: rnapolis.tertiary.torsion_angle called from rnapolis.annotator is used through its contract (verified target here); "
           "Residue3D.find_atom through its contract (verified target here and in C04 / C11)"]
ASSUMPTIONS = ["A-real: machine floats treated as mathematical reals; isnan() never true on real terms; `float(\"nan\")` has no value in the model and is an exit of its own kind "
               "(NotAReal): the obligation safe.no_NotAReal[..] demands that it is unreachable under the contract's requires (tertiary_v2.calculate_torsion_angle: the "
               "collinearity guard is exactly the negation of the requires)",
               "atan2(y, x) is *the* angle of the point (x, y); only scale invariance is used by the proof",
               "rigid motion (contracts/torsion_rot_c.py, proved by SMT): a rigid motion is p -> R p + t with R nine reals satisfying R^T R = I and "
               "det R = 1 EXACTLY, over the reals; the lemmas are about the specification terms of the two code contracts (their guards and the "
               "atan2 expression they return) - that f(R p + t) == f(p) for the floating-point functions holds only through those contracts "
               "(A-real); float rounding of R p + t itself is covered by the bounded check's tolerance only. On degenerate inputs (guards "
               "violated: both functions return 0.0) nothing is stated, here or in the code contracts; numpy.linalg.norm(v) is the non-negative "
               "real n with n * n == v.v and x / n is x * r with n != 0 -> r * n == 1 (contracts/externals.py, pyvc real_div)",
               "users: math.nan occurs only as the sentinel 'chi undefined' (returned, tested with math.isnan) and is modelled as the None of an Optional "
               "real (MODULE_VALUES); a NaN reaching arithmetic / a comparison would be an undischarged safe.no_TypeError obligation; a returned None "
               "and a returned NaN are not distinguished inside chi / chi_class",
               "users: definitional lemmas torsion_of_definition (torsion_of(a1..a4) := atan2(Y, X) of the IUPAC polynomials of the four atom positions), "
               "general_position_definition (general_position(a1..a4) := the five non-degeneracy guards of calculate_torsion_angle_coords, literally the "
               "requires of its proved contract), first_idx_definition (least index of an atom of that name, -1 if none; find_atom is proved to return it); "
               "Atom / Residue3D are frozen: their fields are never written (frame obligations of every target)",
               "users: preconditions - whenever the four atoms of a torsion are present they are in general position (consecutive atoms more than 1e-6 "
               "apart, no three consecutive ones collinear within 1e-6); on degenerate quadruples calculate_torsion_angle_coords returns 0.0, which no "
               "clause here covers",
               "users: cached_property Residue3D.chi is evaluated once per object: every read yields the value of the one evaluation (contract "
               "returns_value chi_nan(r) / chi_val(r)); the ensures proved for the body are what is known about it",
               "users: 'about -160 degrees' is read as the band [-180, -140] degrees; purine letters A G a g, pyrimidine letters C U T c u t for chi "
               "(chi upper-cases the letter); upper-case letters only for detect_cis_trans"]
EXPLANATION = ("Deductive: calculate_torsion_angle_coords (tertiary.py) returns atan2(Y, X) of the IUPAC polynomials on every non-degenerate input "
               "(48 obligations incl. clip-is-identity via Lagrange/Cauchy-Schwarz certificates); tertiary_v2.calculate_torsion_angle returns atan2(-Y, X) "
               "(contract @negated, proved) and therefore fails the IUPAC clause (known finding). Lemmas: reversal, mirror, translation. "
               "Rigid motion (contracts/torsion_rot_c.py, 33 lemma targets, 337 obligations, all by z3 in about 0.1 s each, every lemma used is itself a target): for R with R^T R = I, "
               "det R = 1 and any t, inv_torsion: X, the triple product T and Y = |v2| T of the moved points R p_k + t EQUAL those of p_k (no scale "
               "factor) - X by Binet-Cauchy (a x b).(c x d) == (a.c)(b.d) - (a.d)(b.c) from four invariant dot products of coordinate differences "
               "(rot_dot with the certificate goal - sum m_ij (G_ij - delta_ij) == 0 as a ring identity), T as an oriented volume "
               "(det[Ru Rv Rw] == det R det[u v w]), |v2| by uniqueness of the non-negative root; rigid_torsion: hence atan2(Y, X) and "
               "atan2(-Y, X) are unchanged; rigid_guards_coords / rigid_guards_v2: the guards of the two functions (the requires of their code "
               "contracts, taken textually) carry over to the moved points (orthogonality only; the unit-vector cross products through "
               "|(u/|u|) x (v/|v|)|^2 == (1/|u| 1/|v|)^2 |u x v|^2); rigid_motion_coords / rigid_motion_v2: both together, i.e. with the proved code "
               "contracts f(R p1 + t, .., R p4 + t) == f(p1, .., p4) for calculate_torsion_angle_coords and for calculate_torsion_angle on every "
               "non-degenerate input. False siblings (python -m contracts.torsion_rot_c: reflection, stretch, shifted value) are all refuted with models. "
               "Bounded: constructed dihedrals (NeRF) with random bond lengths/angles/rigid motions through both functions (float level). "
               "Users of the first implementation (last sentence of C18; contracts/tertiary_users_c.py): torsion_angle returns THE torsion "
               "(torsion_of := atan2(Y, X) of the four atom positions) of its arguments in the given order, from the proved contract of "
               "calculate_torsion_angle_coords; Residue3D.__chi_purine / __chi_pyrimidine return the torsion O4'-C1'-N9-C4 / O4'-C1'-N1-C2 (atom table "
               "pinned from IUPAC-IUB 1983; the reversed listing is the same angle by the proved lemmas torsion_of_reversal / nondegenerate_reversal, every "
               "other atom or order is refused) or NaN when an atom is missing; Residue3D.chi is the purine torsion for A G a g, the pyrimidine torsion "
               "for C U T c u t; for any other ASCII letter and the placeholders ? * - . (clause unknown-letter:...) the purine quadruple decides when its four atoms are present (IUPAC: the base bonded through N9 is a purine), else the pyrimidine quadruple; Residue3D.chi_class is anti whenever "
               "that torsion lies in [-180, -140] degrees (the A-form band) and None when chi is undefined - where syn ends and anti begins is NOT "
               "pinned by C18 (code: syn = (-30, 120) degrees; any limits that keep the band anti satisfy the clause); detect_cis_trans answers 'c' iff "
               "the torsion C1'(i)-N(i)-N(j)-C1'(j) (N = N9 for A G, N1 for C U T) is within 90 degrees of 0 and 't' iff it is further away (1e-6 degree "
               "band at +-90 left open), None when an atom is missing; for other letters nothing is stated (unlike chi, detect_cis_trans does not upper-case the letter; "
               "read_3d_structure only produces upper-case letters). "
               "Users of the second implementation: tertiary_v2.Structure.torsion_angles (the only caller of calculate_torsion_angle: backbone table "
               "alpha..zeta at line 281, chi at lines 302 / 313) is OUT OF REACH of the engine - rows are heterogeneous dicts with computed keys, the inner "
               "loops over the constant table unroll to more paths than the engine explores without state merging, residues / atoms are pandas-backed and the "
               "result is a DataFrame. By reading, all three call sites pass the atoms in IUPAC order (chi: O4'-C1'-N9-C4 / O4'-C1'-N1-C2), so every angle of "
               "that table is the callee's value and inherits its proved negation (known finding): A-form chi appears as about +160 degrees there. Had the "
               "function been within reach its clause would be stated relative to the callee's proved contract (@negated), so that the sign defect stays ONE "
               "finding at calculate_torsion_angle and any other deviation of the table is a new one. Not under contract either: the inter-stem torsion "
               "(tertiary.py calculate_inter_stem_parameters, scipy von Mises) and the BPh torsion classes (C11 detect_bph_br_classification uses the same "
               "symbol torsion_of, left uninterpreted there).")


def bounded(tier, seed):
    rng = rng_for(seed, "c18")
    n = 400 if tier == "quick" else 6000
    cases = [(rng.uniform(-math.pi, math.pi), rng.randrange(10 ** 9)) for _ in range(n)]
    cases += [(p, k) for k, p in enumerate([math.pi, math.pi / 2, -math.pi / 2, 0.0, 1e-3, -1e-3, math.pi - 1e-3, -math.pi + 1e-3, math.radians(-160)])]
    cases += [(rng.uniform(-math.pi, math.pi), rng.randrange(10 ** 9), "wide") for _ in range(n // 4)]
    ev, viol, nt = 0, {}, 0
    for c in cases:
        ev += 1
        nt += abs(math.sin(c[0])) > 1e-3
        for sig, msg in T.check_case(c):
            viol.setdefault(sig, {"what": msg, "signature": sig, "input": {"check": "constructed-dihedral", "case": list(c)}, "relates": "calculate_torsion_angle"})
    planar = run_cases("exact-planar", T.planar_cases(), T.check_planar, lambda c: True,
                       "exactly coplanar cis / trans arrangements on integer and 3-decimal coordinates in the three coordinate planes (sine term exactly 0.0): expected 0 / pi",
                       "144 point sets", sig=lambda c: f"{c[0]}:{c[1][3]}", relates="calculate_torsion_angle")
    import os
    from gen import structures as G
    files = [p for p in G.corpus("quick") if os.path.getsize(p) < 400000][: (8 if tier == "quick" else 40)]
    chi = run_cases("chi-of-corpus-residues", files, T.check_chi, lambda c: True,
                    "Residue3D.chi of the nucleotides of corpus structures (first 60 residues each), under the residue's own letter and under letters that say neither purine "
                    "nor pyrimidine (N, ?, x): the IUPAC torsion of the quadruple the base's atoms select (N9 present: purine), NaN when incomplete",
                    f"{len(files)} structures x 4 letters", sig=os.path.basename, relates="Residue3D.chi")
    return [planar, chi, {"name": "constructed-dihedral", "evaluations": ev, "distinct_nontrivial": nt, "violations": list(viol.values()),
             "samples": [{"phi": cases[0][0], "seed": cases[0][1]}],
             "rule": "phi uniform in (-pi, pi] plus boundary values, bond lengths 0.8-2.5, bond angles 20-160 deg, random rotation and translation (+-300 A); non-trivial = |sin phi| > 1e-3; "
                     "plus a quarter as many 'wide' constructions (bond lengths 0.04-40, bond angles 0.3-179.7 deg: outside the chemical range, inside both implementations' collinearity guards)",
             "bound": f"{len(cases)} constructions"}]


def replay(inp):
    if inp.get("check") == "chi-of-corpus-residues":
        errs = T.check_chi(inp["case"])
        return {"fails": bool(errs), "errors": errs[:3]}
    if inp.get("check") == "exact-planar":
        c = inp["case"]
        errs = T.check_planar((c[0], [tuple(p) for p in c[1]]))
    else:
        errs = T.check_case(tuple(inp["case"]))
    return {"fails": bool(errs), "errors": errs[:3]}
