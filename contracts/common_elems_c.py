"""Sidecar contracts for rnapolis/common.py, part 2: derivations and structural elements (properties C12, C07).

Reuses the vocabulary and the proved contracts of contracts/common_c.py (valid, qual, run_ok, stems_ok, stems_cover,
stems_maximal, stems_inverse, decoded_wf, seq_of ... and the contracts of BpSeq.__stems_entries, BpSeq.sequence,
DotBracket.__post_init__, DotBracket.from_string) by import; the @spec functions of both files are loaded
(`__file_spec__` is a list).
"""
from contracts.common_c import *  # noqa: F401,F403
from contracts import common_c as _c


def spec(f):
    return f


__file_spec__ = [_c.__file__, __file__]
STABLE_BINDERS = True  # a clause evaluated twice over the same values yields the identical term (re-exported postconditions)

CLASSES = dict(_c.CLASSES)
# ghost slot of the cached property BpSeq.dot_bracket (see bpseq_dot_bracket): the DotBracket object every access returns
CLASSES["BpSeq"] = {"kind": "object", "fields": dict(_c.CLASSES["BpSeq"]["fields"], dot_bracket_="DotBracket"),
                    "derived": ["pairs", "dot_bracket_"]}
CLASSES.update({
    "Strand": {"kind": "record", "fields": {"first": "int", "last": "int", "sequence": "cstr", "structure": "cstr"}},
    "Stem": {"kind": "object", "fields": {"strand5p": "rec[Strand]", "strand3p": "rec[Strand]"}},
    "SingleStrand": {"kind": "object", "fields": {"strand": "rec[Strand]", "is5p": "bool", "is3p": "bool"}},
    "Hairpin": {"kind": "object", "fields": {"strand": "rec[Strand]"}},
    "Loop": {"kind": "object", "fields": {"strands": "list[rec[Strand]]"}},
})
LEMMAS = dict(_c.LEMMAS)
UFUNS = dict(_c.UFUNS)
INLINE = list(_c.INLINE)
EXTERNALS = dict(getattr(_c, "EXTERNALS", {}))


# ------------------------------------------------------------------------------------------------ BpSeq.__post_init__
@spec
def pairs_upto(D, E, p):
    """the pairs dict after the first p entries have been processed (valid E): key k is present iff position k is paired
    and it or its partner lies among the first p entries; its value is the partner"""
    return (forall(lambda k: (k in D) == (1 <= k and k <= len(E) and E[k - 1].pair != 0 and (k - 1 < p or E[k - 1].pair - 1 < p)))
            and forall(lambda k: implies(k in D, D[k] == E[k - 1].pair)))


@spec
def pairs_of(D, E):
    """C12 'the pairs': D maps i to j exactly when entry i is paired with j (both directions)"""
    return forall(lambda i, j: (i in D and D[i] == j) == (1 <= i and i <= len(E) and E[i - 1].pair == j and j != 0))


class bpseq_post_init:
    """BpSeq.__post_init__ on a valid entry list: self.pairs[i] == j iff entry i is paired with j; writes nothing but the
    pairs slot of the object under construction"""
    target = "BpSeq.__post_init__"
    params = {"self": "BpSeq"}
    requires = ["valid(self.entries)"]
    raises = []
    ensures = ["pairs_of(self.pairs, self.entries)"]
    ensures_labels = {0: "pairs-dict-is-the-pairing"}
    modifies = ["BpSeq.pairs@self"]
    loops = {0: {"index": "p", "touches": {"BpSeq.pairs": ["self"]},
                 "inv": ["pairs_upto(self.pairs, self.entries, p)"], "labels": {0: "pairs-dict-tracks-the-processed-entries"}}}


class bpseq_post_init_any:
    """BpSeq.__post_init__ on ANY entry list (no precondition): the frame alone - only the pairs slot of self is written"""
    target = "BpSeq.__post_init__"
    params = {"self": "BpSeq"}
    requires = []
    raises = []
    ensures = []
    modifies = ["BpSeq.pairs@self"]
    loops = {0: {"index": "p", "touches": {"BpSeq.pairs": ["self"]}, "inv": []}}


# ------------------------------------------------------------------------------------------------ BpSeq.from_dotbracket
@spec
def all_fresh(L):
    return forall(lambda x: implies(0 <= x and x < len(L), fresh(L[x])))


@spec
def written_pairs(L, P, upto):
    """the first `upto` decoded pairs (0-based positions) are recorded in both partners, shifted by one"""
    return forall(lambda q: implies(0 <= q and q < upto, L[P[q][0]].pair == P[q][1] + 1 and L[P[q][1]].pair == P[q][0] + 1))


@spec
def only_pairs(L, P, M, upto):
    """nothing invented: a paired entry x records the partner given by the decoded pair number M[x] < upto"""
    return forall(lambda x: implies(0 <= x and x < len(L) and L[x].pair != 0,
                                    0 <= M[x] and M[x] < upto and 0 <= P[M[x]][0] and P[M[x]][0] < P[M[x]][1] and P[M[x]][1] < len(L)
                                    and ((P[M[x]][0] == x and L[x].pair == P[M[x]][1] + 1) or (P[M[x]][1] == x and L[x].pair == P[M[x]][0] + 1))))


# heap well-formedness (true of every Python heap; the engine does not assume it for references held in lists): the entries
# of an existing structure are existing objects
ENTRIES_ALLOCATED = "forall(lambda x: implies(0 <= x and x < len(self.entries), allocated(self.entries[x])))"
FRAME_ENTRY_PAIR = "forall(lambda e: implies(allocated(e), e.pair == old(e.pair)), sorts={'e': 'Entry'})"


class from_dotbracket:
    """BpSeq.from_dotbracket(db), db as ANY decoder output (ordered positions inside the text, no position twice) with
    sequence and structure of equal length: a fresh valid BpSeq with the same sequence whose pairs are exactly db.pairs
    shifted by one, symmetric; nothing that existed before the call is written"""
    target = "BpSeq.from_dotbracket"
    params = {"dot_bracket": "DotBracket"}
    requires = ["decoded_wf(dot_bracket.pairs, dot_bracket.structure, len(dot_bracket.structure))",
                "len(dot_bracket.sequence) == len(dot_bracket.structure)"]
    returns = "BpSeq"
    ghost_returns = {"M": "list[int]", "D": "DotBracket"}  # D names the argument for the caller's ghost code
    raises = []
    ghost_exit = ["let D = dot_bracket"]
    ensures = ["fresh(result) and all_fresh(result.entries) and D is dot_bracket",
               "valid(result.entries)",
               "seq_of(result.entries, dot_bracket.sequence)",
               "written_pairs(result.entries, dot_bracket.pairs, len(dot_bracket.pairs))",
               "only_pairs(result.entries, dot_bracket.pairs, M, len(dot_bracket.pairs))",
               "forall(lambda x: implies(0 <= x and x < len(result.entries) and result.entries[x].pair != 0, "
               "exists(lambda q: 0 <= q and q < len(dot_bracket.pairs) and (dot_bracket.pairs[q][0] == x or dot_bracket.pairs[q][1] == x))))",
               "pairs_of(result.pairs, result.entries)"]
    ensures_labels = {0: "fresh", 1: "valid", 2: "sequence-preserved", 3: "every-decoded-pair-recorded-symmetrically",
                      4: "no-pair-invented(ghost-map)", 5: "no-pair-invented", 6: "pairs-dict-is-the-pairing"}
    modifies = []
    callee_variants = {}
    loops = {0: {"index": "q0", "inv": [
        "len(M) == len(entries)",
        FRAME_ENTRY_PAIR,
        "written_pairs(entries, dot_bracket.pairs, q0)",
        "only_pairs(entries, dot_bracket.pairs, M, q0)"],
        "labels": {1: "only-fresh-entries-written", 2: "every-decoded-pair-recorded-symmetrically", 3: "no-pair-invented"}}}
    ghost = [
        {"when": "after", "at": "entries = [", "label": "M0", "do": ["let M = fill(len(entries), 0 - 1)"]},
        {"when": "after", "at": "entries[i].pair = ", "loop": 0, "label": "M5", "do": ["let M = upd(M, i, q0)"]},
        {"when": "after", "at": "entries[j].pair = ", "loop": 0, "label": "M3", "do": ["let M = upd(M, j, q0)"]},
        {"when": "before", "at": "return BpSeq(entries)", "label": "restate",
         # what the rest of the function needs, restated; everything else is dropped (smaller solver context)
         "do": ["assert len(entries) == len(dot_bracket.sequence) and len(entries) >= 0 and len(M) == len(entries)",
                "assert forall(lambda x: implies(0 <= x and x < len(entries), entries[x].index_ == x + 1 and entries[x].sequence == dot_bracket.sequence[x]))",
                "assert " + FRAME_ENTRY_PAIR,
                "assert " + FRAME_ENTRY_PAIR.replace("pair", "index_"),
                "assert " + FRAME_ENTRY_PAIR.replace("pair", "sequence"),
                "assert written_pairs(entries, dot_bracket.pairs, len(dot_bracket.pairs))",
                "assert only_pairs(entries, dot_bracket.pairs, M, len(dot_bracket.pairs))",
                "keep 7"]},
        {"when": "before", "at": "return BpSeq(entries)", "label": "valid",
         "do": ["forall x | assert implies(0 <= x and x < len(entries), entries[x].index_ == x + 1 and 0 <= entries[x].pair and entries[x].pair <= len(entries) and entries[x].pair != x + 1)",
                "forall x | assert implies(0 <= x and x < len(entries) and entries[x].pair > 0, entries[entries[x].pair - 1].pair == x + 1)",
                "assert_last 2 valid(entries)"]},
    ]


# ------------------------------------------------------------------------------------------------ decoder, third contract
@spec
def closed_map(P, R, G, K, upto):
    """ghost inverse of the decoded list: K[y] is the number of the decoded pair that closes at the 3' position y < upto"""
    return forall(lambda y: implies(0 <= y and y < upto and G[y] >= 0 and on3(R, G[y], y), 0 <= K[y] and K[y] < len(P) and P[K[y]][1] == y))


class db_post_init_full:
    """DotBracket.__post_init__ on a painted text, everything at once: the painted contract of common_c (never pops an
    empty stack, decodes to the regions' pairs), the general one (distinct ordered positions) and, new, the ghost map K
    from every 3' position to the decoded pair that closes there (membership form of 'nothing lost').  Invariants and
    ghost code are those of the two proved contracts of common_c, taken by reference, plus the K clauses."""
    target = "DotBracket.__post_init__"
    params = {"self": "DotBracket"}
    ghost_params = dict(_c.db_post_init_painted.ghost_params)
    requires = list(_c.PAINTED_REQ)
    raises = []
    ghost_returns = {"K": "list[int]"}
    ensures = ["decoded_g(self.pairs, R, G, len(self.structure))",
               "decoded_wf(self.pairs, self.structure, len(self.structure))",
               "len(K) == len(self.structure) and closed_map(self.pairs, R, G, K, len(self.structure))"]
    ensures_labels = {0: "decodes-to-the-regions-pairs", 1: "pairs-are-distinct-ordered-positions", 2: "every-3'-position-is-decoded(K)"}
    modifies = ["DotBracket.pairs@self"]
    locals = dict(_c.db_post_init_painted.locals)
    loops = {0: {"touches": {"DotBracket.pairs": ["self"]},
                 "inv": list(_c.db_post_init_painted.loops[0]["inv"])
                 + [t for t in _c.db_post_init.loops[0]["inv"] if t not in _c.db_post_init_painted.loops[0]["inv"]]
                 + ["len(K) == len(self.structure)", "closed_map(self.pairs, R, G, K, i)"]}}
    ghost = [dict(g) for g in _c.db_post_init_painted.ghost] + [
        {"when": "after", "at": "self.pairs = []", "label": "K0", "do": ["let K = fill(len(self.structure), 0 - 1)"]},
        {"when": "before", "at": "self.pairs.append(", "label": "K+", "do": ["let K = upd(K, i, len(self.pairs))"]},
    ]


# ------------------------------------------------------------------------------------------------ DotBracket.without_pseudoknots
def _re_sub_brackets(engine, args, kwargs, node, st):
    """ASSUMED contract of re.sub for exactly the call made by DotBracket.without_pseudoknots: a character class replaced by
    one character is the character-wise map  c -> '.' if c in []{}<>A-Za-z else c  (same length, position by position)."""
    import z3
    from pyvc.values import Unsupported, VChar, VList, to_z3, uid
    pat, repl, text = args[0], args[1], args[2]
    if pat != r"[\[\]\{\}\<\>A-Za-z]" or repl != "." or kwargs or len(args) != 3:
        raise Unsupported("re.sub: only the character-class call of DotBracket.without_pseudoknots has an assumed contract")
    if not (isinstance(text, VList) and text.eshape == ("char",)):
        raise Unsupported("re.sub on a value that is not a character list")
    q = z3.Int(uid("q"))
    c = z3.Select(to_z3(text.elems.code), q)
    hit = z3.Or(c == 91, c == 93, c == 123, c == 125, c == 60, c == 62, z3.And(c >= 65, c <= 90), z3.And(c >= 97, c <= 122))
    return VList(text.length, VChar(z3.Lambda([q], z3.If(hit, z3.IntVal(46), c))), ("char",))


_re_sub_brackets.pure = True
EXTERNALS["re.sub"] = _re_sub_brackets


def _ren(text):
    """the painting hypotheses of common_c stated for the ghost names R0, O0, G0 (painting of the receiver's text)"""
    import re as _re
    return _re.sub(r"\b([ROG])\b", r"\g<1>0", text)


@spec
def level0(R, O, G, y):
    """position y lies on a strand of a region that is written with round brackets (level 0)"""
    return G[y] >= 0 and O[G[y]] == 0


@spec
def round_pairs(P, R, O, G):
    """every decoded pair is a pair of a level-0 region: it closes on that region's 3' strand and opens at the partner"""
    return forall(lambda q: implies(0 <= q and q < len(P), 0 <= P[q][1] and P[q][1] < len(G) and level0(R, O, G, P[q][1]) and on3(R, G[P[q][1]], P[q][1])
                                    and P[q][0] == lo5(R, G[P[q][1]]) + (hi3(R, G[P[q][1]]) - P[q][1])))


@spec
def round_closed(P, R, O, G, K):
    """nothing lost: every 3' position of a level-0 region closes the decoded pair number K[y]"""
    return forall(lambda y: implies(0 <= y and y < len(G) and level0(R, O, G, y) and on3(R, G[y], y), 0 <= K[y] and K[y] < len(P) and P[K[y]][1] == y))


@spec
def kept_regions(R0, O0, R, F, FP):
    """R = the level-0 regions of R0 in order: F (strictly increasing) maps a kept region to its number in R0, FP back"""
    return (len(F) == len(R) and len(FP) == len(R0) and len(R) >= 0
            and forall(lambda j: implies(0 <= j and j < len(R), 0 <= F[j] and F[j] < len(R0) and O0[F[j]] == 0 and R[j] == R0[F[j]] and FP[F[j]] == j))
            and forall(lambda j, k: implies(0 <= j and j < k and k < len(R), F[j] < F[k]))
            and forall(lambda a: implies(0 <= a and a < len(R0) and O0[a] == 0, 0 <= FP[a] and FP[a] < len(R) and F[FP[a]] == a)))


class db_without_pseudoknots:
    """DotBracket.without_pseudoknots on a painted text (ghost R0, O0, G0: regions, proper levels, inverse strand map):
    the new text keeps the round brackets and dots everything else; its decoder never pops an empty stack and yields
    exactly the pairs of the level-0 regions; a fresh object, nothing else written"""
    target = "DotBracket.without_pseudoknots"
    params = {"self": "DotBracket"}
    ghost_params = {"E0": "list[Entry]", "R0": "list[tuple[int,int,int]]", "O0": "list[int]", "G0": "list[int]"}
    # the painting hypotheses of common_c; instead of strands_disjoint(R0) its source: R0 are stems of a valid structure E0
    requires = ["valid(E0)", "regions_match(E0, R0)", "len(E0) == len(self.structure)"] \
        + [_ren(t) for t in _c.PAINTED_REQ if not t.startswith("strands_disjoint")] \
        + ["len(self.sequence) == len(self.structure)", "len(R0) >= 0"]
    ghost_entry = [c_.replace("self.entries", "E0").replace("regions", "R0") for c_ in _c.make_dot_bracket.ghost_entry]
    returns = "DotBracket"
    ghost_returns = {"K": "list[int]"}
    raises = []
    ensures = ["fresh(result) and result.sequence == self.sequence",
               "len(result.structure) == len(self.structure) and forall(lambda x: implies(0 <= x and x < len(self.structure), "
               "result.structure[x] == ite(self.structure[x] == '(' or self.structure[x] == ')', self.structure[x], '.')))",
               "decoded_wf(result.pairs, result.structure, len(result.structure))",
               "round_pairs(result.pairs, R0, O0, G0)",
               "round_closed(result.pairs, R0, O0, G0, K)"]
    ensures_labels = {0: "fresh-same-sequence", 1: "round-brackets-kept-rest-dotted", 2: "pairs-are-distinct-ordered-positions",
                      3: "decoded-pairs-are-level-0-pairs", 4: "every-level-0-pair-decoded(K)"}
    modifies = []
    callee_variants = {"DotBracket.__post_init__": "full"}
    ghost = [
        {"when": "before", "at": "return DotBracket(", "label": "level0-regions",
         "do": ["let IDX = list(range(len(R0)))",
                "let R = [R0[a] for a in IDX if O0[a] == 0]",
                "let F = filter_index()",
                "let FP = filter_pos()",
                "assert kept_regions(R0, O0, R, F, FP)",
                "let O = fill(len(R), 0)",
                "let G = [ite(G0[x] >= 0 and O0[G0[x]] == 0, FP[G0[x]], 0 - 1) for x in range(len(self.structure))]",
                ]},
    ]
    ghost_exit = ["let K = __post_init___K"]


# ------------------------------------------------------------------------------------------------ BpSeq.dot_bracket (ASSUMED)
class bpseq_dot_bracket:
    """ASSUMED callee contract (never a verify target here; the MILP encoder is the subject of C02/C13): the cached
    property BpSeq.dot_bracket returns - on every access the same object, ghost slot self.dot_bracket_ - the text that
    __make_dot_bracket writes for the stems of the structure under SOME proper level assignment O (ghost: regions R,
    levels O, inverse maps G, GS), without raising (solver available or FCFS fallback, at most 30 levels)."""
    target = "BpSeq.dot_bracket"
    params = {"self": "BpSeq"}
    requires = ["valid(self.entries)"]
    returns = "DotBracket"
    returns_value = "self.dot_bracket_"
    ghost_returns = {"R": "list[tuple[int,int,int]]", "O": "list[int]", "G": "list[int]", "GS": "list[int]"}
    raises = []
    ensures = ["len(result.structure) == len(self.entries)", "seq_of(self.entries, result.sequence)",
               "len(R) >= 0 and regions_match(self.entries, R)", "regions_cover(self.entries, R, GS)",
               "len(O) >= len(R) and proper(R, O)",
               "region_map(G, R, len(self.entries), len(R))", "painted_g(result.structure, R, O, G)"]
    modifies = []


class bpseq_dot_bracket_text(bpseq_dot_bracket):
    """the same ASSUMED contract, reduced to what BpSeq.elements uses of the cached dot-bracket: its structure text has one
    character per entry (every access returns the same object, ghost slot self.dot_bracket_)"""
    ghost_returns = {}
    ensures = ["len(result.structure) == len(self.entries)"]


# ------------------------------------------------------------------------------------------------ BpSeq.without_pseudoknots
@spec
def same_sequence(L, E):
    return len(L) == len(E) and forall(lambda x: implies(0 <= x and x < len(E), L[x].index_ == E[x].index_ and L[x].sequence == E[x].sequence))


@spec
def closed_both(L, R, O, G, n):
    """in L every 3' position y of a level-0 region is paired with its 5' partner, both ways (0-based positions, 1-based pairs)"""
    return forall(lambda y: implies(0 <= y and y < n and G[y] >= 0 and O[G[y]] == 0 and on3(R, G[y], y),
                                    L[y].pair == lo5(R, G[y]) + (hi3(R, G[y]) - y) + 1 and L[lo5(R, G[y]) + (hi3(R, G[y]) - y)].pair == y + 1))


class bpseq_without_pseudoknots:
    """C12 'removing pseudoknots returns exactly the pairs that the structure's own dot-bracket writes with round brackets,
    with the sequence unchanged', and writes nothing that existed before the call"""
    target = "BpSeq.without_pseudoknots"
    params = {"self": "BpSeq"}
    requires = ["valid(self.entries)"]
    returns = "BpSeq"
    raises = []
    ensures = ["fresh(result) and all_fresh(result.entries)",
               "valid(result.entries)",
               "same_sequence(result.entries, self.entries)",
               "forall(lambda x: implies(0 <= x and x < len(self.entries), result.entries[x].pair == "
               "ite(self.dot_bracket_.structure[x] == '(' or self.dot_bracket_.structure[x] == ')', self.entries[x].pair, 0)))",
               "pairs_of(result.pairs, result.entries)"]
    ensures_labels = {0: "fresh", 1: "valid", 2: "sequence-unchanged", 3: "exactly-the-round-bracket-pairs", 4: "pairs-dict-is-the-pairing"}
    modifies = []
    ghost_args = {"DotBracket.without_pseudoknots": {"E0": "self.entries", "R0": "dot_bracket_R", "O0": "dot_bracket_O", "G0": "dot_bracket_G"}}
    ghost_exit = [
        "let R = dot_bracket_R", "let O = dot_bracket_O", "let G = dot_bracket_G", "let T = self.dot_bracket_.structure",
        "let L = result.entries", "let E = self.entries", "let P = from_dotbracket_D.pairs", "let K = without_pseudoknots_K",
        "let M = from_dotbracket_M",
        # the facts of the three callee contracts that the argument uses, restated; everything else is dropped
        "assert valid(E)", "assert len(T) == len(E)", "assert len(R) >= 0 and regions_match(E, R)",
        "assert len(O) >= len(R) and proper(R, O)", "assert region_map(G, R, len(E), len(R))", "assert painted_g(T, R, O, G)",
        "assert round_pairs(P, R, O, G)", "assert round_closed(P, R, O, G, K)",
        "assert written_pairs(L, P, len(P))", "assert only_pairs(L, P, M, len(P))", "assert valid(L)",
        "assert same_sequence(L, E)", "assert pairs_of(result.pairs, L)", "assert fresh(result) and all_fresh(L)",
        "keep 14",
        # the round brackets of the text are the strands of the level-0 regions
        "forall x | assert implies(0 <= x and x < len(E) and T[x] == '(', G[x] >= 0 and on5(R, G[x], x) and O[G[x]] == 0)",
        "forall x | assert implies(0 <= x and x < len(E) and T[x] == ')', G[x] >= 0 and on3(R, G[x], x) and O[G[x]] == 0)",
        "forall x | assert implies(0 <= x and x < len(E) and G[x] >= 0 and O[G[x]] == 0, T[x] == ite(on5(R, G[x], x), '(', ')'))",
        # every 3' position y of a level-0 region: the new structure pairs y with its partner, both ways
        "forall y | let c = 0 <= y and y < len(E) and G[y] >= 0 and O[G[y]] == 0 and on3(R, G[y], y) | let q = K[y]"
        " | assert implies(c, 0 <= q and q < len(P) and P[q][1] == y)"
        " | assert implies(c, P[q][0] == lo5(R, G[y]) + (hi3(R, G[y]) - y))"
        " | assert implies(c, L[P[q][0]].pair == P[q][1] + 1 and L[P[q][1]].pair == P[q][0] + 1)"
        " | assert implies(c, L[y].pair == lo5(R, G[y]) + (hi3(R, G[y]) - y) + 1 and L[lo5(R, G[y]) + (hi3(R, G[y]) - y)].pair == y + 1)",
        "assert closed_both(L, R, O, G, len(E))",
        "forall x | let c = 0 <= x and x < len(E) and T[x] == '(' | let a = G[x] | let y = partner(R, G[x], x)"
        " | assert implies(c, 0 <= a and a < len(R) and on5(R, a, x) and O[a] == 0)"
        " | assert implies(c, on3(R, a, y) and 0 <= y and y < len(E))"
        " | assert implies(c, G[y] == a)"
        " | assert implies(c, E[x].pair == y + 1)"
        " | assert implies(c, 0 <= y and y < len(E) and G[y] >= 0 and O[G[y]] == 0 and on3(R, G[y], y) and lo5(R, G[y]) + (hi3(R, G[y]) - y) == x)"
        " | assert closed_both(L, R, O, G, len(E))"
        " | assert_last 2 implies(c, L[x].pair == y + 1)"
        " | assert implies(c, L[x].pair == E[x].pair)",
        "forall x | let c = 0 <= x and x < len(E) and T[x] == ')' | let a = G[x] | let x5 = lo5(R, G[x]) + (hi3(R, G[x]) - x)"
        " | assert implies(c, 0 <= a and a < len(R) and on3(R, a, x) and O[a] == 0)"
        " | assert implies(c, on5(R, a, x5) and 0 <= x5 and x5 < len(E))"
        " | assert implies(c, E[x5].pair == x + 1)"
        " | assert implies(c, E[E[x5].pair - 1].pair == x5 + 1)"
        " | assert_last 2 implies(c, E[x].pair == x5 + 1)"
        " | assert implies(c, L[x].pair == E[x].pair)",
        "forall x | let c = 0 <= x and x < len(E) and L[x].pair != 0 | let q = M[x] | let y = P[q][1] | let a = G[y]"
        " | assert implies(c, 0 <= q and q < len(P) and (P[q][0] == x or y == x))"
        " | assert implies(c, 0 <= y and y < len(E) and a >= 0 and a < len(R) and O[a] == 0 and on3(R, a, y) and P[q][0] == lo5(R, a) + (hi3(R, a) - y))"
        " | assert implies(c, on5(R, a, P[q][0]) and G[P[q][0]] == a)"
        " | assert implies(c, T[y] == ')' and T[P[q][0]] == '(')"
        " | assert implies(c, T[x] == '(' or T[x] == ')')",
    ]


# ------------------------------------------------------------------------------------------------ Strand / Stem construction
@spec
def strand_of(sd, L, db):
    """C07 'every reported strand's sequence and structure text equal the corresponding slices': the strand sd made from
    the entry list L (consecutive positions first..last) carries L's nucleotides and the slice db[first-1:last]"""
    return (sd.first == L[0].index_ and sd.last == L[0].index_ + len(L) - 1
            and len(sd.sequence) == len(L) and forall(lambda t: implies(0 <= t and t < len(L), sd.sequence[t] == L[t].sequence))
            and len(sd.structure) == len(L) and forall(lambda t: implies(0 <= t and t < len(L), sd.structure[t] == db[L[0].index_ - 1 + t])))


class strand_from_entries:
    """Strand.from_bpseq_entries(entries, dotbracket, reverse): first/last are the ends of the run of positions the entries
    occupy, the sequence their nucleotides in order, the structure the slice dotbracket[first-1:last]; with reverse=True
    the ends are swapped and the nucleotides reversed (the structure is then whatever dotbracket[first-1:last] is for the
    swapped ends - not used anywhere in the library)"""
    target = "Strand.from_bpseq_entries"
    params = {"entries": "list[Entry]", "dotbracket": "cstr", "reverse": "bool"}
    defaults = {"reverse": False}
    requires = ["len(entries) >= 1", "1 <= entries[0].index_", "entries[0].index_ + len(entries) - 1 <= len(dotbracket)"]
    returns = "rec[Strand]"
    raises = []
    ensures = ["implies(not reverse, strand_of(result, entries, dotbracket))",
               "implies(reverse, result.first == entries[0].index_ + len(entries) - 1 and result.last == entries[0].index_ "
               "and len(result.sequence) == len(entries) and forall(lambda t: implies(0 <= t and t < len(entries), result.sequence[t] == entries[len(entries) - 1 - t].sequence)))"]
    ensures_labels = {0: "ends-sequence-structure-are-the-slices", 1: "reverse:ends-swapped-sequence-reversed"}
    modifies = []


@spec
def strand_at(sd, E, db, lo, n):
    """the strand sd is the run of n positions of E starting at the 0-based position lo, with the slices of sequence and text"""
    return (sd.first == lo + 1 and sd.last == lo + n
            and len(sd.sequence) == n and forall(lambda t: implies(0 <= t and t < n, sd.sequence[t] == E[lo + t].sequence))
            and len(sd.structure) == n and forall(lambda t: implies(0 <= t and t < n, sd.structure[t] == db[lo + t])))


@spec
def onto_interval(F, PS, m, a, w):
    """F maps 0..m-1 strictly increasingly into the interval a..a+w-1 and every point of the interval is hit (PS: inverse)"""
    return (forall(lambda j: implies(0 <= j and j < m, a <= F[j] and F[j] <= a + w - 1))
            and forall(lambda j, k: implies(0 <= j and j < k and k < m, F[j] < F[k]))
            and forall(lambda i: implies(a <= i and i <= a + w - 1, 0 <= PS[i] and PS[i] < m and F[PS[i]] == i)))


LEMMAS.update({
    # a strictly increasing map from 0..m-1 onto an integer interval a..a+w-1 is j -> a + j (induction on j) ...
    "consecutive": {"kind": "smt", "params": ["F", "PS", "m", "a", "w", "j"], "shapes": ["list[int]", "list[int]", "int", "int", "int", "int"],
                    "requires": ["onto_interval(F, PS, m, a, w)"],
                    "decreases": "ite(j > 0, j, 0)",
                    "steps": ["use consecutive(F, PS, m, a, w, j - 1) when j > 0",
                              "let c = 0 <= j and j < m", "let i = a + j",
                              "assert implies(c, a <= F[j] and F[j] <= a + w - 1)",
                              "assert implies(c and j == 0, 0 <= PS[a] and PS[a] < m and F[PS[a]] == a)",
                              "assert implies(c and j == 0, implies(PS[a] > 0, F[0] < F[PS[a]]))",
                              "assert implies(c and j == 0, F[0] == a)",
                              "assert implies(c and j > 0, F[j - 1] == i - 1 and F[j - 1] < F[j] and a <= i and i <= a + w - 1)",
                              "assert implies(c and j > 0, 0 <= PS[i] and PS[i] < m and F[PS[i]] == i)",
                              "assert implies(c and j > 0, implies(PS[i] < j - 1, F[PS[i]] < F[j - 1]))",
                              "assert implies(c and j > 0, PS[i] >= j)",
                              "assert implies(c and j > 0, implies(j < PS[i], F[j] < F[PS[i]]))",
                              "assert implies(c and j > 0, F[j] == i)"],
                    "ensures": ["implies(0 <= j and j < m, F[j] == a + j)"]},
    # ... and has exactly as many points as the interval
    "onto_length": {"kind": "smt", "params": ["F", "PS", "m", "a", "w"], "shapes": ["list[int]", "list[int]", "int", "int", "int"],
                    "requires": ["onto_interval(F, PS, m, a, w)", "m >= 0", "w >= 1"],
                    "steps": ["let k = PS[a + w - 1]",
                              "assert 0 <= k and k < m and F[k] == a + w - 1",
                              "use consecutive(F, PS, m, a, w, k)",
                              "use consecutive(F, PS, m, a, w, m - 1)",
                              "assert k == w - 1 and F[m - 1] == a + m - 1 and F[m - 1] <= a + w - 1"],
                    "ensures": ["m == w"]},
})


class stem_from_entries:
    """Stem.from_bpseq_entries(T, E, db) for a run T of stacked pairs of the valid structure E (C07 'mirrored 5' and 3'
    strands'): the 5' strand is the run itself, the 3' strand the run of the partners - it ends at pair(first5) and begins
    at pair(last5) - and both carry the slices of the sequence and of the text db"""
    target = "Stem.from_bpseq_entries"
    params = {"strand5p_entries": "list[Entry]", "all_entries": "list[Entry]", "dotbracket": "cstr"}
    requires = ["valid(all_entries)", "len(strand5p_entries) >= 1", "run_ok(all_entries, strand5p_entries)",
                "len(dotbracket) == len(all_entries)"]
    returns = "Stem"
    raises = []
    ensures = ["fresh(result)",
               "stem_of(result, strand5p_entries)",
               "result.strand3p.first == strand5p_entries[len(strand5p_entries) - 1].pair and result.strand3p.last == strand5p_entries[0].pair",
               "strand_at(result.strand5p, all_entries, dotbracket, strand5p_entries[0].index_ - 1, len(strand5p_entries))",
               "strand_at(result.strand3p, all_entries, dotbracket, strand5p_entries[0].pair - len(strand5p_entries), len(strand5p_entries))"]
    ensures_labels = {0: "fresh", 1: "strand-ends", 2: "3'-strand-mirrors-5'-strand", 3: "5'-strand-slices", 4: "3'-strand-slices"}
    modifies = []
    ghost = [
        {"when": "after", "at": "strand3p_entries = list(filter(", "label": "3p-run",
         "do": ["let T = strand5p_entries", "let E = all_entries", "let w = len(T)", "let a = T[0].pair - w",
                "let F = filter_index()", "let PS = filter_pos()", "let m = len(strand3p_entries)",
                "forall t | assert implies(0 <= t and t < w, T[t].pair == T[0].pair - t and T[t].index_ == T[0].index_ + t and T[t].index_ < T[t].pair and 1 <= T[t].pair and T[t].pair <= len(E))",
                "assert w >= 1 and T[w - 1].pair == T[0].pair - (w - 1) and T[w - 1].index_ == T[0].index_ + (w - 1) and T[w - 1].index_ < T[w - 1].pair"
                " and 1 <= T[w - 1].pair and T[0].pair <= len(E)",
                "assert_last 1 a >= 0 and a + w <= len(E) and T[0].index_ + w - 1 < a + 1",
                "forall i | assert implies(a <= i and i <= a + w - 1, T[a + w - 1 - i].pair == i + 1 and E[i].index_ == i + 1)"
                " | assert implies(a <= i and i <= a + w - 1, E[i].index_ in paired)"
                " | assert implies(a <= i and i <= a + w - 1, 0 <= PS[i] and PS[i] < m and F[PS[i]] == i)",
                "forall j | assert implies(0 <= j and j < m, 0 <= F[j] and F[j] < len(E) and E[F[j]].index_ in paired and E[F[j]].index_ == F[j] + 1)"
                " | assert implies(0 <= j and j < m, a <= F[j] and F[j] <= a + w - 1)",
                "assert onto_interval(F, PS, m, a, w)",
                "use onto_length(F, PS, m, a, w)",
                "forall j | use consecutive(F, PS, m, a, w, j) | assert implies(0 <= j and j < m, F[j] == a + j)"
                " | assert implies(0 <= j and j < w, strand3p_entries[j] is E[a + j])",
                "assert m == w"]},
    ]


# ------------------------------------------------------------------------------------------------ BpSeq.elements (stems part)
@spec
def stem_of(st, T):
    """the Stem object st describes the run T of stacked pairs: 5' strand = its positions, 3' strand = their partners, mirrored"""
    return (st.strand5p.first == T[0].index_ and st.strand5p.last == T[0].index_ + len(T) - 1
            and st.strand3p.first == T[0].pair - len(T) + 1 and st.strand3p.last == T[0].pair)


@spec
def stems_are(ST, S):
    return len(ST) == len(S) and forall(lambda a: implies(0 <= a and a < len(S), stem_of(ST[a], S[a])))


# ------------------------------------------------------------------------------------------------ BpSeq.without_isolated
@spec
def lo_of(E, x):
    """0-based position of the 5' partner of the pair that the paired position x belongs to"""
    return ite(qual(E[x]), x, E[x].pair - 1)


@spec
def stem_no(E, GS, x):
    """number of the stem that the pair of the paired position x belongs to (GS: 5' position -> its stem)"""
    return ite(qual(E[x]), GS[x], GS[E[x].pair - 1])


@spec
def stem_len(E, S, GS, x):
    """length of the stem that the pair of the paired position x belongs to"""
    return ite(qual(E[x]), len(S[GS[x]]), len(S[GS[E[x].pair - 1]]))


@spec
def isolated(E, S, GS, x):
    """position x is paired and its pair is a stem of length one (S: the stems, GS: 5' position -> its stem)"""
    return E[x].pair != 0 and stem_len(E, S, GS, x) == 1


@spec
def listed_isolated(E, S, GS, U, W, upto):
    """U lists isolated positions only, and every isolated position whose stem has a number < upto is listed (at W[x])"""
    return (forall(lambda q: implies(0 <= q and q < len(U), 0 <= U[q] and U[q] < len(E) and isolated(E, S, GS, U[q])))
            and forall(lambda x: implies(0 <= x and x < len(E) and isolated(E, S, GS, x) and stem_no(E, GS, x) < upto,
                                         0 <= W[x] and W[x] < len(U) and U[W[x]] == x)))


class bpseq_without_isolated:
    """C12 'removing isolated pairs returns exactly the pairs that belong to stems of length two or more, with the sequence
    unchanged'; the receiver itself when nothing is isolated, otherwise a fresh object made of fresh entries; nothing that
    existed before the call is written.  S, GS (ghost): the stems of the structure and the map position -> stem.
    old(..) = the receiver as it was at the call (by the frame clauses it still is)."""
    target = "BpSeq.without_isolated"
    params = {"self": "BpSeq"}
    requires = ["valid(self.entries)", "pairs_of(self.pairs, self.entries)", ENTRIES_ALLOCATED]
    returns = "BpSeq"
    ghost_returns = {"S": "list[list[Entry]]", "GS": "list[int]"}
    raises = []
    ensures = ["old(stems_ok(self.entries, S) and stems_cover(self.entries, S) and stems_maximal(self.entries, S) and stems_inverse(self.entries, S, GS))",
               "implies(forall(lambda a: implies(0 <= a and a < len(S), len(S[a]) >= 2)), result is self)",
               "(result is self) or (fresh(result) and all_fresh(result.entries))",
               "valid(result.entries)",
               "len(result.entries) == len(self.entries) and forall(lambda x: implies(0 <= x and x < len(self.entries), "
               "result.entries[x].index_ == old(self.entries[x].index_) and result.entries[x].sequence == old(self.entries[x].sequence)))",
               "forall(lambda x: implies(0 <= x and x < len(self.entries), result.entries[x].pair == "
               "old(ite(self.entries[x].pair != 0 and stem_len(self.entries, S, GS, x) >= 2, self.entries[x].pair, 0))))",
               "pairs_of(result.pairs, result.entries)"]
    ensures_labels = {0: "S-are-the-stems", 1: "self-when-nothing-isolated", 2: "self-or-fresh", 3: "valid", 4: "sequence-unchanged",
                      5: "exactly-the-pairs-of-stems-of-length>=2", 6: "pairs-dict-is-the-pairing"}
    modifies = []
    locals = {"to_unpair": "list[int]"}
    ghost = [
        {"when": "after", "at": "stems, _, _, _ = self.elements", "label": "S", "do": ["let S = elements_S", "let GS = elements_GS", "let E = self.entries"]},
        {"when": "after", "at": "to_unpair = []", "label": "W0", "do": ["let W = fill(len(self.entries), 0 - 1)"]},
        {"when": "before", "at": "if stem.strand5p.first", "loop": 0, "label": "stem-k",
         "do": ["let T = S[k]", "let p5 = T[0].index_ - 1", "let p3 = T[0].pair - 1",
                "assert stem_of(stem, T) and len(T) >= 1 and 0 <= p5 and p5 < p3 and p3 < len(E)",
                "assert E[p5] is T[0] and qual(E[p5]) and lo_of(E, p5) == p5",
                "assert 0 <= GS[p5] and GS[p5] < len(S) and covered(p5 + 1, S[GS[p5]])",
                "assert GS[p5] == k",
                "assert valid(E)",
                "assert_last 5 E[p5].pair == p3 + 1 and E[E[p5].pair - 1].pair == p5 + 1",
                "assert E[p3].pair == p5 + 1 and not qual(E[p3]) and lo_of(E, p3) == p5",
                # an isolated position whose stem is stem k is one of the two ends of that (one-pair) stem
                "forall x | assert implies(0 <= x and x < len(E) and E[x].pair != 0, 0 <= lo_of(E, x) and lo_of(E, x) < len(E) and qual(E[lo_of(E, x)]))"
                " | assert implies(0 <= x and x < len(E) and E[x].pair != 0, stem_no(E, GS, x) == GS[lo_of(E, x)])"
                " | assert implies(0 <= x and x < len(E) and E[x].pair != 0 and stem_no(E, GS, x) == k, covered(lo_of(E, x) + 1, T))"
                " | assert implies(0 <= x and x < len(E) and E[x].pair != 0 and stem_no(E, GS, x) == k and len(T) == 1, lo_of(E, x) == p5)"
                " | assert implies(0 <= x and x < len(E) and E[x].pair != 0 and stem_no(E, GS, x) == k and len(T) == 1, x == p5 or x == p3)",
                "assert implies(len(T) == 1, isolated(E, S, GS, p5) and isolated(E, S, GS, p3))",
                "let U0 = to_unpair",
                "assert (stem.strand5p.first == stem.strand5p.last) == (len(T) == 1) and stem.strand5p.first - 1 == p5 and implies(len(T) == 1, stem.strand3p.first - 1 == p3)",
                ]},
        {"when": "after", "at": "if stem.strand5p.first", "loop": 0, "label": "listed",
         # ghost inverse of to_unpair: the two ends of a one-pair stem are listed at the next two places
         "do": ["let W = ite(len(T) == 1, upd(upd(W, p5, len(U0)), p3, len(U0) + 1), W)",
                "let U1 = to_unpair",
                "forall q | let c = 0 <= q and q < len(U1)"
                " | assert implies(c, (q < len(U0) and U1[q] == U0[q]) or (len(T) == 1 and (U1[q] == p5 or U1[q] == p3)))"
                " | assert implies(c and q < len(U0), 0 <= U0[q] and U0[q] < len(E) and isolated(E, S, GS, U0[q]))"
                " | assert implies(c, 0 <= U1[q] and U1[q] < len(E) and isolated(E, S, GS, U1[q]))",
                "forall x | let c = 0 <= x and x < len(E) and isolated(E, S, GS, x)"
                " | assert implies(c and stem_no(E, GS, x) == k, len(T) == 1 and (x == p5 or x == p3))"
                " | assert implies(c and stem_no(E, GS, x) < k, x != p5 and x != p3)"
                " | assert implies(c and stem_no(E, GS, x) < k + 1, 0 <= W[x] and W[x] < len(U1) and U1[W[x]] == x)"]},
        {"when": "after", "at": "entries = ", "label": "copies-are-fresh-objects",
         "do": ["assert all_fresh(entries)"]},
        {"when": "after", "at": "entries = ", "label": "restate",
         # what the rest of the function needs, restated over the receiver as it was at the call; everything else is dropped
         "do": ["let U = to_unpair", "let n = len(E)",
                "assert old(valid(self.entries))",
                "assert " + ENTRIES_ALLOCATED,
                "assert old(stems_ok(self.entries, S) and stems_cover(self.entries, S) and stems_maximal(self.entries, S) and stems_inverse(self.entries, S, GS))",
                "assert old(listed_isolated(self.entries, S, GS, U, W, len(S)))",
                "assert len(U) > 0 and n >= 0 and len(W) == n and n == old(len(self.entries)) and E == old(self.entries)",
                "assert 0 <= U[0] and U[0] < n",
                "assert all_fresh(entries) and len(entries) == n and n > 0 and fresh(entries[0])",
                "assert forall(lambda x: implies(0 <= x and x < n, entries[x].index_ == old(self.entries[x].index_) and "
                "entries[x].sequence == old(self.entries[x].sequence) and entries[x].pair == old(self.entries[x].pair)))",
                "assert " + FRAME_ENTRY_PAIR,
                "assert " + FRAME_ENTRY_PAIR.replace("pair", "index_"),
                "assert " + FRAME_ENTRY_PAIR.replace("pair", "sequence"),
                "keep 11"]},
        {"when": "before", "at": "", "loop": 1, "label": "listed-is-isolated",
         "do": ["let gi = i", "assert 0 <= gi and gi < n and gi == U[m] and old(isolated(self.entries, S, GS, gi))"]},
        {"when": "before", "at": "return BpSeq(entries)", "label": "valid",
         # (every step names the terms its instances are about: the copies are the references base + x, which the solver
         # cannot use as triggers)
         "do": ["forall x | let c = 0 <= x and x < n | let pr = old(self.entries[x].pair) | let lo = old(lo_of(self.entries, x))"
                " | let sn = old(stem_no(self.entries, GS, x))"
                " | assert implies(c and pr != 0, 0 <= lo and lo < n and old(qual(self.entries[lo])) and sn == GS[lo])"
                " | assert implies(c and pr != 0, 0 <= GS[lo] and GS[lo] < len(S) and len(S[GS[lo]]) >= 1)"
                " | assert implies(c and pr != 0, 0 <= sn and sn < len(S) and old(stem_len(self.entries, S, GS, x)) >= 1)",
                "forall x | let c = 0 <= x and x < n | let io = old(isolated(self.entries, S, GS, x)) | let pr = old(self.entries[x].pair)"
                " | let sn = old(stem_no(self.entries, GS, x))"
                " | assert implies(c and io, pr != 0 and 0 <= sn and sn < len(S))"
                " | assert implies(c and io, 0 <= W[x] and W[x] < len(U) and U[W[x]] == x)"
                " | assert forall(lambda q: implies(0 <= q and q < len(U), entries[U[q]].pair == 0))"
                " | assert_last 2 implies(c and io, entries[U[W[x]]].pair == 0)"
                " | assert_last 3 implies(c and io, entries[x].pair == 0)"
                " | assert implies(c and not io, entries[x].pair == pr)"
                " | assert_last 2 implies(c, entries[x].pair == ite(io, 0, pr))"
                " | assert implies(c, entries[x].pair == ite(io, 0, pr))"
                " | assert implies(c and pr != 0, old(stem_len(self.entries, S, GS, x)) >= 1)"
                " | assert implies(c, entries[x].pair == old(ite(self.entries[x].pair != 0 and stem_len(self.entries, S, GS, x) >= 2, self.entries[x].pair, 0)))",
                "forall x | assert implies(0 <= x and x < n, entries[x].pair == old(ite(isolated(self.entries, S, GS, x), 0, self.entries[x].pair)))",
                # a pair is isolated at both ends or at neither (both ends belong to the same stem)
                "forall x | let pr = old(self.entries[x].pair) | let c = 0 <= x and x < n and pr > 0 | let y = pr - 1"
                " | assert implies(c, old(self.entries[x].index_) == x + 1 and y != x and 0 <= y and y < n and old(self.entries[y].pair) == x + 1 and old(self.entries[y].index_) == y + 1)"
                " | assert_last 1 implies(c, old(stem_len(self.entries, S, GS, y)) == old(stem_len(self.entries, S, GS, x)))"
                " | assert_last 2 implies(c, old(isolated(self.entries, S, GS, y)) == old(isolated(self.entries, S, GS, x)))"
                " | assert implies(c, old(isolated(self.entries, S, GS, y)) == old(isolated(self.entries, S, GS, x)))",
                "forall x | let c = 0 <= x and x < n and entries[x].pair > 0 | let y = old(self.entries[x].pair) - 1"
                " | assert implies(c, entries[x].pair == old(ite(isolated(self.entries, S, GS, x), 0, self.entries[x].pair)))"
                " | assert_last 1 implies(c, not old(isolated(self.entries, S, GS, x)) and entries[x].pair == old(self.entries[x].pair))"
                " | assert implies(c, 0 <= y and y < n and old(self.entries[y].pair) == x + 1)"
                " | assert implies(c, not old(isolated(self.entries, S, GS, y)))"
                " | assert implies(c, entries[y].pair == old(ite(isolated(self.entries, S, GS, y), 0, self.entries[y].pair)))"
                " | assert_last 5 implies(c, entries[x].pair == old(self.entries[x].pair) and entries[entries[x].pair - 1].pair == x + 1)"
                " | assert implies(c, entries[x].pair == old(self.entries[x].pair) and entries[entries[x].pair - 1].pair == x + 1)",
                "forall x | let c = 0 <= x and x < n"
                " | assert implies(c, entries[x].index_ == old(self.entries[x].index_))"
                " | assert implies(c, old(self.entries[x].index_ == x + 1 and 0 <= self.entries[x].pair and self.entries[x].pair <= len(self.entries) and self.entries[x].pair != x + 1))"
                " | assert implies(c, entries[x].pair == 0 or entries[x].pair == old(self.entries[x].pair))"
                " | assert implies(c, n == old(len(self.entries)))"
                " | assert_last 4 implies(c, entries[x].index_ == x + 1 and 0 <= entries[x].pair and entries[x].pair <= n and entries[x].pair != x + 1)"
                " | assert implies(c, entries[x].index_ == x + 1 and 0 <= entries[x].pair and entries[x].pair <= n and entries[x].pair != x + 1)",
                "assert_last 2 valid(entries)"]},
    ]
    loops = {
        0: {"index": "k", "inv": ["len(to_unpair) >= 0 and len(W) == len(E)", "listed_isolated(E, S, GS, to_unpair, W, k)"],
            "labels": {1: "exactly-the-isolated-positions-listed"}},
        1: {"index": "m", "inv": [
            FRAME_ENTRY_PAIR,
            "forall(lambda x: implies(0 <= x and x < len(E), entries[x].pair == 0 or entries[x].pair == old(self.entries[x].pair)))",
            "forall(lambda q: implies(0 <= q and q < m, entries[to_unpair[q]].pair == 0))",
            "forall(lambda x: implies(0 <= x and x < len(E) and not old(isolated(self.entries, S, GS, x)), entries[x].pair == old(self.entries[x].pair)))"],
            "labels": {0: "only-fresh-entries-written", 2: "listed-positions-unpaired", 3: "other-positions-keep-their-pair"}},
    }


def _defaultdict(e, args, kw, node, st):
    """collections.defaultdict(set): an empty dict whose missing-key read inserts set() (the engine's defaultdict semantics)"""
    from pyvc.engine import VEmptyDict
    from pyvc.values import VFunc, Unsupported
    f = args[0] if args else None
    if not (isinstance(f, VFunc) and f.kind == "builtin" and f.payload == "set") or len(args) != 1 or kw:
        raise Unsupported("defaultdict with this factory")
    return VEmptyDict(default="set")


def _sorted_int_set(e, args, kw, node, st):
    """ASSUMED contract of sorted(S) for a set S of integers: the strictly increasing list of exactly the members of S
    (ghost SORTED_IDX: member -> its position in the result)."""
    import z3
    from pyvc.values import Unsupported, VList, VSet, fresh, sel, to_z3, uid
    if len(args) != 1 or kw or not isinstance(args[0], VSet) or args[0].kshape != ("int",):
        raise Unsupported("sorted() of this value has no assumed contract here")
    S = args[0]
    out = fresh(("list", ("int",)), uid("sorted"))
    n = to_z3(out.length)
    idx = z3.Const(uid("sorted.idx"), z3.ArraySort(z3.IntSort(), z3.IntSort()))
    q, w, k = z3.Int(uid("q")), z3.Int(uid("w")), z3.Int(uid("k"))
    at = lambda t: z3.Select(out.elems, t)
    st.assume(n >= 0)
    st.assume(z3.ForAll([q], z3.Implies(z3.And(q >= 0, q < n), to_z3(sel(S.mem, at(q)))), patterns=[at(q)]))
    st.assume(z3.ForAll([q, w], z3.Implies(z3.And(q >= 0, q < w, w < n), at(q) < at(w)), patterns=[z3.MultiPattern(at(q), at(w))]))
    st.assume(z3.ForAll([k], z3.Implies(to_z3(sel(S.mem, k)), z3.And(idx[k] >= 0, idx[k] < n, at(idx[k]) == k)), patterns=[idx[k]]))
    st.ghost["SORTED_IDX"] = VList(n, idx, ("int",))
    return out


EXTERNALS["collections.defaultdict"] = _defaultdict
EXTERNALS["builtins.sorted"] = _sorted_int_set

# ghost slot of the cached property BpSeq.__stems_entries: the list every access returns (see stems_entries_cached)
CLASSES["BpSeq"]["fields"]["stems_"] = "list[list[Entry]]"
CLASSES["BpSeq"]["derived"].append("stems_")


class stems_entries_cached(_c.stems_entries):
    """the proved contract of BpSeq.__stems_entries (common_c, C01) as seen by a caller that reads the cached property more
    than once: every access returns the same list (ghost slot self.stems_).  ASSUMED: cached_property semantics."""
    returns_value = "self.stems_"
    ensures_in_variant = {}


@spec
def stem_strands(ST, S, E, db, upto):
    """the first `upto` Stem objects describe the first `upto` runs: strand ends and the slices of sequence and text"""
    return forall(lambda a: implies(0 <= a and a < upto,
                                    stem_of(ST[a], S[a])
                                    and strand_at(ST[a].strand5p, E, db, S[a][0].index_ - 1, len(S[a]))
                                    and strand_at(ST[a].strand3p, E, db, S[a][0].pair - len(S[a]), len(S[a]))))


@spec
def stop_ends(stopset, E, S, upto):
    """the stops so far are paired positions inside the structure, and the 5' start and the 3' end of every stem so far are stops"""
    return (forall(lambda x: implies(x in stopset, 0 <= x and x < len(E) and E[x].pair != 0))
            and forall(lambda a: implies(0 <= a and a < upto, (S[a][0].index_ - 1) in stopset and (S[a][0].pair - 1) in stopset)))


@spec
def hairpin_ok(h, E, db):
    """C07 'hairpins are pairs enclosing only unpaired nucleotides' (one direction): the strand of the reported hairpin h
    runs from a nucleotide to its partner, everything strictly between is unpaired, and it carries the slices"""
    return (1 <= h.strand.first and h.strand.first < h.strand.last and h.strand.last <= len(E)
            and E[h.strand.first - 1].pair == h.strand.last
            and forall(lambda x: implies(h.strand.first <= x and x < h.strand.last - 1, E[x].pair == 0))
            and strand_at(h.strand, E, db, h.strand.first - 1, h.strand.last - h.strand.first + 1))


class bpseq_elements:
    """ASSUMED callee contract of BpSeq.elements for its caller without_isolated - the stems component of the returned
    tuple only.  Justification: bpseq_elements_prefix (below, PROVED) shows that the local list `stems` satisfies exactly
    these clauses when the loop-linking part of the function starts; from there to `return stems, ...` no statement assigns
    or mutates `stems` or writes a field of a Stem object (syntactic), and nothing allocated before the call is written."""
    target = "BpSeq.elements"
    params = {"self": "BpSeq"}
    requires = ["valid(self.entries)"]
    returns = "tuple[list[Stem],list[SingleStrand],list[Hairpin],list[Loop]]"
    ghost_returns = {"S": "list[list[Entry]]", "GS": "list[int]"}
    raises = []
    ensures = ["stems_ok(self.entries, S)", "stems_cover(self.entries, S)", "stems_maximal(self.entries, S)", "stems_inverse(self.entries, S, GS)",
               "stems_are(result[0], S)"]
    modifies = []


@spec
def cand_ok(sd, E, db):
    """a loop-strand candidate: runs from a paired nucleotide to the next paired one (not its partner), everything strictly
    between is unpaired, and it carries the slices of sequence and text"""
    return (1 <= sd.first and sd.first < sd.last and sd.last <= len(E)
            and E[sd.first - 1].pair != 0 and E[sd.last - 1].pair != 0 and E[sd.first - 1].pair != sd.last
            and forall(lambda x: implies(sd.first <= x and x < sd.last - 1, E[x].pair == 0))
            and strand_at(sd, E, db, sd.first - 1, sd.last - sd.first + 1))


@spec
def tails_ok(SS, E, db, p0, p1):
    """C07 5'/3' single-strand tails: p0 / p1 are the first / last paired position (0-based); the unpaired prefix (plus the
    nucleotide p0) is reported as the 5' single strand exactly when it is not empty, likewise the suffix from p1 as the 3' one"""
    return (0 <= p0 and p0 <= p1 and p1 < len(E) and E[p0].pair != 0 and E[p1].pair != 0
            and forall(lambda x: implies(0 <= x and x < p0, E[x].pair == 0))
            and forall(lambda x: implies(p1 < x and x < len(E), E[x].pair == 0))
            and len(SS) == ite(p0 > 0, 1, 0) + ite(p1 < len(E) - 1, 1, 0)
            and implies(p0 > 0, SS[0].is5p and not SS[0].is3p and strand_at(SS[0].strand, E, db, 0, p0 + 1))
            and implies(p1 < len(E) - 1, SS[len(SS) - 1].is3p and not SS[len(SS) - 1].is5p
                        and strand_at(SS[len(SS) - 1].strand, E, db, p1, len(E) - p1)))


class bpseq_elements_prefix:
    """PREFIX contract of BpSeq.elements (C07): the function is verified from its entry up to - not including - the
    statement `graph = defaultdict(set)`, i.e. the stems loop, the stops, the 5'/3' tails and the hairpin / loop-candidate
    loop.  The clauses are about the LOCAL variables at that point; the loop-linking graph, the closure walk and the final
    single-strand loop behind it are not verified here (bounded oracle), nor is anything claimed about the returned tuple.
    S, GS: the maximal runs of stacked pairs (cached __stems_entries) and the map 5' position -> run."""
    target = "BpSeq.elements"
    params = {"self": "BpSeq"}
    requires = ["valid(self.entries)"]
    raises = []
    ensures = []
    stop_before = "graph = defaultdict(set)"
    prune_branches = True  # index / slice-bound normalisation is simplified where the path condition decides it
    stop_ensures = [
        "stems_ok(E, S) and stems_cover(E, S) and stems_maximal(E, S) and stems_inverse(E, S, GS)",
        "stems_are(stems, S)",
        "stem_strands(stems, S, E, DB, len(S))",
        "forall(lambda b: implies(0 <= b and b < len(hairpins), hairpin_ok(hairpins[b], E, DB)))",
        "forall(lambda b: implies(0 <= b and b < len(loop_candidates), cand_ok(loop_candidates[b], E, DB)))",
        "tails_ok(single_strands, E, DB, p0, p1)",
    ]
    stop_ensures_labels = {0: "S-are-the-maximal-runs-of-stacked-pairs", 1: "one-Stem-per-run-with-mirrored-strand-ends",
                           2: "stem-strands-are-the-slices", 3: "hairpins-enclose-only-unpaired-and-are-the-slices",
                           4: "loop-candidates-are-unpaired-runs-between-paired-ends-and-are-the-slices",
                           5: "5'-and-3'-tails"}
    modifies = []
    callee_variants = {"BpSeq.__stems_entries": "cached", "BpSeq.dot_bracket": "text"}
    locals = {"stems": "list[Stem]", "single_strands": "list[SingleStrand]", "hairpins": "list[Hairpin]", "loops": "list[Loop]",
              "stopset": "set[int]", "loop_candidates": "list[rec[Strand]]"}
    ghost = [
        {"when": "after", "at": "stopset = set()", "label": "names",
         "do": ["let S = self.stems_", "let GS = __stems_entries_GS", "let E = self.entries", "let DB = self.dot_bracket_.structure",
                "let n = len(E)"]},
        {"when": "after", "at": "stem = Stem.from_bpseq_entries(", "loop": 0, "label": "stem-k",
         "do": ["let T = S[k]", "let w = len(T)", "let i0 = T[0].index_ - 1", "let i1 = T[0].index_ + w - 2",
                "assert stem_of(stem, T) and strand_at(stem.strand5p, E, DB, T[0].index_ - 1, w) and strand_at(stem.strand3p, E, DB, T[0].pair - w, w)",
                "assert w >= 1 and 1 <= T[0].index_ and T[0].index_ + w - 1 < T[0].pair - w + 1 and T[0].pair <= n",
                "assert T[0] is E[i0] and T[w - 1] is E[i1] and T[w - 1].pair == T[0].pair - (w - 1)",
                "assert 0 <= i0 and i0 <= i1 and i1 < n and E[i0].pair == T[0].pair and E[i1].pair == T[0].pair - w + 1",
                "assert E[i0].pair > 0 and E[i1].pair > 0 and E[i0].pair <= n and E[i1].pair <= n and E[i0].index_ == i0 + 1 and E[i1].index_ == i1 + 1",
                "assert E[E[i0].pair - 1].pair == i0 + 1 and E[E[i1].pair - 1].pair == i1 + 1",
                "let e1 = stem.strand5p.first - 1", "let e2 = stem.strand5p.last - 1", "let e3 = stem.strand3p.first - 1", "let e4 = stem.strand3p.last - 1",
                "assert e1 == i0 and e2 == i1 and e3 == E[i1].pair - 1 and e4 == E[i0].pair - 1",
                "assert_last 4 0 <= e1 and e1 < n and 0 <= e2 and e2 < n and 0 <= e3 and e3 < n and 0 <= e4 and e4 < n",
                "assert_last 5 E[e1].pair != 0 and E[e2].pair != 0 and E[e3].pair != 0 and E[e4].pair != 0",
                "let ST0 = stems", "let SS0 = stopset"]},
        {"when": "after", "at": "stopset.add(stem.strand3p.last - 1)", "loop": 0, "label": "stops-k",
         "do": ["assert len(ST0) == k and stem_strands(ST0, S, E, DB, k)",
                "assert stem_of(stem, T) and strand_at(stem.strand5p, E, DB, T[0].index_ - 1, w) and strand_at(stem.strand3p, E, DB, T[0].pair - w, w)",
                "assert_last 2 stem_strands(stems, S, E, DB, k + 1)",
                "assert stop_ends(SS0, E, S, k)",
                "assert e1 == T[0].index_ - 1 and e4 == T[0].pair - 1 and 0 <= e1 and e1 < n and 0 <= e2 and e2 < n and 0 <= e3 and e3 < n and 0 <= e4 and e4 < n"
                " and E[e1].pair != 0 and E[e2].pair != 0 and E[e3].pair != 0 and E[e4].pair != 0",
                "assert_last 2 stop_ends(stopset, E, S, k + 1)"]},
        {"when": "before", "at": "stops = sorted(stopset)", "label": "stems-done",
         # (right behind the stems loop: the last hypotheses are its invariants at exit)
         "do": ["assert_last 5 len(stems) == len(S) and stem_strands(stems, S, E, DB, len(S))",
                "assert_last 1 stems_are(stems, S)"]},
        {"when": "after", "at": "stops = sorted(stopset)", "label": "stops",
         "do": ["let IX = SORTED_IDX", "let f0 = S[0][0].index_ - 1",
                "assert len(S) > 0 and f0 in stopset",
                "assert 0 <= IX[f0] and IX[f0] < len(stops)",
                "assert len(stops) > 0",
                "forall q | assert implies(0 <= q and q < len(stops), stops[q] in stopset)"
                " | assert implies(0 <= q and q < len(stops), 0 <= stops[q] and stops[q] < n and E[stops[q]].pair != 0)",
                "forall q | assert implies(0 <= q and q < len(stops), stops[0] <= stops[q] and stops[q] <= stops[len(stops) - 1])",
                # the first / last stop is the first / last paired position
                "let p0 = stops[0]", "let p1 = stops[len(stops) - 1]",
                "forall x | let c = 0 <= x and x < n and qual(E[x]) | let a = GS[x] | let b5 = S[a][0].index_ - 1 | let b3 = S[a][0].pair - 1"
                " | assert implies(c, 0 <= a and a < len(S) and covered(x + 1, S[a]))"
                " | assert implies(c, b5 in stopset and b3 in stopset and b5 <= x and E[x].pair - 1 <= b3)"
                " | assert implies(c, stops[IX[b5]] == b5 and stops[IX[b3]] == b3 and 0 <= IX[b5] and IX[b5] < len(stops) and 0 <= IX[b3] and IX[b3] < len(stops))"
                " | assert implies(c, p0 <= b5 and b3 <= p1)"
                " | assert implies(c, p0 <= x and E[x].pair - 1 <= p1)",
                "forall x | let c = 0 <= x and x < n and E[x].pair != 0 | let y = E[x].pair - 1"
                " | assert implies(c, 0 <= y and y < n and E[y].pair == x + 1 and E[x].index_ == x + 1 and E[y].index_ == y + 1)"
                " | assert implies(c, qual(E[x]) or qual(E[y]))"
                " | assert implies(c and qual(E[x]), p0 <= x and y <= p1 and x < y)"
                " | assert implies(c and qual(E[y]), p0 <= y and x <= p1 and y < x)"
                " | assert implies(c, p0 <= x and x <= p1)",
                "assert 0 <= p0 and p0 <= p1 and p1 < n and E[p0].pair != 0 and E[p1].pair != 0"]},
        {"when": "after", "at": "if stops[0]", "label": "tail5",
         "do": ["assert E[0].index_ == 1 and n > 0",
                "assert implies(p0 > 0, len(single_strands) == 1 and single_strands[0].is5p and not single_strands[0].is3p)",
                "assert implies(p0 > 0, strand_of(single_strands[0].strand, self.entries[: p0 + 1], DB))",
                "assert implies(p0 > 0, strand_at(single_strands[0].strand, E, DB, 0, p0 + 1))",
                "assert implies(not (p0 > 0), len(single_strands) == 0)",
                "let SS5 = single_strands"]},
        {"when": "before", "at": "if stops[-1]", "label": "candidates-done",
         # (right behind the hairpin / loop-candidate loop: the last hypotheses are its invariants at exit)
         "do": ["assert_last 5 forall(lambda b: implies(0 <= b and b < len(hairpins), hairpin_ok(hairpins[b], E, DB)))",
                "assert_last 6 forall(lambda b: implies(0 <= b and b < len(loop_candidates), cand_ok(loop_candidates[b], E, DB)))"]},
        {"when": "after", "at": "if stops[-1]", "label": "tail3",
         "do": ["let m3 = len(single_strands) - 1", "let has3 = p1 < n - 1",
                "assert E[p1].index_ == p1 + 1 and stops[-1] == p1",
                "assert len(single_strands) == len(SS5) + ite(has3, 1, 0)",
                "assert implies(has3, single_strands[m3].is3p and not single_strands[m3].is5p)",
                "assert implies(has3, strand_of(single_strands[m3].strand, self.entries[p1:], DB))",
                "assert implies(has3, strand_at(single_strands[m3].strand, E, DB, p1, n - p1))",
                "assert implies(p0 > 0, single_strands[0] is SS5[0] and single_strands[0].is5p and not single_strands[0].is3p and strand_at(single_strands[0].strand, E, DB, 0, p0 + 1))",
                "assert forall(lambda x: implies(0 <= x and x < p0, E[x].pair == 0)) and forall(lambda x: implies(p1 < x and x < n, E[x].pair == 0))",
                "assert 0 <= p0 and p0 <= p1 and p1 < n and E[p0].pair != 0 and E[p1].pair != 0 and n == len(E)",
                "assert len(single_strands) == ite(p0 > 0, 1, 0) + ite(p1 < n - 1, 1, 0)",
                "assert_last 9 tails_ok(single_strands, E, DB, p0, p1)"]},
        {"when": "before", "at": "candidate = self.entries[", "loop": 1, "label": "ends",
         "do": ["assert i >= 1 and i < len(stops) and n == len(E) and n >= 0",
                "assert 0 <= stops[i - 1] and stops[i - 1] < stops[i] and stops[i] < n and E[stops[i - 1]].pair != 0 and E[stops[i]].pair != 0"]},
        {"when": "before", "at": "if all([entry.pair == 0 for entry in candidate[1:-1]])", "loop": 1, "label": "candidate",
         "do": ["let p = stops[i - 1]", "let q = stops[i]", "let C1 = candidate[1:-1]",
                # (the slices carry Python's index normalisation as nested conditionals: every step is proved from the few
                # ground facts it needs)
                "assert 0 <= p and p < q and q < n and E[p].pair != 0 and E[q].pair != 0",
                "assert i >= 1 and i < len(stops) and n == len(E) and n >= 0",
                "assert_last 3 len(candidate) == q - p + 1 and len(C1) == q - p - 1",
                "forall t | assert_last 4 implies(0 <= t and t < q - p + 1, candidate[t] is E[p + t])"
                " | assert implies(0 <= t and t < q - p + 1, candidate[t] is E[p + t])",
                "forall t | assert_last 5 implies(0 <= t and t < q - p - 1, C1[t] is E[p + 1 + t])"
                " | assert implies(0 <= t and t < q - p - 1, C1[t] is E[p + 1 + t])",
                "assert_last 6 candidate[0] is E[p] and candidate[len(candidate) - 1] is E[q] and candidate[-1] is E[q]",
                "assert E[p].index_ == p + 1 and E[q].index_ == q + 1",
                "let HP0 = hairpins", "let LC0 = loop_candidates"]},
        {"when": "before", "at": "if candidate[0].pair", "loop": 1, "label": "interior",
         "do": ["assert_last 1 forall(lambda t: implies(0 <= t and t < len(C1), C1[t].pair == 0))",
                "assert len(C1) == q - p - 1",
                "forall t | assert implies(0 <= t and t < q - p - 1, C1[t] is E[p + 1 + t])",
                "assert forall(lambda t: implies(0 <= t and t < len(C1), C1[t].pair == 0))",
                "assert len(C1) == q - p - 1",
                "assert_last 3 forall(lambda t: implies(0 <= t and t < q - p - 1, C1[t] is E[p + 1 + t] and C1[t].pair == 0))",
                "forall x | assert_last 1 implies(p + 1 <= x and x < q, C1[x - p - 1] is E[p + 1 + (x - p - 1)] and C1[x - p - 1].pair == 0)"
                " | assert_last 1 implies(p + 1 <= x and x < q, E[x].pair == 0)"
                " | assert implies(p + 1 <= x and x < q, E[x].pair == 0)",
                "assert candidate[0] is E[p] and candidate[-1] is E[q] and E[q].index_ == q + 1",
                "assert_last 1 (candidate[0].pair == candidate[-1].index_) == (E[p].pair == q + 1)",
                "assert len(candidate) == q - p + 1 and candidate[0].index_ == p + 1 and E[q].index_ == q + 1 and E[p].pair != 0 and E[q].pair != 0 and 0 <= p and p < q and q < n and n == len(E)",
                "assert forall(lambda t: implies(0 <= t and t < q - p + 1, candidate[t] is E[p + t]))",
                "assert forall(lambda x: implies(p + 1 <= x and x < q, E[x].pair == 0))",
                "let fr0 = frontier()",
                "assert len(HP0) >= 0 and forall(lambda b: implies(0 <= b and b < len(HP0), ident(HP0[b]) < fr0 and hairpin_ok(HP0[b], E, DB)))",
                "assert len(LC0) >= 0 and forall(lambda b: implies(0 <= b and b < len(LC0), cand_ok(LC0[b], E, DB)))"]},
        {"when": "after", "at": "hairpins.append(", "loop": 1, "label": "hairpin",
         # the hypotheses in reach of assert_last: the five restated facts of the block above, the branch condition, the
         # callee's postcondition, then what is asserted here
         "do": ["let h = hairpins[len(hairpins) - 1]", "let sd = h.strand",
                "assert_last 12 strand_of(sd, candidate, DB) and E[p].pair == q + 1 and fr0 <= ident(h)",
                "assert_last 13 sd.first == p + 1 and sd.last == q + 1 and strand_at(sd, E, DB, p, q - p + 1)",
                "assert_last 14 hairpin_ok(h, E, DB)",
                "assert_last 15 forall(lambda b: implies(0 <= b and b < len(HP0), ident(HP0[b]) < ident(h) and hairpin_ok(HP0[b], E, DB)))",
                "assert_last 16 forall(lambda b: implies(0 <= b and b < len(hairpins), ident(hairpins[b]) < frontier() and hairpin_ok(hairpins[b], E, DB)))"]},
        {"when": "after", "at": "loop_candidates.append(", "loop": 1, "label": "loop-candidate",
         "do": ["let sd = loop_candidates[len(loop_candidates) - 1]",
                "assert_last 12 strand_of(sd, candidate, DB) and E[p].pair != q + 1 and E[p].pair != 0 and E[q].pair != 0",
                "assert_last 13 sd.first == p + 1 and sd.last == q + 1 and strand_at(sd, E, DB, p, q - p + 1)",
                "assert_last 14 cand_ok(sd, E, DB)",
                "assert_last 15 forall(lambda b: implies(0 <= b and b < len(loop_candidates), cand_ok(loop_candidates[b], E, DB)))",
                "assert_last 16 forall(lambda b: implies(0 <= b and b < len(hairpins), ident(hairpins[b]) < frontier() and hairpin_ok(hairpins[b], E, DB)))"]},
    ]
    loops = {
        0: {"index": "k", "inv": ["len(stems) == k", "stem_strands(stems, S, E, DB, k)", "stop_ends(stopset, E, S, k)"]},
        1: {"allocates": ["Hairpin.strand"], "inv": [
            "len(hairpins) >= 0 and len(loop_candidates) >= 0",
            "forall(lambda b: implies(0 <= b and b < len(hairpins), ident(hairpins[b]) < frontier() and hairpin_ok(hairpins[b], E, DB)))",
            "forall(lambda b: implies(0 <= b and b < len(loop_candidates), cand_ok(loop_candidates[b], E, DB)))"]},
    }


# ------------------------------------------------------------------------------------------------ BpSeq.elements (loop-linking graph)
@spec
def link(E, LC, a, b):
    """the 3' end of candidate strand a is base-paired with the 5' end of candidate strand b"""
    return E[LC[a].last - 1].pair == LC[b].first


@spec
def graph_only_links(GR, E, LC):
    """every edge of the loop-linking graph joins two different candidates whose consecutive ends are base-paired"""
    return forall(lambda a, b: implies(a in GR and b in GR[a], 0 <= a and a < len(LC) and 0 <= b and b < len(LC) and a != b and link(E, LC, a, b)))


@spec
def graph_all_links(GR, E, LC, i, j):
    """every such pair of candidates (a, b), a < b, handled so far - a < i, or a == i and b < j - is an edge, in either direction"""
    return forall(lambda a, b: implies(0 <= a and a < b and b < len(LC) and (a < i or (a == i and b < j)),
                                       implies(link(E, LC, a, b), a in GR and b in GR[a]) and implies(link(E, LC, b, a), b in GR and a in GR[b])))


@spec
def gaps_classified(KIND, IDX, HPG, LCG, stops, E, upto):
    """every gap between two consecutive stops (numbers < upto) whose interior is unpaired is reported: as the hairpin number IDX[g]
    when its two ends are partners, as the loop-strand candidate number IDX[g] otherwise (HPG / LCG: the gap a hairpin / candidate
    comes from)"""
    return forall(lambda g: implies(0 <= g and g < upto and forall(lambda x: implies(stops[g] < x and x < stops[g + 1], E[x].pair == 0)),
                                    ite(E[stops[g]].pair == stops[g + 1] + 1,
                                        KIND[g] == 1 and 0 <= IDX[g] and IDX[g] < len(HPG) and HPG[IDX[g]] == g,
                                        KIND[g] == 2 and 0 <= IDX[g] and IDX[g] < len(LCG) and LCG[IDX[g]] == g)))


@spec
def hairpin_gaps(HP, HPG, stops):
    """hairpin b spans the gap number HPG[b]: from the stop stops[HPG[b]] to the next one"""
    return (len(HPG) == len(HP)
            and forall(lambda b: implies(0 <= b and b < len(HP), 0 <= HPG[b] and HPG[b] < len(stops) - 1
                                         and HP[b].strand.first == stops[HPG[b]] + 1 and HP[b].strand.last == stops[HPG[b] + 1] + 1)))


@spec
def candidate_gaps(LC, LCG, stops):
    """candidate c spans the gap number LCG[c]"""
    return (len(LCG) == len(LC)
            and forall(lambda c: implies(0 <= c and c < len(LC), 0 <= LCG[c] and LCG[c] < len(stops) - 1
                                         and LC[c].first == stops[LCG[c]] + 1 and LC[c].last == stops[LCG[c] + 1] + 1)))


class bpseq_elements_graph(bpseq_elements_prefix):
    """PREFIX contract of BpSeq.elements with the cut moved behind the two loops that build the loop-linking graph (up to, not
    including, `used = set()`): every clause of bpseq_elements_prefix, proved at the later point, plus: the graph over the
    loop-strand candidates has an edge a -> b exactly when a != b and the 3' end of candidate a is base-paired with the 5' end of
    candidate b (C07 'consecutive ends are base-paired': the relation along which the closure walk chains strands into loops);
    and, along the stops loop: every gap between two consecutive stops whose interior is unpaired is reported as a hairpin (ends are
    partners) or as a loop-strand candidate, each hairpin / candidate spanning exactly its gap (gaps_classified, hairpin_gaps,
    candidate_gaps).  TAIL_FACTS: the clauses the tail contract (contracts/common_elems_tail_c.py) starts from."""
    stop_before = "used = set()"
    # the clauses TAIL_FACTS restate what the tail contract (contracts/common_elems_tail_c.py, BpSeq.elements@tail) takes as its
    # entry facts, over the object's own fields instead of the ghost names E / DB (which denote the same values here)
    TAIL_FACTS = [
        "valid(self.entries)",
        "len(loop_candidates) >= 0 and forall(lambda b: implies(0 <= b and b < len(loop_candidates), cand_ok(loop_candidates[b], self.entries, self.dot_bracket_.structure)))",
        "graph_only_links(graph, self.entries, loop_candidates)",
        "graph_all_links(graph, self.entries, loop_candidates, len(loop_candidates), 0)",
        "len(loops) == 0 and len(single_strands) >= 0",
    ]
    stop_ensures = bpseq_elements_prefix.stop_ensures + [
        "graph_only_links(graph, E, loop_candidates)",
        "graph_all_links(graph, E, loop_candidates, len(loop_candidates), 0)",
    ] + TAIL_FACTS + ["gaps_classified(KIND, IDX, HPG, LCG, stops, E, len(stops) - 1)", "hairpin_gaps(hairpins, HPG, stops)",
                      "candidate_gaps(loop_candidates, LCG, stops)"]
    stop_ensures_labels = {**bpseq_elements_prefix.stop_ensures_labels, 6: "graph-edges-join-base-paired-consecutive-ends",
                           7: "every-base-paired-pair-of-ends-is-an-edge", 8: "tail-fact:valid-structure", 9: "tail-fact:loop-candidates",
                           10: "tail-fact:graph-edges", 11: "tail-fact:graph-complete", 12: "tail-fact:no-loops-yet",
                           13: "every-gap-with-unpaired-interior-is-a-hairpin-or-a-loop-candidate", 14: "hairpins-span-their-gaps",
                           15: "candidates-span-their-gaps"}
    locals = dict(bpseq_elements_prefix.locals, graph="dict[int,set[int]]")
    defaultdicts = ["graph"]
    _CANDS = "forall(lambda b: implies(0 <= b and b < len(loop_candidates), cand_ok(loop_candidates[b], E, DB)))"
    loops = dict(bpseq_elements_prefix.loops)
    # (the new invariants stand in FRONT of the inherited ones: the inherited ghost steps address the inherited invariants by
    # their distance from the end of the hypothesis list)
    loops[1] = dict(loops[1], inv=["gaps_classified(KIND, IDX, HPG, LCG, stops, E, i - 1)", "hairpin_gaps(hairpins, HPG, stops)",
                                   "candidate_gaps(loop_candidates, LCG, stops)"] + list(loops[1]["inv"]),
                    labels={0: "gaps-with-unpaired-interior-are-reported", 1: "hairpins-span-their-gaps", 2: "candidates-span-their-gaps"})
    loops.update({
        # for i in range(len(loop_candidates))
        2: {"inv": ["graph_only_links(graph, E, loop_candidates)", "graph_all_links(graph, E, loop_candidates, i, 0)"],
            "labels": {0: "edges-join-base-paired-ends", 1: "all-pairs-below-i-recorded"}},
        # for j in range(i + 1, len(loop_candidates))
        3: {"inv": ["graph_only_links(graph, E, loop_candidates)", "graph_all_links(graph, E, loop_candidates, i, j)"],
            "labels": {0: "edges-join-base-paired-ends", 1: "all-pairs-up-to-(i,j)-recorded"}},
    })
    _LASTH = "hairpins[len(hairpins) - 1]"
    _LASTC = "loop_candidates[len(loop_candidates) - 1]"
    ghost = bpseq_elements_prefix.ghost + [
        # gap classification along the stops loop (ghost maps: KIND[g] 0 = not reported / 1 = hairpin / 2 = candidate, IDX[g] its number,
        # HPG / LCG the gap of a hairpin / candidate).  The three clauses are re-proved at the end of every pass in a sub-proof that
        # sees the loop-head facts and the GROUND facts of the pass only (the quantified by-products of the pass are set aside).
        {"when": "after", "at": "loop_candidates = []", "label": "gap-maps",
         "do": ["let KIND = fill(len(stops), 0)", "let IDX = fill(len(stops), 0 - 1)", "let HPG = empty('list[int]')", "let LCG = empty('list[int]')"]},
        {"when": "before", "at": "candidate = self.entries[", "loop": 1, "label": "gap-start",
         "do": ["mark B", "let KIND = upd(KIND, i - 1, 0)", "let frB = frontier()", "let HPB = hairpins", "let LCB = loop_candidates"]},
        {"when": "after", "at": "hairpins.append(", "loop": 1, "label": "gap-is-a-hairpin",
         "do": ["let KIND = upd(KIND, i - 1, 1)", "let IDX = upd(IDX, i - 1, len(hairpins) - 1)", "let HPG = snoc(HPG, i - 1)"]},
        {"when": "after", "at": "loop_candidates.append(", "loop": 1, "label": "gap-is-a-candidate",
         "do": ["let KIND = upd(KIND, i - 1, 2)", "let IDX = upd(IDX, i - 1, len(loop_candidates) - 1)", "let LCG = snoc(LCG, i - 1)"]},
        {"when": "after", "at": "if all([entry.pair == 0 for entry in candidate[1:-1]])", "loop": 1, "label": "gap-classified",
         "do": [  # (on the pass that reports nothing the last hypothesis is the failed test)
                "assert_last 1 implies(KIND[i - 1] == 0, not forall(lambda t: implies(0 <= t and t < len(C1), C1[t].pair == 0)))",
                "let BL = [C1[t].pair == 0 for t in range(len(C1))]", "let wt = first_index(BL, False)", "let wx = p + 1 + wt",
                "assert_last 4 implies(KIND[i - 1] == 0, exists(lambda t: 0 <= t and t < len(BL) and BL[t] == False))",
                "assert_last 5 implies(KIND[i - 1] == 0, 0 <= wt and wt < len(C1) and C1[wt].pair != 0)",
                "assert implies(KIND[i - 1] == 0, p < wx and wx < q and E[wx].pair != 0)",
                f"assert implies(KIND[i - 1] == 1, E[p].pair == q + 1 and {_LASTH}.strand.first == p + 1 and {_LASTH}.strand.last == q + 1"
                f" and frB <= ident({_LASTH}) and len(hairpins) == len(HPB) + 1 and len(loop_candidates) == len(LCB))",
                f"assert implies(KIND[i - 1] == 2, E[p].pair != q + 1 and {_LASTC}.first == p + 1 and {_LASTC}.last == q + 1"
                " and len(loop_candidates) == len(LCB) + 1 and len(hairpins) == len(HPB))",
                "assert implies(KIND[i - 1] == 0, len(hairpins) == len(HPB) and len(loop_candidates) == len(LCB))",
                "assert p == stops[i - 1] and q == stops[i] and 1 <= i and i < len(stops) and len(HPB) >= 0 and len(LCB) >= 0",
                "scoped stash B | assert_last 40 gaps_classified(KIND, IDX, HPG, LCG, stops, E, i) | assert gaps_classified(KIND, IDX, HPG, LCG, stops, E, i)",
                "scoped stash B | assert_last 40 forall(lambda b: implies(0 <= b and b < len(HPB), hairpins[b] is HPB[b] and ident(HPB[b]) < frB and 0 <= HPG[b] and HPG[b] < len(stops) - 1"
                " and hairpins[b].strand.first == stops[HPG[b]] + 1 and hairpins[b].strand.last == stops[HPG[b] + 1] + 1))"
                " | assert_last 41 hairpin_gaps(hairpins, HPG, stops) | assert hairpin_gaps(hairpins, HPG, stops)",
                "scoped stash B | assert_last 40 candidate_gaps(loop_candidates, LCG, stops) | assert candidate_gaps(loop_candidates, LCG, stops)"]},
        {"when": "after", "at": "graph = defaultdict(set)", "label": "facts-for-the-graph-loops",
         # what the graph loops need of the earlier phases, restated; the clauses of the prefix stay in the context
         "do": ["assert " + _CANDS]},
        {"when": "before", "at": "i_first, i_last = ", "loop": 3, "label": "pair-(i,j)",
         "do": ["let G0 = graph", "let LC = loop_candidates",
                "assert 0 <= i and i < j and j < len(LC) and cand_ok(LC[i], E, DB) and cand_ok(LC[j], E, DB)",
                "assert graph_only_links(G0, E, LC)",
                "assert graph_all_links(G0, E, LC, i, j)"]},
        {"when": "after", "at": "if self.entries[j_last - 1].pair == i_first", "loop": 3, "label": "pair-(i,j)-recorded",
         # the graph after the two tests, relative to the graph before them (needs nothing but the two branch conditions)
         "do": ["assert_last 9 forall(lambda a, b: (a in graph and b in graph[a]) == ((a in G0 and b in G0[a]) or (a == i and b == j and link(E, LC, i, j))"
                " or (a == j and b == i and link(E, LC, j, i))))",
                "assert_last 10 graph_only_links(graph, E, LC)",
                "assert_last 11 graph_all_links(graph, E, LC, i, j + 1)"]},
    ]


CONTRACTS = dict(_c.CONTRACTS)
CONTRACTS.update({
    "BpSeq.__post_init__": bpseq_post_init,
    "BpSeq.__post_init__@any": bpseq_post_init_any,
    "BpSeq.from_dotbracket": from_dotbracket,
    "DotBracket.__post_init__@full": db_post_init_full,
    "DotBracket.without_pseudoknots": db_without_pseudoknots,
    "BpSeq.dot_bracket": bpseq_dot_bracket,
    "BpSeq.without_pseudoknots": bpseq_without_pseudoknots,
    "BpSeq.without_isolated": bpseq_without_isolated,
    "BpSeq.elements": bpseq_elements,
    "BpSeq.__stems_entries@cached": stems_entries_cached,
    # (the target name of C07 is unchanged; since the graph loops are under contract it denotes the LONGER prefix - every clause
    # of bpseq_elements_prefix, proved at the later cut point, plus the two graph clauses; the class bpseq_elements_prefix itself
    # is unchanged and still the base of contracts/determinism_elems_c.py)
    "BpSeq.elements@prefix": bpseq_elements_graph,
    "BpSeq.elements@graph": bpseq_elements_graph,
    "BpSeq.dot_bracket@text": bpseq_dot_bracket_text,
    "Strand.from_bpseq_entries": strand_from_entries,
    "Stem.from_bpseq_entries": stem_from_entries,
})
