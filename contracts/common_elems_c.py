"""Sidecar contracts for rnapolis/common.py, part 2: derivations and structural elements (properties C12, C07).

Reuses the vocabulary and the proved contracts of contracts/common_c.py (valid, qual, run_ok, stems_ok, stems_cover,
stems_maximal, stems_inverse, decoded_wf, seq_of ... and the contracts of BpSeq.__stems_entries, BpSeq.sequence,
DotBracket.__post_init__, DotBracket.from_string) by import; the @spec functions of both files are loaded
(`__file_spec__` is a list).
"""
from contracts.common_c import *  # noqa: F401,F403
from contracts import common_c as _c


def spec(f):
    return f


__file_spec__ = [_c.__file__, __file__]
STABLE_BINDERS = True  # a clause evaluated twice over the same values yields the identical term (re-exported postconditions)

CLASSES = dict(_c.CLASSES)
LEMMAS = dict(_c.LEMMAS)
UFUNS = dict(_c.UFUNS)
INLINE = list(_c.INLINE)
EXTERNALS = dict(getattr(_c, "EXTERNALS", {}))


# ------------------------------------------------------------------------------------------------ BpSeq.__post_init__
@spec
def pairs_upto(D, E, p):
    """the pairs dict after the first p entries have been processed (valid E): key k is present iff position k is paired
    and it or its partner lies among the first p entries; its value is the partner"""
    return (forall(lambda k: (k in D) == (1 <= k and k <= len(E) and E[k - 1].pair != 0 and (k - 1 < p or E[k - 1].pair - 1 < p)))
            and forall(lambda k: implies(k in D, D[k] == E[k - 1].pair)))


@spec
def pairs_of(D, E):
    """C12 'the pairs': D maps i to j exactly when entry i is paired with j (both directions)"""
    return forall(lambda i, j: (i in D and D[i] == j) == (1 <= i and i <= len(E) and E[i - 1].pair == j and j != 0))


class bpseq_post_init:
    """BpSeq.__post_init__ on a valid entry list: self.pairs[i] == j iff entry i is paired with j; writes nothing but the
    pairs slot of the object under construction"""
    target = "BpSeq.__post_init__"
    params = {"self": "BpSeq"}
    requires = ["valid(self.entries)"]
    raises = []
    ensures = ["pairs_of(self.pairs, self.entries)"]
    ensures_labels = {0: "pairs-dict-is-the-pairing"}
    modifies = ["BpSeq.pairs@self"]
    loops = {0: {"index": "p", "touches": {"BpSeq.pairs": ["self"]},
                 "inv": ["pairs_upto(self.pairs, self.entries, p)"]}}


class bpseq_post_init_any:
    """BpSeq.__post_init__ on ANY entry list (no precondition): the frame alone - only the pairs slot of self is written"""
    target = "BpSeq.__post_init__"
    params = {"self": "BpSeq"}
    requires = []
    raises = []
    ensures = []
    modifies = ["BpSeq.pairs@self"]
    loops = {0: {"index": "p", "touches": {"BpSeq.pairs": ["self"]}, "inv": []}}


# ------------------------------------------------------------------------------------------------ BpSeq.from_dotbracket
@spec
def untouched_entries():
    """placeholder (frame clauses are written in place: old() needs the enclosing function's entry state)"""
    return True


@spec
def entries_of_block(L, n):
    """L is a list of n distinct Entry objects numbered 1..n"""
    return len(L) == n and forall(lambda x: implies(0 <= x and x < n, L[x].index_ == x + 1)) \
        and forall(lambda x, y: implies(0 <= x and x < y and y < n, not (L[x] is L[y])))


@spec
def all_fresh(L):
    return forall(lambda x: implies(0 <= x and x < len(L), fresh(L[x])))


@spec
def written_pairs(L, P, upto):
    """the first `upto` decoded pairs (0-based positions) are recorded in both partners, shifted by one"""
    return forall(lambda q: implies(0 <= q and q < upto, L[P[q][0]].pair == P[q][1] + 1 and L[P[q][1]].pair == P[q][0] + 1))


@spec
def only_pairs(L, P, M, upto):
    """nothing invented: a paired entry x records the partner given by the decoded pair number M[x] < upto"""
    return forall(lambda x: implies(0 <= x and x < len(L) and L[x].pair != 0,
                                    0 <= M[x] and M[x] < upto and 0 <= P[M[x]][0] and P[M[x]][0] < P[M[x]][1] and P[M[x]][1] < len(L)
                                    and ((P[M[x]][0] == x and L[x].pair == P[M[x]][1] + 1) or (P[M[x]][1] == x and L[x].pair == P[M[x]][0] + 1))))


FRAME_ENTRY_PAIR = "forall(lambda e: implies(allocated(e), e.pair == old(e.pair)), sorts={'e': 'Entry'})"


class from_dotbracket:
    """BpSeq.from_dotbracket(db), db as ANY decoder output (ordered positions inside the text, no position twice) with
    sequence and structure of equal length: a fresh valid BpSeq with the same sequence whose pairs are exactly db.pairs
    shifted by one, symmetric; nothing that existed before the call is written"""
    target = "BpSeq.from_dotbracket"
    params = {"dot_bracket": "DotBracket"}
    requires = ["decoded_wf(dot_bracket.pairs, dot_bracket.structure, len(dot_bracket.structure))",
                "len(dot_bracket.sequence) == len(dot_bracket.structure)"]
    returns = "BpSeq"
    ghost_returns = {"M": "list[int]"}
    raises = []
    ensures = ["fresh(result) and all_fresh(result.entries)",
               "valid(result.entries)",
               "seq_of(result.entries, dot_bracket.sequence)",
               "written_pairs(result.entries, dot_bracket.pairs, len(dot_bracket.pairs))",
               "only_pairs(result.entries, dot_bracket.pairs, M, len(dot_bracket.pairs))",
               "forall(lambda x: implies(0 <= x and x < len(result.entries) and result.entries[x].pair != 0, "
               "exists(lambda q: 0 <= q and q < len(dot_bracket.pairs) and (dot_bracket.pairs[q][0] == x or dot_bracket.pairs[q][1] == x))))",
               "pairs_of(result.pairs, result.entries)"]
    ensures_labels = {0: "fresh", 1: "valid", 2: "sequence-preserved", 3: "every-decoded-pair-recorded-symmetrically",
                      4: "no-pair-invented(ghost-map)", 5: "no-pair-invented", 6: "pairs-dict-is-the-pairing"}
    modifies = []
    callee_variants = {}
    loops = {0: {"index": "q0", "inv": [
        "len(M) == len(entries)",
        FRAME_ENTRY_PAIR,
        "written_pairs(entries, dot_bracket.pairs, q0)",
        "only_pairs(entries, dot_bracket.pairs, M, q0)"],
        "labels": {1: "only-fresh-entries-written"}}}
    ghost = [
        {"when": "after", "at": "entries = [", "label": "M0", "do": ["let M = fill(len(entries), 0 - 1)"]},
        {"when": "after", "at": "entries[i].pair = j + 1", "loop": 0, "label": "M5", "do": ["let M = upd(M, i, q0)"]},
        {"when": "after", "at": "entries[j].pair = i + 1", "loop": 0, "label": "M3", "do": ["let M = upd(M, j, q0)"]},
        {"when": "before", "at": "return BpSeq(entries)", "label": "restate",
         # what the rest of the function needs, restated; everything else is dropped (smaller solver context)
         "do": ["assert len(entries) == len(dot_bracket.sequence) and len(entries) >= 0 and len(M) == len(entries)",
                "assert forall(lambda x: implies(0 <= x and x < len(entries), entries[x].index_ == x + 1 and entries[x].sequence == dot_bracket.sequence[x]))",
                "assert " + FRAME_ENTRY_PAIR,
                "assert " + FRAME_ENTRY_PAIR.replace("pair", "index_"),
                "assert " + FRAME_ENTRY_PAIR.replace("pair", "sequence"),
                "assert written_pairs(entries, dot_bracket.pairs, len(dot_bracket.pairs))",
                "assert only_pairs(entries, dot_bracket.pairs, M, len(dot_bracket.pairs))",
                "keep 7"]},
        {"when": "before", "at": "return BpSeq(entries)", "label": "valid",
         "do": ["forall x | assert implies(0 <= x and x < len(entries), entries[x].index_ == x + 1 and 0 <= entries[x].pair and entries[x].pair <= len(entries) and entries[x].pair != x + 1)",
                "forall x | assert implies(0 <= x and x < len(entries) and entries[x].pair > 0, entries[entries[x].pair - 1].pair == x + 1)",
                "assert_last 2 valid(entries)"]},
    ]


CONTRACTS = dict(_c.CONTRACTS)
CONTRACTS.update({
    "BpSeq.__post_init__": bpseq_post_init,
    "BpSeq.__post_init__@any": bpseq_post_init_any,
    "BpSeq.from_dotbracket": from_dotbracket,
})
