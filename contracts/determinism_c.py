"""Sidecar contracts for C14 (outputs are a function of the input), part 1: rnapolis.annotator.find_pairs.

Idea of all C14 contracts (this file, contracts/determinism_stackings_c.py, contracts/determinism_elems_c.py): in the pyvc encoding
the iteration of a set - and the result of list(set) - is an ARBITRARY duplicate-free enumeration, the result of
scipy KDTree.query_pairs is a set, dict / OrderedSet iteration is insertion order.  A clause that pins a list completely as a
function of the SET it is made from therefore holds for every enumeration, i.e. for every hash seed, set history and address.

find_pairs contains exactly one iteration whose order is not a language guarantee: `for i, j in sorted(kdtree.query_pairs(..))`
(annotator.py:218; `sorted` was added by the repair 2e35b7c).  Everything behind it is order-SENSITIVE (used_atoms makes the
base-phosphate / base-ribose choice greedy; hydrogen_bonds -> labels -> Counter.most_common() ties -> occupied make the base-pair
choice greedy) but iterates only lists, Counter.most_common() (documented: descending counts, ties in first-occurrence order) and
insertion-ordered dicts / OrderedSets; the sets used_atoms / occupied are only tested for membership.  So the three returned lists
are a function of the input provided the list the contact loop runs over is a function of the pair SET.  That is the clause here:

    find_pairs@order   the list EN the contact loop visits is the strictly increasing (lexicographic) list of exactly the members
                       of kdtree.query_pairs(HYDROGEN_BOND_MAX_DISTANCE): strictly increasing + same members = unique.

EN is bound with the loop-contract key `elems` (the list of the elements visited in order: the list itself, or - for a set - the
arbitrary enumeration), so iterating the set directly, `list(..)` instead of `sorted(..)`, or a sort in another order is judged by
the same clause and fails `contact-loop-visits-the-index-pairs-in-strictly-increasing-order`.

Reused by import, not edited: contracts/annotator_pairs_c.py (classes, externals, prefix-contract base) and through it
contracts/annotator_c.py."""
import z3

import contracts.annotator_c as AC
import contracts.annotator_pairs_c as AP
from pyvc.values import VSet, sel, to_z3, uid


def spec(f):
    return f


__file_spec__ = [AC.__file__, AP.__file__, __file__]
PRUNE_BRANCHES = AP.PRUNE_BRANCHES
FINITE_MEMBERSHIP = AP.FINITE_MEMBERSHIP
INLINE = list(AP.INLINE)
CLASSES = dict(AP.CLASSES)
UFUNS = dict(AP.UFUNS)
EXTERNALS = dict(AP.EXTERNALS)
SPEC_EXTERNALS = dict(AP.SPEC_EXTERNALS)
SPEC_CONSTS = dict(AP.SPEC_CONSTS)
LEMMAS = dict(AP.LEMMAS)


def ext_sorted(e, args, kw, node, st):
    """sorted(xs) as assumed in contracts/annotator_pairs_c.py (for a set of (int, int) pairs: the list of exactly its members, each
    once, strictly increasing lexicographically, with the position map SORTED_POS).  Added here: the consequence
    `every member (a, b) of the set stands at some position` in existential form (witness: SORTED_POS[a, b]), so that the
    completeness clause needs no ghost name that exists only when sorted() was called."""
    if set(kw) == {"reverse"} and len(args) == 1 and isinstance(args[0], VSet):
        rev = kw.pop("reverse")
        if rev is True or (z3.is_expr(rev) and z3.is_true(rev)):
            # sorted(.., reverse=True): the members in strictly DEcreasing order; over-approximated by `a list holding exactly the
            # members, each once, in SOME order` (enough to judge an `increasing` clause: both fail as soon as two members exist)
            e.set_iter_plan(args[0], node, st)
            return e.last_enum
        if not (rev is False or (z3.is_expr(rev) and z3.is_false(rev))):
            kw["reverse"] = rev  # undecided flag: no assumed contract (Unsupported below)
    out = AP.ext_sorted(e, args, kw, node, st)
    xs = args[0]
    if isinstance(xs, VSet) and xs.kshape == ("tuple", (("int",), ("int",))):
        n = to_z3(out.length)
        a, b, q = z3.Int(uid("a")), z3.Int(uid("b")), z3.Int(uid("q"))
        at = [to_z3(x_) for x_ in sel(out.elems, q).items]
        st.assume(z3.ForAll([a, b], z3.Implies(sel(xs.mem, a, b), z3.Exists([q], z3.And(q >= 0, q < n, at[0] == a, at[1] == b)))))
    return out


EXTERNALS["builtins.sorted"] = ext_sorted


@spec
def pair_lt(p, q):
    """lexicographic order of two index pairs"""
    return p[0] < q[0] or (p[0] == q[0] and p[1] < q[1])


_ASC = "forall(lambda u, v: implies(0 <= u and u < v and v < len(EN), pair_lt(EN[u], EN[v])))"
_MEM = "forall(lambda u: implies(0 <= u and u < len(EN), (EN[u][0], EN[u][1]) in kdtree.query_pairs(D_HB)))"
_ALL = ("forall(lambda a, b: implies((a, b) in kdtree.query_pairs(D_HB), "
        "exists(lambda u: 0 <= u and u < len(EN) and EN[u][0] == a and EN[u][1] == b)))")
_LAB = {0: "contact-loop-visits-the-index-pairs-in-strictly-increasing-order", 1: "every-step-is-a-member-of-the-KD-tree-pair-set",
        2: "every-member-of-the-KD-tree-pair-set-is-a-step"}


class find_pairs_order(AP._FindPairsBase):
    """PREFIX contract (up to `labels = []`, i.e. through the contact loop).  The loops that fill the coordinate table have the
    invariant `true`: the clause holds for every table.  Exceptions are left to find_pairs@safe (contracts/annotator_pairs_c.py)."""
    stop_before = "labels = []"
    raises = AP.ANY_EXC
    loops = {0: [], 1: [], 2: {"index": "w", "elems": "EN", "labels": _LAB, "inv": [_ASC, _MEM, _ALL]}}
    ghost = []
    stop_ensures = [_ASC, _MEM, _ALL]
    stop_ensures_labels = _LAB


CONTRACTS = dict(AP.CONTRACTS)
CONTRACTS["find_pairs@order"] = find_pairs_order
