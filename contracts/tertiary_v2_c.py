"""Sidecar for rnapolis/tertiary_v2.py: shares vocabulary and lemmas with contracts/tertiary_c.py"""
from contracts.tertiary_c import *  # noqa: F401,F403
from contracts import tertiary_c as _t

CONTRACTS = _t.CONTRACTS_V2
__file_spec__ = _t.__file__
