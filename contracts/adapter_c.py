"""Sidecar contracts for rnapolis/adapter.py (C19): label normaliser, unit-id parser, FR3D line dispatcher and listing loop,
DSSR class matcher / name resolution / import loops.

Vocabulary
  ResidueLabel / ResidueAuth / Residue and the five interaction classes are frozen dataclasses -> immutable records.  The
  classification fields (lw, topology, br, bph) are declared `opt[enum[LeontisWesthof,StackingTopology,BPh,BR]]`: Python does
  not check the annotated type, so the field can hold a member of any of the four classes or None; a member is encoded by its
  position in the concatenation of the four member lists (CLS below maps a member's `.value` - unique over the union - to it).
  InteractionsData is the dict {"base_pairs": [..], ..} of parse_fr3d_output: an OBJECT (shared with
  _process_interaction_line, which appends to the lists it holds) with one heap field per key.
  TextFile is an open text file: an object whose ghost field `lines` is what iterating it yields.
"""
import z3 as _z3


def spec(f):
    return f


UNION = "opt[enum[LeontisWesthof,StackingTopology,BPh,BR]]"
CLASSES = {
    "ResidueLabel": {"kind": "record", "fields": {"chain": "str", "number": "int", "name": "str"}},
    "ResidueAuth": {"kind": "record", "fields": {"chain": "str", "number": "int", "icode": "opt[str]", "name": "str"}},
    "Residue": {"kind": "record", "fields": {"label": "opt[rec[ResidueLabel]]", "auth": "opt[rec[ResidueAuth]]"}},
    "BasePair": {"kind": "record", "fields": {"nt1": "rec[Residue]", "nt2": "rec[Residue]", "lw": UNION, "saenger": "opt[enum[Saenger]]"}},
    "Stacking": {"kind": "record", "fields": {"nt1": "rec[Residue]", "nt2": "rec[Residue]", "topology": UNION}},
    "BaseRibose": {"kind": "record", "fields": {"nt1": "rec[Residue]", "nt2": "rec[Residue]", "br": UNION}},
    "BasePhosphate": {"kind": "record", "fields": {"nt1": "rec[Residue]", "nt2": "rec[Residue]", "bph": UNION}},
    "OtherInteraction": {"kind": "record", "fields": {"nt1": "rec[Residue]", "nt2": "rec[Residue]"}},
    "BaseInteractions": {"kind": "record", "fields": {"basePairs": "list[rec[BasePair]]", "stackings": "list[rec[Stacking]]",
                                                      "baseRiboseInteractions": "list[rec[BaseRibose]]",
                                                      "basePhosphateInteractions": "list[rec[BasePhosphate]]",
                                                      "otherInteractions": "list[rec[OtherInteraction]]"}},
    "InteractionsData": {"kind": "object", "dict_keys": True,
                         "fields": {"base_pairs": "list[rec[BasePair]]", "stackings": "list[rec[Stacking]]",
                                    "base_ribose_interactions": "list[rec[BaseRibose]]",
                                    "base_phosphate_interactions": "list[rec[BasePhosphate]]",
                                    "other_interactions": "list[rec[OtherInteraction]]"}},
}
INLINE = []
PRUNE_BRANCHES = False
# exceptional exits of one statement are taken in evaluation order (the first subexpression that raises ends the statement)
ORDERED_RAISES = True
# an Optional value handed to a constructor for a field declared non-Optional (a residue of an interaction) must be shown not
# to be None there (obligation construct[..].<field>-not-None)
NONNULL_FIELDS = True
LW_RE = "n?[cCtT][wWhHsS][wWhHsS]a?"
ST_RE = "n?s(33|35|53|55)a?"
BPH_RE = "n?[0-9]BPha?"
BR_RE = "n?[0-9]BRa?"
ASCII = "[\\x00-\\x7f]*"


@spec
def core(s):
    """the label without the optional 'n' prefix (the recognised cores never start with 'n')"""
    return ite(s.startswith("n"), s[1:], s)


class unify:
    target = "unify_classification"
    params = {"fr3d_name": "str"}
    # property quantifier: labels over the (ASCII) FR3D alphabet; str.isdigit/lower/upper are modelled on ASCII only
    requires = ["matches(fr3d_name, ASCII)"]
    raises = []
    ensures = [
        "implies(matches(fr3d_name, LW_RE), result[0] == 'base-pair' and result[1].value == char(core(fr3d_name), 0).lower() + char(core(fr3d_name), 1).upper() + char(core(fr3d_name), 2).upper())",
        "implies(matches(fr3d_name, ST_RE), result[0] == 'stacking' and result[1].value == ite(core(fr3d_name)[:3] == 's33', 'downward', ite(core(fr3d_name)[:3] == 's55', 'upward', ite(core(fr3d_name)[:3] == 's35', 'outward', 'inward'))))",
        "implies(matches(fr3d_name, BPH_RE), result[0] == 'base-phosphate' and result[1].value == core(fr3d_name)[:4])",
        "implies(matches(fr3d_name, BR_RE), result[0] == 'base-ribose' and result[1].value == core(fr3d_name)[:3])",
        "implies(not (matches(fr3d_name, LW_RE) or matches(fr3d_name, ST_RE) or matches(fr3d_name, BPH_RE) or matches(fr3d_name, BR_RE)), result[0] == 'other' and result[1] == None)",
    ]
    ensures_labels = {0: "LW-labels", 1: "stacking-labels", 2: "BPh-labels", 3: "BR-labels", 4: "unrecognised-kept-as-other"}
    max_paths = 512


CONTRACTS = {"unify_classification": unify}

# =====================================================================================================================
# the rest of C19
# =====================================================================================================================
# --------------------------------------------------------------------------------------------- classification members
# the 18 + 4 + 10 + 10 members of the four classification enums, written out here (not read from the code under
# verification): member `.value` -> position in the union encoding enum[LeontisWesthof,StackingTopology,BPh,BR]
LW_VALUES = [c + a + b for c in "ct" for a in "WHS" for b in "WHS"]
ST_VALUES = ["upward", "downward", "inward", "outward"]
BPH_VALUES = [f"{k}BPh" for k in range(10)]
BR_VALUES = [f"{k}BR" for k in range(10)]
CLS = {v: k for k, v in enumerate(LW_VALUES + ST_VALUES + BPH_VALUES + BR_VALUES)}
assert len(CLS) == 42


def _check_union_encoding():
    """the table above is the engine's encoding of the real classes (definition order, offsets): checked at import"""
    from rnapolis.common import BR, BPh, LeontisWesthof, StackingTopology
    pos = 0
    for cls in (LeontisWesthof, StackingTopology, BPh, BR):
        for m in cls:
            assert CLS[m.value] == pos, (m, pos)
            pos += 1
    assert pos == 42 and [m.name for m in LeontisWesthof] == LW_VALUES


_check_union_encoding()
SPEC_CONSTS = {"CLS": CLS, "LW_NAMES": tuple(LW_VALUES)}


# --------------------------------------------------------------------------------------------- assumed externals (str)
def _ext_split(e, args, kw, node, st):
    """ASSUMED contract of str.split(sep) for a constant non-empty separator (no maxsplit): the list of pieces is a
    deterministic function of (s, sep) - uninterpreted split.n (count) and split.at (pieces) - with at least one piece.
    What the pieces ARE is stated by the assumed lemma split_characterisation (LEMMAS), used only where a proof needs it."""
    from pyvc.values import Unsupported, VList, is_leaf, to_z3
    symbolic_sep_in_spec = st is None and len(args) == 2 and is_leaf(args[1]) and args[1].sort() == _z3.StringSort()  # (lemma statements)
    if len(args) != 2 or kw or not (symbolic_sep_in_spec or (isinstance(args[1], str) and args[1] != "")):
        raise Unsupported("str.split: only s.split(<constant non-empty separator>) is modelled")
    if isinstance(args[0], str) and isinstance(args[1], str):
        return e.list_literal(args[0].split(args[1]), ("str",))
    s, sep = to_z3(args[0]), to_z3(args[1])
    n = e.ufun("split.n", _z3.StringSort(), _z3.StringSort(), _z3.IntSort())(s, sep)
    at = e.ufun("split.at", _z3.StringSort(), _z3.StringSort(), _z3.ArraySort(_z3.IntSort(), _z3.StringSort()))(s, sep)
    if st is not None:
        st.assume(n >= 1)
    return VList(n, at, ("str",))


_ext_split.pure = True


def _ext_split_off(e, args, kw, node, st):
    """spec-only: offsets of the pieces of split(s, sep) in s (uninterpreted; constrained by split_characterisation)"""
    from pyvc.values import VList, to_z3
    s, sep = to_z3(args[0]), to_z3(args[1])
    n = e.ufun("split.n", _z3.StringSort(), _z3.StringSort(), _z3.IntSort())(s, sep)
    off = e.ufun("split.off", _z3.StringSort(), _z3.StringSort(), _z3.ArraySort(_z3.IntSort(), _z3.IntSort()))(s, sep)
    return VList(n + 1, off, ("int",))


def _ext_strip(e, args, kw, node, st):
    """str.strip() without arguments: a deterministic function of the string (uninterpreted py_strip); nothing else assumed"""
    from pyvc.values import Unsupported, to_z3
    if len(args) != 1:
        raise Unsupported("str.strip(chars)")
    if isinstance(args[0], str):
        return args[0].strip()
    return e.ufun("py_strip", _z3.StringSort(), _z3.StringSort())(to_z3(args[0]))


_ext_strip.pure = True


def _ext_int_ok(e, args, kw, node, st):
    """spec-only: int(s) does not raise ValueError - the engine's own condition, obtained by running its model of int(s)
    (pyvc/calls.py ext_int_of_str) and collecting the ValueError condition it records"""
    from pyvc.expr import NOT, OR
    from pyvc.state import State
    from pyvc.values import to_z3
    saved = (e.spec, e.mayraise, e.guard)
    e.spec, e.mayraise, e.guard = False, [], []
    try:
        e.ext_int_of_str(to_z3(args[0]), None, State())
        conds = [c for c, exc, _ in e.mayraise if exc == "ValueError"]
    finally:
        e.spec, e.mayraise, e.guard = saved
    return NOT(OR(*conds))


def _idata_key(e, key):
    from pyvc.values import Unsupported
    if not isinstance(key, str):
        raise Unsupported("InteractionsData[<non-constant key>]")
    return key in CLASSES["InteractionsData"]["fields"]


def _idata_getitem(e, args, kw, node, st):
    """d[k] of the fixed-key dict object: the heap field k; KeyError for any other key"""
    if not _idata_key(e, args[1]):
        e.may_raise(True, "KeyError", node)
        return None
    return e.heap_read(st, args[0], args[1])


_idata_getitem.pure = True


def _idata_setitem(e, args, kw, node, st):
    """write-back of a mutated list held under key k (the engine models `d[k].append(x)` as d[k] = d[k] + [x])"""
    from pyvc.values import Unsupported
    if not _idata_key(e, args[1]):
        raise Unsupported("store of a new key into the fixed-key dict object")
    e.heap_write(st, args[0], args[1], args[2])
    return None


EXTERNALS = {"str.split": _ext_split, "str.strip": _ext_strip, "spec.int_ok": _ext_int_ok, "spec.split_off": _ext_split_off,
             "InteractionsData.__getitem__": _idata_getitem, "InteractionsData.__setitem__": _idata_setitem}
SPEC_EXTERNALS = {"split": "str.split", "strip": "str.strip", "int_ok": "spec.int_ok", "split_off": "spec.split_off"}

LEMMAS = {
    # what s.split(sep) is (Python language reference): the maximal sep-free pieces of s, in order.  With off = the offsets of
    # the pieces: the pieces are substrings of s at those offsets, each followed by sep except the last, which ends s; no piece
    # contains sep.  (Joining the pieces with sep gives s; the count is the number of occurrences of sep plus one.)
    "split_characterisation": {
        "kind": "assumed-external", "params": ["s", "sep"], "shapes": ["str", "str"],
        "ensures": ["len(split(s, sep)) >= 1 and split_off(s, sep)[0] == 0",
                    "forall(lambda i: implies(0 <= i and i < len(split(s, sep)), not (sep in split(s, sep)[i]) and split_off(s, sep)[i] >= 0 "
                    "and split(s, sep)[i] == s[split_off(s, sep)[i]:split_off(s, sep)[i] + len(split(s, sep)[i])] "
                    "and split_off(s, sep)[i + 1] == split_off(s, sep)[i] + len(split(s, sep)[i]) + len(sep)))",
                    "forall(lambda i: implies(0 <= i and i + 1 < len(split(s, sep)), "
                    "s[split_off(s, sep)[i] + len(split(s, sep)[i]):split_off(s, sep)[i + 1]] == sep))",
                    "split_off(s, sep)[len(split(s, sep))] == len(s) + len(sep)"]},
}


# a consequence of the characterisation, proved from it: the empty string has exactly one piece (the empty one)
LEMMAS["split_of_empty"] = {
    "kind": "smt", "params": ["s", "sep"], "shapes": ["str", "str"], "requires": ["len(s) == 0", "len(sep) > 0"],
    "steps": ["use split_characterisation(s, sep)",
              "assert split_off(s, sep)[len(split(s, sep)) - 1] + len(split(s, sep)[len(split(s, sep)) - 1]) == 0",
              "assert implies(len(split(s, sep)) >= 2, split_off(s, sep)[len(split(s, sep)) - 1] >= len(sep))"],
    "ensures": ["len(split(s, sep)) == 1"]}


# --------------------------------------------------------------------------------------------- FR3D unit ids
@spec
def ufields(u):
    """the '|'-separated fields of a unit id"""
    return split(u, "|")


# numeral(s): "s is an integer numeral", i.e. int(s) does not raise ValueError - an abbreviation (definitional lemma
# numeral_definition) that keeps the regular language of Python's integer literals out of the callers' obligations
UFUNS = {"numeral": (["str"], "bool")}
LEMMAS["numeral_definition"] = {"kind": "definition", "params": ["s"], "shapes": ["str"], "ensures": ["numeral(s) == int_ok(s)"]}


@spec
def parsable(u):
    """a well-formed unit id: at least 5 fields, field 4 (0-based) an integer numeral"""
    return len(ufields(u)) >= 5 and numeral(ufields(u)[4])


@spec
def unit_residue(u):
    """the residue a well-formed unit id names: chain = field 2, name = field 3, number = field 4, insertion code = field 7
    when there are at least 8 fields and field 7 is not empty"""
    return rec(Residue, label=None,
               auth=rec(ResidueAuth, chain=ufields(u)[2], number=int(ufields(u)[4]),
                        icode=ite(len(ufields(u)) >= 8 and ufields(u)[7] != "", ufields(u)[7], None), name=ufields(u)[3]))


class parse_unit_id_c:
    params = {"nt": "str"}
    requires = []
    returns = "rec[Residue]"
    # a pure function of nt: nothing is written, the result is the value unit_residue(nt)
    ensures = ["result == unit_residue(nt)",
               "result.label is None and result.auth is not None and result.auth.chain == ufields(nt)[2] and result.auth.name == ufields(nt)[3]",
               "result.auth.number == int(ufields(nt)[4])",
               "result.auth.icode == ite(len(ufields(nt)) >= 8 and ufields(nt)[7] != '', ufields(nt)[7], None)"]
    ensures_labels = {0: "result-is-a-function-of-the-unit-id", 1: "chain-is-field-2-name-is-field-3", 2: "number-is-field-4",
                      3: "insertion-code-is-field-7-when-present-and-non-empty"}
    raises = {"IndexError": "len(ufields(nt)) < 5", "ValueError": "len(ufields(nt)) >= 5 and not numeral(ufields(nt)[4])"}
    raises_exact = ["IndexError", "ValueError"]
    modifies = []
    ghost_entry = ["use numeral_definition(ufields(nt)[4])"]


# --------------------------------------------------------------------------------------------- label -> class (callee view)
@spec
def lw_of(l):
    return CLS[char(core(l), 0).lower() + char(core(l), 1).upper() + char(core(l), 2).upper()]


@spec
def st_of(l):
    return CLS[ite(core(l)[:3] == 's33', 'downward', ite(core(l)[:3] == 's55', 'upward', ite(core(l)[:3] == 's35', 'outward', 'inward')))]


@spec
def bph_of(l):
    return CLS[core(l)[:4]]


@spec
def br_of(l):
    return CLS[core(l)[:3]]


# Abbreviations (explicit definitions: conservative extensions, listed as such in props/C19.py) that keep the regular
# languages of the labels and the class tables out of the callers' obligations:
#   isLW / isST / isBPH / isBR (lbl): lbl belongs to the language of Leontis-Westhof / stacking / base-phosphate / base-ribose
#                                     labels of the property (label_language_definition)
#   class_of(lbl): the class (member of the four classification enums, union encoding) a recognised label denotes
UFUNS.update({"isLW": (["str"], "bool"), "isST": (["str"], "bool"), "isBPH": (["str"], "bool"), "isBR": (["str"], "bool"),
              "class_of": (["str"], "int")})
LEMMAS["label_language_definition"] = {"kind": "definition", "params": ["lbl"], "shapes": ["str"], "ensures": [
    "isLW(lbl) == matches(lbl, LW_RE)", "isST(lbl) == matches(lbl, ST_RE)", "isBPH(lbl) == matches(lbl, BPH_RE)", "isBR(lbl) == matches(lbl, BR_RE)"]}
LEMMAS["class_of_definition"] = {"kind": "definition", "params": ["lbl"], "shapes": ["str"], "ensures": [
    "class_of(lbl) == ite(isLW(lbl), lw_of(lbl), ite(isST(lbl), st_of(lbl), ite(isBR(lbl), br_of(lbl), bph_of(lbl))))"]}
# the four label languages are pairwise disjoint (so "the category a label denotes" is well defined): proved, not assumed
LEMMAS["label_languages_disjoint"] = {"kind": "smt", "params": ["lbl"], "shapes": ["str"], "ensures": [
    "not (matches(lbl, LW_RE) and matches(lbl, ST_RE))", "not (matches(lbl, LW_RE) and matches(lbl, BPH_RE))",
    "not (matches(lbl, LW_RE) and matches(lbl, BR_RE))", "not (matches(lbl, ST_RE) and matches(lbl, BPH_RE))",
    "not (matches(lbl, ST_RE) and matches(lbl, BR_RE))", "not (matches(lbl, BPH_RE) and matches(lbl, BR_RE))"]}


@spec
def recognised(lbl):
    return isLW(lbl) or isST(lbl) or isBPH(lbl) or isBR(lbl)


class unify_callee(unify):
    """the contract of unify_classification as its callers use it: the same five clauses, with the returned pair given a
    shape (category string, member of one of the four classification enums or None) and the label languages / class tables
    behind their abbreviations; `result[1].value == v` of the contract above reads `result[1] == CLS[v]` inside class_of
    (CLS: value -> member, values are unique over the four classes).  Proved on the same code with the definitions unfolded
    for the argument."""
    returns = "tuple[str," + UNION + "]"
    ensures = [
        "implies(isLW(fr3d_name), result[0] == 'base-pair' and result[1] == class_of(fr3d_name))",
        "implies(isST(fr3d_name), result[0] == 'stacking' and result[1] == class_of(fr3d_name))",
        "implies(isBPH(fr3d_name), result[0] == 'base-phosphate' and result[1] == class_of(fr3d_name))",
        "implies(isBR(fr3d_name), result[0] == 'base-ribose' and result[1] == class_of(fr3d_name))",
        "implies(not recognised(fr3d_name), result[0] == 'other' and result[1] is None)",
    ]
    modifies = []
    # proof, at every exit: (1) the five clauses of the contract above (`.value == v` read as `== CLS[v]`) are proved from the
    # path; (2) from these five facts and the definitions of the abbreviations (unfolded for the argument) alone, the clauses below
    ghost_exit = [
        "assert implies(matches(fr3d_name, LW_RE), result[0] == 'base-pair' and result[1] == lw_of(fr3d_name))",
        "assert implies(matches(fr3d_name, ST_RE), result[0] == 'stacking' and result[1] == st_of(fr3d_name))",
        "assert implies(matches(fr3d_name, BPH_RE), result[0] == 'base-phosphate' and result[1] == bph_of(fr3d_name))",
        "assert implies(matches(fr3d_name, BR_RE), result[0] == 'base-ribose' and result[1] == br_of(fr3d_name))",
        "assert implies(not (matches(fr3d_name, LW_RE) or matches(fr3d_name, ST_RE) or matches(fr3d_name, BPH_RE) or matches(fr3d_name, BR_RE)), result[0] == 'other' and result[1] is None)",
        "keep 5",
        "use label_language_definition(fr3d_name)",
        "use class_of_definition(fr3d_name)"]


# --------------------------------------------------------------------------------------------- one FR3D line
@spec
def tabs(l):
    """the tab-separated fields of a listing line: unit id, label, unit id"""
    return split(l, "\t")


@spec
def line_ok(l):
    """a line with two well-formed unit ids"""
    return len(tabs(l)) >= 3 and parsable(tabs(l)[0]) and parsable(tabs(l)[2])


@spec
def denotes(c, lbl):
    """the label denotes category c: 0 base pair, 1 stacking, 2 base-ribose, 3 base-phosphate, 4 other (= unrecognised)"""
    return ite(c == 0, isLW(lbl), ite(c == 1, isST(lbl), ite(c == 2, isBR(lbl), ite(c == 3, isBPH(lbl), not recognised(lbl)))))


@spec
def condc(c, s):
    """the (stripped) line s has two parsable unit ids and its label denotes category c"""
    return line_ok(s) and denotes(c, tabs(s)[1])


@spec
def bp_of(l):
    return rec(BasePair, nt1=unit_residue(tabs(l)[0]), nt2=unit_residue(tabs(l)[2]), lw=class_of(tabs(l)[1]), saenger=None)


@spec
def stk_of(l):
    return rec(Stacking, nt1=unit_residue(tabs(l)[0]), nt2=unit_residue(tabs(l)[2]), topology=class_of(tabs(l)[1]))


@spec
def bph_int_of(l):
    return rec(BasePhosphate, nt1=unit_residue(tabs(l)[0]), nt2=unit_residue(tabs(l)[2]), bph=class_of(tabs(l)[1]))


@spec
def br_int_of(l):
    return rec(BaseRibose, nt1=unit_residue(tabs(l)[0]), nt2=unit_residue(tabs(l)[2]), br=class_of(tabs(l)[1]))


@spec
def other_of(l):
    return rec(OtherInteraction, nt1=unit_residue(tabs(l)[0]), nt2=unit_residue(tabs(l)[2]))


# tag, key of the dict object, field of BaseInteractions, category number, interaction of a line
_CATS = [("bp", "base_pairs", "basePairs", 0, "bp_of"),
         ("st", "stackings", "stackings", 1, "stk_of"),
         ("br", "base_ribose_interactions", "baseRiboseInteractions", 2, "br_int_of"),
         ("bph", "base_phosphate_interactions", "basePhosphateInteractions", 3, "bph_int_of"),
         ("ot", "other_interactions", "otherInteractions", 4, "other_of")]


class process_line_c:
    """Each category list is its old value with the line's interaction appended iff the line has two parsable unit ids and
    its label denotes that category, and is untouched otherwise.  (The label languages are pairwise disjoint - lemma
    label_languages_disjoint - and `other` is their complement: a parsable line appends exactly one interaction to exactly
    one list, any other line appends nothing.)"""
    params = {"line": "str", "interactions_data": "InteractionsData"}
    # the label handed to unify_classification is ASCII (that contract's precondition)
    requires = ["implies(len(tabs(line)) >= 3, matches(tabs(line)[1], ASCII))"]
    returns = "bool"
    raises = []
    callee_variants = {"unify_classification": "callee"}
    modifies = [f"InteractionsData.{c[1]}@interactions_data" for c in _CATS]
    ensures = ["result == line_ok(line)"] + [
        f"interactions_data.{key} == ite(condc({cat}, line), snoc(old(interactions_data.{key}), {item}(line)), old(interactions_data.{key}))"
        for _, key, _, cat, item in _CATS]
    ensures_labels = {0: "True-iff-two-parsable-unit-ids",
                      1: "base_pairs-gets-one-pair-of-the-denoted-class-between-exactly-those-residues-iff-parsable-with-LW-label-else-untouched",
                      2: "stackings-gets-one-stacking-of-the-denoted-topology-iff-parsable-with-stacking-label-else-untouched",
                      3: "base_ribose-gets-one-interaction-of-the-denoted-class-iff-parsable-with-BR-label-else-untouched",
                      4: "base_phosphate-gets-one-interaction-of-the-denoted-class-iff-parsable-with-BPh-label-else-untouched",
                      5: "other-gets-one-interaction-iff-parsable-with-unrecognised-label-else-untouched"}


CONTRACTS.update({
    "parse_unit_id": parse_unit_id_c,
    "unify_classification@callee": unify_callee,
    "_process_interaction_line": process_line_c,
})


# --------------------------------------------------------------------------------------------- the listing (file) loop
CLASSES["TextFile"] = {"kind": "object", "boxed_list": "lines", "fields": {"lines": "list[str]"}}


def _file_lines(e, path):
    from pyvc.values import VList, to_z3
    p = to_z3(path)
    n = e.ufun("fs.nlines", _z3.StringSort(), _z3.IntSort())(p)
    at = e.ufun("fs.lines", _z3.StringSort(), _z3.ArraySort(_z3.IntSort(), _z3.StringSort()))(p)
    return VList(n, at, ("str",))


def _ext_file_lines(e, args, kw, node, st):
    """spec-only: the lines of the text file at `path` (what iterating the open file yields), a function of the path"""
    return _file_lines(e, args[0])


def _ext_file_text(e, args, kw, node, st):
    """spec-only: the whole text of the file at `path` (what read() returns), a function of the path"""
    from pyvc.values import to_z3
    return e.ufun("fs.text", _z3.StringSort(), _z3.StringSort())(to_z3(args[0]))


def _ext_open(e, args, kw, node, st):
    """ASSUMED contract of open(path[, "r"]) for reading text: the file exists and is readable (no OSError), and the object
    returned yields, when iterated, the lines file_lines(path) - a function of the path (the file does not change meanwhile)"""
    from pyvc.values import Unsupported, to_z3
    if not (1 <= len(args) <= 2) or kw or (len(args) == 2 and args[1] != "r"):
        raise Unsupported("open(): only open(path) / open(path, 'r') is modelled")
    lines = _file_lines(e, args[0])
    st.assume(to_z3(lines.length) >= 0)
    f = e.construct("TextFile", [lines], {}, node, st)
    st.ghost.setdefault("__file_paths", {})
    st.ghost["__file_paths"] = dict(st.ghost["__file_paths"], **{str(to_z3(f.ident)): args[0]})
    return f


def _tf_enter(e, args, kw, node, st):
    return args[0]


def _tf_exit(e, args, kw, node, st):
    return None  # closes the file; never swallows an exception


def _tf_read(e, args, kw, node, st):
    """read() of a file just opened: its whole text, a function of the path it was opened with"""
    from pyvc.values import Unsupported, to_z3
    path = st.ghost.get("__file_paths", {}).get(str(to_z3(args[0].ident)))
    if path is None or len(args) != 1:
        raise Unsupported("read() of a file object that was not opened in this function")
    return _ext_file_text(e, [path], {}, node, st)


_tf_enter.pure = _tf_exit.pure = _tf_read.pure = True
EXTERNALS.update({"builtins.open": _ext_open, "TextFile.__enter__": _tf_enter, "TextFile.__exit__": _tf_exit, "TextFile.read": _tf_read,
                  "spec.file_lines": _ext_file_lines, "spec.file_text": _ext_file_text})
SPEC_EXTERNALS.update({"file_lines": "spec.file_lines", "file_text": "spec.file_text"})


@spec
def proc(s):
    """a (stripped) line of the listing proper: not a comment line"""
    return not s.startswith("#")


@spec
def sl(path, l):
    """line l of the listing, stripped"""
    return strip(file_lines(path)[l])


def _imports(tag, cat, lst, item, n, path="file_path"):
    """list `lst` holds exactly one interaction per selected line below n, in line order: S_<tag>[j] = line of element j
    (strictly increasing), P_<tag>[l] = position of the element of selected line l"""
    S, P = f"S_{tag}", f"P_{tag}"
    return [f"len({S}) == len({lst}) and len({lst}) >= 0 and len({P}) == {n}",
            f"forall(lambda j: implies(0 <= j and j < len({S}), 0 <= {S}[j] and {S}[j] < {n} and proc(sl({path}, {S}[j])) and condc({cat}, sl({path}, {S}[j])) and {lst}[j] == {item}(sl({path}, {S}[j]))))",
            f"forall(lambda j, j2: implies(0 <= j and j < j2 and j2 < len({S}), {S}[j] < {S}[j2]))",
            f"forall(lambda l: implies(0 <= l and l < {n} and proc(sl({path}, l)) and condc({cat}, sl({path}, l)), 0 <= {P}[l] and {P}[l] < len({S}) and {S}[{P}[l]] == l))"]


class parse_fr3d_output_c:
    params = {"file_path": "str"}
    # labels are ASCII (precondition of unify_classification's contract)
    requires = ["forall(lambda l: implies(0 <= l and l < len(file_lines(file_path)) and len(tabs(sl(file_path, l))) >= 3, matches(tabs(sl(file_path, l))[1], ASCII)))"]
    returns = "rec[BaseInteractions]"
    raises = []
    modifies = []
    locals = {"interactions_data": "InteractionsData"}
    ghost_returns = dict([(f"S_{c[0]}", "list[int]") for c in _CATS] + [(f"P_{c[0]}", "list[int]") for c in _CATS])
    ghost_entry = [f"let S_{c[0]} = empty('list[int]')" for c in _CATS] + [f"let P_{c[0]} = empty('list[int]')" for c in _CATS]
    ensures = [t for c in _CATS for t in _imports(c[0], c[3], f"result.{c[2]}", c[4], "len(file_lines(file_path))")]
    ensures_labels = {4 * k + j: f"{c[2]}-{what}" for k, c in enumerate(_CATS) for j, what in enumerate(
        ["one-source-line-per-interaction", "each-interaction-is-the-one-its-parsable-line-denotes", "in-line-order-each-line-once",
         "every-parsable-line-of-the-category-is-imported"])}
    loops = {0: {"index": "i", "writes": [f"InteractionsData.{c[1]}" for c in _CATS],
                 "touches": {f"InteractionsData.{c[1]}": ["interactions_data"] for c in _CATS},
                 "inv": [t for c in _CATS for t in _imports(c[0], c[3], f"interactions_data.{c[1]}", c[4], "i")],
                 "labels": {4 * k + j: f"{c[1]}-{what}" for k, c in enumerate(_CATS) for j, what in enumerate(
                     ["one-source-line-per-interaction", "each-interaction-is-the-one-its-parsable-line-denotes", "in-line-order-each-line-once",
                      "every-parsable-line-of-the-category-is-imported"])}}}
    ghost = [
        # a blank line has a single (empty) tab-separated field, hence no two unit ids: skipping it loses nothing
        {"when": "before", "at": "continue", "loop": 0, "label": "skipped-line",
         "do": ["use split_of_empty(line, '\t') when len(line) == 0"] + [f"let P_{c[0]} = snoc(P_{c[0]}, 0 - 1)" for c in _CATS]},
        {"when": "after", "at": "_process_interaction_line(line, interactions_data)", "loop": 0, "label": "processed-line",
         "do": [cmd for c in _CATS for cmd in (
             f"let S_{c[0]} = ite(condc({c[3]}, line), snoc(S_{c[0]}, i), S_{c[0]})",
             f"let P_{c[0]} = snoc(P_{c[0]}, len(S_{c[0]}) - 1)")]},
    ]


CONTRACTS.update({
    "parse_fr3d_output": parse_fr3d_output_c,
})


# =====================================================================================================================
# DSSR
# =====================================================================================================================
class match_dssr_lw_c:
    """finite: exactly the 18 Leontis-Westhof member names (written out in LW_VALUES above: c/t x W/H/S x W/H/S) are accepted
    and give that member; anything else - None, any other string, names of other attributes of the class - gives None"""
    params = {"lw": "opt[str]"}
    requires = []
    returns = UNION
    raises = []
    modifies = []
    ensures = ["implies(lw is not None and some(lw) in LW_NAMES, result is not None and some(result) == CLS[some(lw)])",
               "implies(lw is None or some(lw) not in LW_NAMES, result is None)"]
    ensures_labels = {0: "a-member-name-gives-that-member", 1: "anything-else-gives-None"}


CONTRACTS.update({"match_dssr_lw": match_dssr_lw_c})

# A Residue3D of the structure is represented by its Residue part (label, auth): `full_name` (common.py, a cached property) reads
# exactly these two fields - modelled as an uninterpreted function of the record (ASSUMED pure, and a string: requires below)
CLASSES["Structure3D"] = {"kind": "object", "fields": {"residues": "list[rec[Residue]]"}}
PURE_ATTRS = {"Residue.full_name": "str"}


@spec
def dssr_key(n):
    """the residue name of a DSSR nucleotide id: what follows the last ':' (the model prefix '1:' is dropped)"""
    return split(n, ":")[len(split(n, ":")) - 1]


@spec
def named(R, key):
    """some residue of the list carries the name"""
    return exists(lambda k: 0 <= k and k < len(R) and R[k].full_name == key)


@spec
def first_named(R, key, r):
    """r is the FIRST residue of the list that carries the name"""
    return exists(lambda k: 0 <= k and k < len(R) and r == R[k] and R[k].full_name == key
                  and forall(lambda j: implies(0 <= j and j < k, R[j].full_name != key)))


@spec
def identified(R):
    """every residue has an auth or a label identity (its full_name is a string, not None)"""
    return forall(lambda k: implies(0 <= k and k < len(R), R[k].auth is not None or R[k].label is not None))


class match_name_c:
    params = {"structure3d": "Structure3D", "nt_id": "opt[str]"}
    requires = ["identified(structure3d.residues)"]
    returns = "opt[rec[Residue]]"
    raises = []
    modifies = []
    ensures = ["implies(nt_id is None, result is None)",
               "implies(nt_id is not None and not named(structure3d.residues, dssr_key(some(nt_id))), result is None)",
               "implies(nt_id is not None and named(structure3d.residues, dssr_key(some(nt_id))), result is not None and first_named(structure3d.residues, dssr_key(some(nt_id)), some(result)))"]
    ensures_labels = {0: "no-name-no-residue", 1: "a-name-no-residue-carries-resolves-to-None", 2: "a-name-resolves-to-the-first-residue-carrying-it"}
    loops = {0: {"index": "k", "inv": ["forall(lambda j: implies(0 <= j and j < k, structure3d.residues[j].full_name != nt_id))"]}}


# namedS(sid, key): some residue of the structure with identity sid carries the name; posS(sid, key): the position of the FIRST
# one (-1 if none) - abbreviations (definitional lemma resolution_definition: namedS by explicit definition, posS by unique
# description) that keep the quantifiers of name resolution out of the import loops' invariants.  They abbreviate statements
# about structure.residues AS IT IS WHEN THE LEMMA IS INSTANTIATED; no function under contract here writes Structure3D.residues
# (their frame obligations), so one identity denotes one residue list throughout.
UFUNS.update({"namedS": (["int", "str"], "bool"), "posS": (["int", "str"], "int")})


@spec
def is_first(R, key, k):
    """position k holds the FIRST residue of the list that carries the name"""
    return 0 <= k and k < len(R) and R[k].full_name == key and forall(lambda j: implies(0 <= j and j < k, R[j].full_name != key))


LEMMAS["resolution_definition"] = {"kind": "definition", "params": ["s", "key"], "shapes": ["Structure3D", "str"], "ensures": [
    "namedS(ident(s), key) == named(s.residues, key)",
    "implies(namedS(ident(s), key), is_first(s.residues, key, posS(ident(s), key)))",
    "implies(not namedS(ident(s), key), posS(ident(s), key) == 0 - 1)"]}


@spec
def res_of(s, n):
    """the residue the DSSR nucleotide id n resolves to in structure s (where it resolves): the first one carrying the name"""
    return s.residues[posS(ident(s), dssr_key(n))]


class match_name_callee_c(match_name_c):
    """the same contract as the import loops use it (resolution stated through namedS / posS); proved on the same code"""
    ensures = ["implies(nt_id is None, result is None)",
               "implies(nt_id is not None, (result is None) == (not namedS(ident(structure3d), dssr_key(some(nt_id)))))",
               "implies(nt_id is not None and result is not None, some(result) == res_of(structure3d, some(nt_id)))"]
    ensures_labels = {0: "no-name-no-residue", 1: "None-iff-no-residue-carries-the-name", 2: "else-the-first-residue-carrying-it"}
    ghost_entry = ["use resolution_definition(structure3d, dssr_key(some(nt_id)))"]


CONTRACTS.update({"match_dssr_name_to_residue": match_name_c, "match_dssr_name_to_residue@callee": match_name_callee_c})


# --------------------------------------------------------------------------------------------- the DSSR JSON document
# ASSUMED schema of the document orjson.loads returns (DSSR's --json output): a dict that may hold "models" (a list of dicts
# with an integer "model" and a dict "parameters"), "pairs" (a list of dicts whose "nt1", "nt2", "LW" are strings when
# present) and "stacks" (a list of dicts with a string "nts_long").  DssrDoc / DssrModel are objects whose fields give, per
# key, presence and value; DssrPair / DssrStack are fixed-key dicts read with .get (absent or null -> None / "").
CLASSES.update({
    "DssrPair": {"kind": "record", "dict_keys": True, "fields": {"nt1": "opt[str]", "nt2": "opt[str]", "LW": "opt[str]"}},
    "DssrStack": {"kind": "record", "dict_keys": True, "fields": {"nts_long": "str"}},
    "DssrDoc": {"kind": "object", "fields": {"has_models": "bool", "models": "list[DssrModel]", "has_pairs": "bool", "pairs": "list[rec[DssrPair]]",
                                             "has_stacks": "bool", "stacks": "list[rec[DssrStack]]"}},
    "DssrModel": {"kind": "object", "fields": {"model": "opt[int]", "has_parameters": "bool", "parameters": "DssrDoc"}},
})


def _new_object(e, st, cls):
    from pyvc.values import VRef, is_leaf
    ref = VRef(cls, st.alloc)
    st.alloc = st.alloc + 1 if not is_leaf(st.alloc) else _z3.simplify(st.alloc + 1)
    return ref


def _ext_orjson_loads(e, args, kw, node, st):
    """ASSUMED contract of orjson.loads(text): a new document object of the schema above; nothing is assumed about its
    content (the fields of the new object are unconstrained).  Also creates the empty dict `{}` that the .get defaults of the
    code denote (no key present)."""
    doc = _new_object(e, st, "DssrDoc")
    empty = _new_object(e, st, "DssrDoc")
    for f in ("has_models", "has_pairs", "has_stacks"):
        e.heap_write(st, empty, f, False)
    st.ghost["__dssr_empty"] = empty
    return doc


def _const_key(key, allowed, what):
    from pyvc.values import Unsupported
    if not isinstance(key, str) or key not in allowed:
        raise Unsupported(f"{what}: key {key!r} is outside the modelled schema")
    return key


def _doc_contains(e, args, kw, node, st):
    key = _const_key(args[1], ("models", "pairs", "stacks"), "`key in document`")
    return e.heap_read(st, args[0], "has_" + key)


def _doc_get(e, args, kw, node, st):
    """document.get(key[, default]) for key in models / pairs / stacks: the value if the key is present, else the default"""
    from pyvc.values import Unsupported, VList, VOpt, ite_tree, to_z3
    key = _const_key(args[1], ("models", "pairs", "stacks"), "document.get")
    has, val = to_z3(e.heap_read(st, args[0], "has_" + key)), e.heap_read(st, args[0], key)
    if len(args) == 2:
        if any(f.eq(has) for f in st.pc):
            return val  # the key is known to be present on this path
        return VOpt(_z3.Not(has), val)
    if len(args) == 3 and isinstance(args[2], VList) and args[2].elems is None:
        empties = e.__dict__.setdefault("_dssr_empty_lists", {})  # one empty list per key (the same term wherever it is evaluated)
        if key not in empties:
            empties[key] = e.default_of(("list", val.eshape))
        return ite_tree(has, val, empties[key])
    raise Unsupported("document.get with this default")


def _model_get(e, args, kw, node, st):
    """models[k].get("model", None) / .get("parameters", {})"""
    from pyvc.values import Unsupported, VRef, to_z3
    key = _const_key(args[1], ("model", "parameters"), "model entry .get")
    if key == "model" and len(args) == 3 and args[2] is None:
        return e.heap_read(st, args[0], "model")
    if key == "parameters" and len(args) == 3 and type(args[2]).__name__ == "VEmptyDict" and "__dssr_empty" in st.ghost:
        has, val = to_z3(e.heap_read(st, args[0], "has_parameters")), e.heap_read(st, args[0], "parameters")
        return VRef("DssrDoc", _z3.If(has, to_z3(val.ident), to_z3(st.ghost["__dssr_empty"].ident)))
    raise Unsupported("model entry .get with these arguments")


_doc_contains.pure = _doc_get.pure = _model_get.pure = True
EXTERNALS.update({"orjson.loads": _ext_orjson_loads, "DssrDoc.__contains__": _doc_contains, "DssrDoc.get": _doc_get, "DssrModel.get": _model_get})


@spec
def doc_pairs(d):
    return ite(d.has_pairs, d.pairs, empty('list[rec[DssrPair]]'))


@spec
def doc_stacks(d):
    return ite(d.has_stacks, d.stacks, empty('list[rec[DssrStack]]'))


@spec
def resolves(s, n):
    """the DSSR nucleotide id n names a residue of the structure"""
    return n is not None and namedS(ident(s), dssr_key(some(n)))


# lwname(s): s is one of the 18 Leontis-Westhof member names; lwclass(s): that member (union encoding) - abbreviations
# (definitional lemma lw_name_definition) that keep the 18-way case split out of the loop's quantified invariants
UFUNS.update({"lwname": (["str"], "bool"), "lwclass": (["str"], "int")})
LEMMAS["lw_name_definition"] = {"kind": "definition", "params": ["s"], "shapes": ["str"], "ensures": ["lwname(s) == (s in LW_NAMES)", "lwclass(s) == CLS[s]"]}


@spec
def valid_lw(l):
    return l is not None and lwname(some(l))


@spec
def pair_kept(s, p):
    """a pair that carries a valid class and whose two residue names resolve"""
    return resolves(s, p.nt1) and resolves(s, p.nt2) and valid_lw(p.LW)


@spec
def pair_imported(s, p, b):
    """b is the base pair the document's pair p denotes: the two resolved residues, the named class, no Saenger class"""
    return b.nt1 == res_of(s, some(p.nt1)) and b.nt2 == res_of(s, some(p.nt2)) and b.lw == lwclass(some(p.LW)) and b.saenger is None


_PAIR_INV = [
    "len(S_p) == len(base_pairs) and len(base_pairs) >= 0",
    "forall(lambda j: implies(0 <= j and j < len(S_p), 0 <= S_p[j] and S_p[j] < {n} and pair_kept(structure3d, {PL}[S_p[j]]) "
    "and pair_imported(structure3d, {PL}[S_p[j]], base_pairs[j])), pats=['S_p[j]'])",
    "forall(lambda j, j2: implies(0 <= j and j < j2 and j2 < len(S_p), S_p[j] < S_p[j2]))",
    "forall(lambda l: implies(0 <= l and l < {n} and pair_kept(structure3d, {PL}[l]), 0 <= P_p[l] and P_p[l] < len(S_p) and S_p[P_p[l]] == l), pats=['P_p[l]'])",
]
_PAIR_LABELS = ["one-source-pair-per-base-pair", "each-base-pair-joins-the-resolved-residues-with-the-named-class", "in-document-order-each-once",
                "every-pair-with-valid-class-and-resolvable-names-is-kept"]


# --------------------------------------------------------------------------------------------- the whole DSSR import
@spec
def members(st):
    """the nucleotide ids of a stack, in stacking order"""
    return split(st.nts_long, ",")


@spec
def step_ok(s, st, t):
    """members t-1 and t of the stack are consecutive and both resolve in the structure"""
    return (1 <= t and t < len(members(st)) and namedS(ident(s), dssr_key(members(st)[t - 1]))
            and namedS(ident(s), dssr_key(members(st)[t])))


@spec
def stk_of_step(s, st, t):
    return rec(Stacking, nt1=res_of(s, members(st)[t - 1]), nt2=res_of(s, members(st)[t]), topology=None)


# SS[j], ST[j] = stack and member index of stacking j; POS[(a, t)] = position of the stacking of step t of stack a.
# {SL}: the list of stacks; {dom}: which (stack a, step t) have been processed; {dj}: the same for the pair (SS[j], ST[j])
_STACK_INV = [
    "len(SS) == len(stackings) and len(ST) == len(stackings) and len(stackings) >= 0",
    "forall(lambda j: implies(0 <= j and j < len(SS), 0 <= SS[j] and {dj} and step_ok(structure3d, {SL}[SS[j]], ST[j]) "
    "and stackings[j] == stk_of_step(structure3d, {SL}[SS[j]], ST[j])), pats=['SS[j]'])",
    "forall(lambda j, j2: implies(0 <= j and j < j2 and j2 < len(SS), SS[j] < SS[j2] or (SS[j] == SS[j2] and ST[j] < ST[j2])))",
    "forall(lambda a, t: implies(0 <= a and {dom} and step_ok(structure3d, {SL}[a], t), "
    "0 <= POS[(a, t)] and POS[(a, t)] < len(SS) and SS[POS[(a, t)]] == a and ST[POS[(a, t)]] == t), pats=['POS[(a, t)]'])",
]
_STACK_LABELS = ["one-source-step-per-stacking", "each-stacking-joins-two-consecutive-resolved-members-of-a-stack", "in-document-and-stack-order-each-step-once",
                 "every-consecutive-resolvable-step-of-every-stack-is-imported"]


def _stack_inv(SL, dom, dj):
    return [t.format(SL=SL, dom=dom, dj=dj) for t in _STACK_INV]


class parse_dssr_output_c:
    """D = the document whose pairs / stacks are imported (the selected model's parameters, or the document itself);
    S_p[j] = position in D's pairs of base pair j; P_p[l] = position in the result of the (kept) pair at position l; SS, ST, POS: see
    _STACK_INV"""
    params = {"file_path": "str", "structure3d": "Structure3D", "model": "opt[int]"}
    requires = ["identified(structure3d.residues)"]
    returns = "rec[BaseInteractions]"
    raises = []
    modifies = []
    locals = {"base_pairs": "list[rec[BasePair]]", "stackings": "list[rec[Stacking]]"}
    callee_variants = {"match_dssr_name_to_residue": "callee"}
    prune_branches = True  # index normalisation / slice bounds decided by the path condition are not case-split again
    ghost_returns = {"D": "DssrDoc", "S_p": "list[int]", "P_p": "dict[int,int]", "SS": "list[int]", "ST": "list[int]", "POS": "dict[tuple[int,int],int]"}
    ghost_entry = ["let S_p = empty('list[int]')", "let P_p = empty('dict[int,int]')", "let SS = empty('list[int]')", "let ST = empty('list[int]')",
                   "let POS = empty('dict[tuple[int,int],int]')"]
    ensures = ([t.format(n="len(D.get('pairs', []))", PL="D.get('pairs', [])").replace("base_pairs", "result.basePairs") for t in _PAIR_INV]
               + [t.replace("stackings", "result.stackings") for t in _stack_inv("D.get('stacks', [])", "a < len(D.get('stacks', []))", "SS[j] < len(D.get('stacks', []))")]
               + ["len(result.baseRiboseInteractions) == 0 and len(result.basePhosphateInteractions) == 0 and len(result.otherInteractions) == 0"])
    ensures_labels = dict(enumerate(_PAIR_LABELS + _STACK_LABELS + ["no-other-kind-of-interaction"]))
    loops = {
        0: {"inv": []},
        1: {"index": "i", "iter": "PL", "touches": {"TextFile.lines": []}, "inv": [t.format(n="i", PL="PL") for t in _PAIR_INV],
            "labels": dict(enumerate(_PAIR_LABELS))},
        2: {"index": "u", "iter": "SL", "touches": {"TextFile.lines": []}, "inv": _stack_inv("SL", "a < u", "SS[j] < u"),
            "labels": dict(enumerate(_STACK_LABELS))},
        3: {"touches": {"TextFile.lines": []},
            "inv": _stack_inv("SL", "(a < u or (a == u and t < i))", "(SS[j] < u or (SS[j] == u and ST[j] < i))") + ["1 <= i and len(nts) == len(members(SL[u]))"],
            "labels": dict(enumerate(_STACK_LABELS + ["one-list-entry-per-stack-member"]))},
    }
    ghost = [
        {"when": "before", "at": "for pair in dssr.get('pairs'", "label": "document-selected", "do": ["name dssr", "let D = dssr"]},
        {"when": "after", "at": "lw = match_dssr_lw(", "loop": 1, "label": "class-name", "do": ["use lw_name_definition(some(pair.LW))"]},
        {"when": "after", "at": "base_pairs.append(", "loop": 1, "label": "pair-kept",
         "do": ["let S_p = snoc(S_p, i)", "let P_p = dstore(P_p, i, len(S_p) - 1)"]},
        {"when": "after", "at": "stackings.append(", "loop": 3, "label": "step-kept",
         "do": ["let SS = snoc(SS, u)", "let ST = snoc(ST, i)", "let POS = dstore(POS, (u, i), len(SS) - 1)"]},
    ]


CONTRACTS.update({"parse_dssr_output": parse_dssr_output_c})
