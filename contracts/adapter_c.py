"""Sidecar contracts for rnapolis/adapter.py (C19): label normaliser, DSSR class matcher."""


def spec(f):
    return f


CLASSES = {}
INLINE = []
PRUNE_BRANCHES = False
LW_RE = "n?[cCtT][wWhHsS][wWhHsS]a?"
ST_RE = "n?s(33|35|53|55)a?"
BPH_RE = "n?[0-9]BPha?"
BR_RE = "n?[0-9]BRa?"
ASCII = "[\\x00-\\x7f]*"


@spec
def core(s):
    """the label without the optional 'n' prefix (the recognised cores never start with 'n')"""
    return ite(s.startswith("n"), s[1:], s)


class unify:
    target = "unify_classification"
    params = {"fr3d_name": "str"}
    # property quantifier: labels over the (ASCII) FR3D alphabet; str.isdigit/lower/upper are modelled on ASCII only
    requires = ["matches(fr3d_name, ASCII)"]
    raises = []
    ensures = [
        "implies(matches(fr3d_name, LW_RE), result[0] == 'base-pair' and result[1].value == char(core(fr3d_name), 0).lower() + char(core(fr3d_name), 1).upper() + char(core(fr3d_name), 2).upper())",
        "implies(matches(fr3d_name, ST_RE), result[0] == 'stacking' and result[1].value == ite(core(fr3d_name)[:3] == 's33', 'downward', ite(core(fr3d_name)[:3] == 's55', 'upward', ite(core(fr3d_name)[:3] == 's35', 'outward', 'inward'))))",
        "implies(matches(fr3d_name, BPH_RE), result[0] == 'base-phosphate' and result[1].value == core(fr3d_name)[:4])",
        "implies(matches(fr3d_name, BR_RE), result[0] == 'base-ribose' and result[1].value == core(fr3d_name)[:3])",
        "implies(not (matches(fr3d_name, LW_RE) or matches(fr3d_name, ST_RE) or matches(fr3d_name, BPH_RE) or matches(fr3d_name, BR_RE)), result[0] == 'other' and result[1] == None)",
    ]
    ensures_labels = {0: "LW-labels", 1: "stacking-labels", 2: "BPh-labels", 3: "BR-labels", 4: "unrecognised-kept-as-other"}
    max_paths = 512


CONTRACTS = {"unify_classification": unify}
