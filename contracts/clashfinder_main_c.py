"""Sidecar contract for clashfinder.main (C17, second sentence): the report of the command-line tool.

main() is executed symbolically on the real source, from argparse to the CSV rows.  It reuses the vocabulary and the PROVED
contract of find_clashes (contracts/clashfinder_c.py) at the call site; everything the tool does around it - the three
aggregation tables (clashing_chains, max_occupancy_residues, max_occupancy_chains), the printed report and the CSV rows - is
under contract here.

Model of the environment (EXTERNALS below; every entry is trusted base and listed in props/C17.py):
  argparse        the parser object remembers the destinations registered by add_argument; parse_args() exits (SystemExit) or
                  returns a namespace whose attributes are the constants cli_<dest>() (a function of sys.argv, fixed in a call)
  open / with     a text file object; may fail with OSError
  read_3d_structure(f, 1)
                  a Structure3D whose `residues` is the list parsed(f.name): a function of the path (in_nres / in_res), so the
                  preconditions of main are stated about parsed(cli_input()) - the residues of the input file
  print(s)        writes one line; the line is handed to the ghost list OUT by the ghost command anchored at that statement
                  (ghost name last_printed = the argument of the print call just executed)
  f"{x}"          of a Residue3D: res_str(x) (Residue3D.__repr__, a pure function of the frozen object); of a float:
                  float_str(x) (repr of the float) - both uninterpreted, nothing is assumed about them
  sorted(dict)    a permutation of the dict's keys (ordering clause deliberately not assumed: any order is covered)
  sorted(set)     a duplicate-free enumeration of exactly the set's members; may raise TypeError (Atom.__lt__ compares Optional
                  fields)
  read_metadata, metadata[..][..][..], os.path.basename / splitext, csv.writer / writerow
                  opaque values (uninterpreted functions); writerow hands its row to the ghost list ROWS the same way as print

Existence-free statement of the maxima: the ghost maps MR (residue pair -> index of a clash) and MC (chain pair -> index of a
clash) name, for every key, the clash that attains the reported maximum; LC names, for every printed line, a clash the line is
about; WC / WP / WA name a clash for every key of the nested table.  All are written by ghost code only."""
import z3

from contracts import clashfinder_c as base
from contracts.clashfinder_c import (MOLPROBITY_MARGIN, RADII, SPEC_CONSTS, _empty_ints, _empty_map, _isclose, _norm, _push, _put,
                                     _strip, find_clashes)
from pyvc.expr import NOT
from pyvc.values import Unsupported, VConc, VDict, VHList, VList, VOpt, VRef, VSet, VTuple, fresh, key_terms, sel, to_z3, uid

__file_spec__ = [base.__file__, __file__]


def spec(f):
    return f


I, S, B, R = z3.IntSort(), z3.StringSort(), z3.BoolSort(), z3.RealSort()
DICT_ORDER_INVARIANT = True  # representation invariant of insertion-ordered dict VARIABLES at loop heads (engine.assume_dict_wf)
NESTED_DICT_ORDER = True    # dicts stored as values of a dict keep their insertion-ordered key list (values.fresh)
PRUNE_BRANCHES = False
PACK_KEYS = True            # composite dict / set keys are packed into one array index (values.PACK: same meaning, smaller terms)
INLINE = ["AtomType.matches", "classify_clash"]

CLASSES = {
    "Residue3D": {"kind": "object", "eq": "res_eq",
                  "fields": {"atoms": "list[Atom]", "is_nucleotide": "bool", "chain": "str"}},
    "Atom": {"kind": "object", "fields": {"name": "str", "coordinates": "vec3", "occupancy": "opt[real]"}},
    "Structure3D": {"kind": "object", "fields": {"residues": "list[Residue3D]"}},
    "Parser": {"kind": "object", "fields": {"positionals": "set[str]", "flags": "set[str]", "optionals": "set[str]"}},
    "Namespace": {"kind": "object", "fields": {"input": "str", "ignore_occupancy": "bool", "nucleic_acid_only": "bool",
                                               "ignore_autoclashes": "bool", "require_same_atom_name": "bool",
                                               "enable_molprobity_mode": "bool", "csv": "opt[str]"}},
    "TextFile": {"kind": "object", "fields": {"name": "str", "writable": "bool"}},
    "CsvWriter": {"kind": "object", "fields": {"file": "TextFile"}},
    "Metadata": {"kind": "object", "fields": {"path": "str"}},
    "MetaList": {"kind": "object", "fields": {"path": "str", "cat": "str"}},
    "MetaRow": {"kind": "object", "fields": {"path": "str", "cat": "str", "idx": "int"}},
}

UFUNS = dict(base.UFUNS)
UFUNS.update({
    "atom_eq": (["int", "int"], "bool"),     # Atom.__eq__ (dataclass-generated field-wise equality) on two references
    "res_str": (["int"], "str"),             # str(residue) == Residue3D.__repr__ (full_name), a function of the frozen object
    "float_str": (["real"], "str"),          # str(x) / format(x, '') of a float
    "in_nres": (["str"], "int"),             # number of residues read_3d_structure(<file at path>, 1) returns
    "in_res": (["str", "int"], "int"),       # identity of its i-th residue
    "cli_input": ([], "str"), "cli_csv": ([], "str"), "cli_has_csv": ([], "bool"),
    "cli_ignore_occupancy": ([], "bool"), "cli_nucleic_acid_only": ([], "bool"), "cli_ignore_autoclashes": ([], "bool"),
    "cli_require_same_atom_name": ([], "bool"), "cli_enable_molprobity_mode": ([], "bool"),
    "meta_value": (["str", "str", "int", "str"], "str"),  # metadata[cat][idx][item] of the file at a path
    "path_basename": (["str"], "str"), "path_root": (["str"], "str"), "path_ext": (["str"], "str"),
})


# ------------------------------------------------------------------------------------------------ externals (trusted base)
def _alloc(e, st, cls):
    ref = VRef(cls, st.alloc)
    st.alloc = z3.simplify(to_z3(st.alloc) + 1)
    return ref


def _simp(v):
    return z3.simplify(to_z3(v))


def _empty_str_set(e):
    return e.default_of(("set", ("str",)))


def ext_ArgumentParser(e, args, kw, node, st):
    if args or kw:
        raise Unsupported("ArgumentParser(...) with arguments")
    p = _alloc(e, st, "Parser")
    for f in ("positionals", "flags", "optionals"):
        e.heap_write(st, p, f, _empty_str_set(e))
    return p


def ext_add_argument(e, args, kw, node, st):
    """add_argument(name, help=..[, action='store_true']): registers the destination `name` (positional, a string), or for
    '--some-name' the destination some_name: a bool (False unless given) with action='store_true', else a string or None"""
    if len(args) != 2 or not isinstance(args[1], str) or set(kw) - {"help", "action"} or kw.get("action", "store_true") != "store_true":
        raise Unsupported("add_argument: only add_argument(<one name>, help=..[, action='store_true']) is modelled")
    nm = args[1]
    if nm.startswith("--") and len(nm) > 2 and not nm[2:].startswith("-"):
        fld, dest = ("flags" if "action" in kw else "optionals"), nm[2:].replace("-", "_")
    elif not nm.startswith("-") and nm and "action" not in kw:
        fld, dest = "positionals", nm
    else:
        raise Unsupported(f"add_argument({nm!r})")
    cur = e.heap_read(st, args[0], fld)
    e.heap_write(st, args[0], fld, VSet(cur.kshape, z3.Store(cur.mem, z3.StringVal(dest), z3.BoolVal(True))))
    return VConc(object())


def ext_parse_args(e, args, kw, node, st):
    """parse_args(): exits (SystemExit) on a bad command line / --help, else a namespace with one attribute per registered
    destination whose value is the constant cli_<dest>() (Optional string: None unless cli_has_<dest>())"""
    if len(args) != 1 or kw:
        raise Unsupported("parse_args(...) with arguments")
    U = e.ufuns
    e.may_raise(z3.Bool(uid("bad_command_line")), "SystemExit", node)
    ns = _alloc(e, st, "Namespace")
    regs = {k: e.heap_read(st, args[0], k) for k in ("positionals", "flags", "optionals")}
    for fld, shp in e.classes["Namespace"]["fields"].items():
        kind = {"str": "positionals", "bool": "flags", "opt[str]": "optionals"}[shp]
        for k, reg in regs.items():
            if z3.is_true(_simp(z3.Select(reg.mem, z3.StringVal(fld)))) != (k == kind):
                raise Unsupported(f"the namespace model declares {fld}: {shp}, which is not how add_argument registered it")
        val = U["cli_" + fld]()
        e.heap_write(st, ns, fld, VOpt(z3.Not(U["cli_has_" + fld]()), val) if shp == "opt[str]" else val)
    return ns


def ext_open(e, args, kw, node, st):
    """open(path[, 'w']) in text mode; may fail with OSError (missing file, permissions)"""
    mode = args[1] if len(args) > 1 else "r"
    if not (1 <= len(args) <= 2) or kw or mode not in ("r", "w"):
        raise Unsupported("open(): only open(path) and open(path, 'w') are modelled")
    path = args[0]
    if isinstance(path, VOpt):
        e.may_raise(path.isnone, "TypeError", node)
        path = path.val
    e.may_raise(z3.Bool(uid("os_error")), "OSError", node)
    f = _alloc(e, st, "TextFile")
    e.heap_write(st, f, "name", path)
    e.heap_write(st, f, "writable", mode == "w")
    return f


def ext_enter(e, args, kw, node, st):
    return args[0]


def ext_exit(e, args, kw, node, st):
    return False


ext_enter.pure = ext_exit.pure = True


def parsed_list(e, path):
    i = z3.Int("i!parsed")
    return VList(e.ufuns["in_nres"](to_z3(path)), VRef("Residue3D", z3.Lambda([i], e.ufuns["in_res"](to_z3(path), i))), ("ref", "Residue3D"))


def ext_parsed(e, args, kw, node, st):
    return parsed_list(e, args[0])


def ext_read_3d_structure(e, args, kw, node, st):
    """read_3d_structure(f, 1) for an open text file f: a new Structure3D whose residue list is parsed(f.name) - a function of
    the path (the file is not changed between open and read); may raise what the parsers raise on malformed input (ValueError
    family is declared by main as an allowed exit)"""
    if len(args) != 2 or kw or not (isinstance(args[0], VRef) and args[0].cls == "TextFile") or args[1] != 1:
        raise Unsupported("read_3d_structure: only read_3d_structure(<open text file>, 1) is modelled")
    e.may_raise(z3.Bool(uid("parse_error")), "ValueError", node)
    s3 = _alloc(e, st, "Structure3D")
    lst = parsed_list(e, e.heap_read(st, args[0], "name"))
    st.assume(to_z3(lst.length) >= 0)
    e.heap_write(st, s3, "residues", lst)
    return s3


def _recorded(e, node, cmd, what):
    """the call is a statement of its own and a ghost command anchored AFTER that statement hands the value to the ghost list:
    a print / writerow that the contract does not record is refused, so 'nothing else is printed' cannot be missed"""
    import ast
    # the statement whose expression is this very call (searched in the function under verification: cur_stmt may still point
    # into an inlined helper evaluated for an argument)
    stmt = next((n_ for n_ in ast.walk(e.funcs[str(e.cur_name).split("@")[0]]) if isinstance(n_, ast.Expr) and n_.value is node), None)
    if not (isinstance(stmt, ast.Expr) and isinstance(stmt.value, ast.Call) and (stmt.value is node or ast.unparse(stmt.value) == ast.unparse(node))):
        raise Unsupported(f"{what}(...) that is not a statement of its own: {type(stmt).__name__} {ast.unparse(stmt)[:40] if stmt is not None else None!r} / {ast.unparse(node)[:40]!r}")
    text = ast.unparse(stmt)
    if not any(g["when"] == "after" and text.startswith(g["at"]) and cmd in [c.strip() for c in g["do"]] for g in e.cur_ghost):
        raise Unsupported(f"{what} statement without a ghost command recording it ({cmd!r}): {text[:50]}")


def ext_print(e, args, kw, node, st):
    """print(s) for one string: writes the line s to stdout.  The line is recorded as the ghost value last_printed; the ghost
    command anchored at the print statement appends it to the ghost list OUT (so OUT is loop-modified ghost state that the
    engine forgets at every loop head).  Nothing else is changed."""
    if len(args) != 1 or kw:
        raise Unsupported("print: only print(<one string>) is modelled")
    s_ = args[0]
    if not (isinstance(s_, str) or (z3.is_expr(s_) and s_.sort() == S)):
        raise Unsupported("print of a non-string")
    _recorded(e, node, "let OUT = push(OUT, last_printed)", "print")
    st.ghost["last_printed"] = to_z3(s_)
    return None


def ext_res_str(e, args, kw, node, st):
    return e.ufuns["res_str"](to_z3(args[0].ident))


ext_res_str.pure = True


def ext_format(e, args, kw, node, st):
    """format(x, '') of a float == str(x): the uninterpreted float_str(x)"""
    v, spec_ = args
    if spec_ != "" or not (z3.is_expr(v) and v.sort() == R):
        raise Unsupported("format: only the empty format spec of a float is modelled")
    return e.ufuns["float_str"](v)


def ext_fstr(e, args, kw, node, st):
    return e.ufuns["float_str"](to_z3(args[0], "real"))


def ext_sorted(e, args, kw, node, st):
    """sorted(d) for a dict d: a list holding exactly the keys of d, each once - a permutation (perm / its inverse inv are the
    unknown bijection) of the insertion-ordered key list.  sorted(S) for a set S: a duplicate-free enumeration of exactly the
    members of S; comparing the members may raise TypeError (Atom.__lt__ is the dataclass order over Optional fields).
    The ordering clause is deliberately NOT assumed: the result is an arbitrary permutation, which over-approximates sorted()."""
    if len(args) != 1 or kw:
        raise Unsupported("sorted() with options")
    v = args[0]
    if isinstance(v, VSet):
        e.may_raise(z3.Bool(uid("unorderable")), "TypeError", node)
        seq = e.set_enumeration(v, st)
        st.ghost["last_sorted_set"] = seq
        return seq
    if not (isinstance(v, VDict) and v.order is not None):
        raise Unsupported("sorted() of this value")
    n = to_z3(v.order.length)
    out = fresh(("list", v.kshape), uid("sorted"))
    perm, inv = z3.Const(uid("perm"), z3.ArraySort(I, I)), z3.Const(uid("inv"), z3.ArraySort(I, I))
    q = z3.Int(uid("q"))
    st.assume(z3.And(to_z3(out.length) == n, n >= 0))
    eqs = [a == b for a, b in zip(key_terms(sel(out.elems, q)), key_terms(sel(v.order.elems, perm[q])))]
    st.assume(z3.ForAll([q], z3.Implies(z3.And(q >= 0, q < n), z3.And(perm[q] >= 0, perm[q] < n, inv[perm[q]] == q, *eqs)),
                        patterns=[perm[q], key_terms(sel(out.elems, q))[0]]))
    st.assume(z3.ForAll([q], z3.Implies(z3.And(q >= 0, q < n), z3.And(inv[q] >= 0, inv[q] < n, perm[inv[q]] == q)), patterns=[inv[q]]))
    st.ghost["SPERM"], st.ghost["SINV"] = VList(n, perm, ("int",)), VList(n, inv, ("int",))
    return out


def ext_read_metadata(e, args, kw, node, st):
    """read_metadata(path, categories): an opaque mapping; metadata[cat][i][item] == meta_value(path, cat, i, item) where
    present (KeyError / IndexError otherwise)"""
    if len(args) != 2 or kw:
        raise Unsupported("read_metadata(...)")
    e.may_raise(z3.Bool(uid("metadata_error")), "OSError", node)
    m = _alloc(e, st, "Metadata")
    e.heap_write(st, m, "path", args[0])
    return m


def ext_meta_get(e, args, kw, node, st):
    m, k = args
    e.may_raise(z3.Bool(uid("no_such_category")), "KeyError", node)
    r = VRef("MetaList", z3.Int(uid("metalist")))
    st.assume(z3.And(to_z3(e.heap_read(st, r, "path")) == to_z3(e.heap_read(st, m, "path")), to_z3(e.heap_read(st, r, "cat")) == to_z3(k)))
    return r


def ext_metalist_get(e, args, kw, node, st):
    m, k = args
    e.may_raise(z3.Bool(uid("no_such_row")), "IndexError", node)
    r = VRef("MetaRow", z3.Int(uid("metarow")))
    st.assume(z3.And(to_z3(e.heap_read(st, r, "path")) == to_z3(e.heap_read(st, m, "path")), to_z3(e.heap_read(st, r, "cat")) == to_z3(e.heap_read(st, m, "cat")),
                     to_z3(e.heap_read(st, r, "idx")) == to_z3(k)))
    return r


def ext_metarow_get(e, args, kw, node, st):
    m, k = args
    e.may_raise(z3.Bool(uid("no_such_item")), "KeyError", node)
    return e.ufuns["meta_value"](to_z3(e.heap_read(st, m, "path")), to_z3(e.heap_read(st, m, "cat")), to_z3(e.heap_read(st, m, "idx")), to_z3(k))


ext_meta_get.pure = ext_metalist_get.pure = ext_metarow_get.pure = True


def ext_basename(e, args, kw, node, st):
    return e.ufuns["path_basename"](to_z3(args[0]))


def ext_splitext(e, args, kw, node, st):
    return VTuple([e.ufuns["path_root"](to_z3(args[0])), e.ufuns["path_ext"](to_z3(args[0]))])


def ext_csv_writer(e, args, kw, node, st):
    if len(args) != 1 or kw or not (isinstance(args[0], VRef) and args[0].cls == "TextFile"):
        raise Unsupported("csv.writer(<open text file>)")
    w = _alloc(e, st, "CsvWriter")
    e.heap_write(st, w, "file", args[0])
    return w


def ext_writerow(e, args, kw, node, st):
    """writer.writerow(row): writes one row; the row is recorded as the ghost value last_row (header: last_header); the ghost
    command anchored at the statement appends it to the ghost list ROWS.  Changes nothing else."""
    w, row = args
    if isinstance(row, VHList):
        _recorded(e, node, "let ROWS = push(ROWS, last_row)", "writerow")
        st.ghost["last_row"] = VTuple(list(row.items))
    elif isinstance(row, VList) and isinstance(row.length, int):
        st.ghost["last_header"] = row
    else:
        raise Unsupported("writerow of this value")
    return None


ext_writerow.pure = True

EXTERNALS = {
    "numpy.linalg.norm": _norm, "math.isclose": _isclose, "str.strip": _strip,
    "spec.push": _push, "spec.empty_ints": _empty_ints, "spec.put": _put,
    "spec.empty_map1": _empty_map(("int",)), "spec.empty_map2": _empty_map(("tuple", (("int",), ("int",)))),
    "spec.empty_map_ss": _empty_map(("tuple", (("str",), ("str",)))),
    "spec.empty_map_ssi": _empty_map(("tuple", (("str",), ("str",), ("int",)))),
    "spec.empty_map_aar": _empty_map(("tuple", (("int",), ("int",), ("int",), ("int",), ("real",)))),
    "spec.parsed": ext_parsed, "spec.fstr": ext_fstr,
    "argparse.ArgumentParser": ext_ArgumentParser, "Parser.add_argument": ext_add_argument, "Parser.parse_args": ext_parse_args,
    "builtins.open": ext_open, "TextFile.__enter__": ext_enter, "TextFile.__exit__": ext_exit,
    "rnapolis.parser.read_3d_structure": ext_read_3d_structure,
    "builtins.print": ext_print, "Residue3D.__str__": ext_res_str, "builtins.format": ext_format, "builtins.sorted": ext_sorted,
    "rnapolis.metareader.read_metadata": ext_read_metadata,
    "Metadata.__getitem__": ext_meta_get, "MetaList.__getitem__": ext_metalist_get, "MetaRow.__getitem__": ext_metarow_get,
    "posixpath.basename": ext_basename, "posixpath.splitext": ext_splitext,
    "_csv.writer": ext_csv_writer, "CsvWriter.writerow": ext_writerow,
}
SPEC_EXTERNALS = dict(base.SPEC_EXTERNALS)
SPEC_EXTERNALS.update({"empty_map_ss": "spec.empty_map_ss", "empty_map_ssi": "spec.empty_map_ssi", "empty_map_aar": "spec.empty_map_aar",
                       "parsed": "spec.parsed", "fstr": "spec.fstr"})


# ------------------------------------------------------------------------------------------------ vocabulary
@spec
def distinct_residues(Rs):
    """`==` of two residues of the file (dataclass __eq__) holds exactly for the same position of the list"""
    return forall(lambda a, b: implies(0 <= a and a < len(Rs) and 0 <= b and b < len(Rs), res_eq(Rs[a], Rs[b]) == (a == b)))


@spec
def distinct_atoms(Rs):
    """`==` of two atoms of the file (dataclass __eq__) holds exactly for the same position (no duplicated atom record)"""
    return forall(lambda a, p, b, q: implies(0 <= a and a < len(Rs) and 0 <= b and b < len(Rs) and 0 <= p and p < len(Rs[a].atoms)
                                             and 0 <= q and q < len(Rs[b].atoms),
                                             atom_eq(Rs[a].atoms[p], Rs[b].atoms[q]) == (a == b and p == q)))


@spec
def stripped_names(Rs, nao):
    return forall(lambda a, p: implies(selpos(Rs, nao, a, p), char(Rs[a].atoms[p].name, 0) == char(Rs[a].atoms[p].name.strip(), 0)))


@spec
def nonneg_occupancies(Rs):
    return forall(lambda a, p: implies(0 <= a and a < len(Rs) and 0 <= p and p < len(Rs[a].atoms) and not is_none(Rs[a].atoms[p].occupancy),
                                       some(Rs[a].atoms[p].occupancy) >= 0.0))


@spec
def ck0(C, k):
    return C[k][0][0].chain


@spec
def ck1(C, k):
    return C[k][1][0].chain


@spec
def same_rkey(C, k, l):
    """clashes k and l are between the same pair of residues (same objects, same order)"""
    return C[k][0][0] is C[l][0][0] and C[k][1][0] is C[l][1][0]


@spec
def same_ckey(C, k, l):
    return ck0(C, k) == ck0(C, l) and ck1(C, k) == ck1(C, l)


@spec
def res_entries(C, n, T, MR):
    """T (residue pair -> float) after the first n clashes: every entry belongs to a pair with a clash, and its value is the
    occupancy sum of clash MR[pair], a clash of this very pair"""
    return forall(lambda a, b: implies((a, b) in T, 0 <= MR[a, b] and MR[a, b] < n and C[MR[a, b]][0][0] is a and C[MR[a, b]][1][0] is b
                                       and T[a, b] == C[MR[a, b]][2]), sorts={"a": "Residue3D", "b": "Residue3D"})


@spec
def res_covers(C, n, T):
    """every residue pair with a clash (among the first n) has an entry, and no clash of the pair has a larger sum than the entry"""
    return forall(lambda k: implies(0 <= k and k < n, (C[k][0][0], C[k][1][0]) in T and C[k][2] <= T[C[k][0][0], C[k][1][0]]))


@spec
def chain_entries(C, n, T, MC):
    return forall(lambda s, t: implies((s, t) in T, 0 <= MC[s, t] and MC[s, t] < n and ck0(C, MC[s, t]) == s and ck1(C, MC[s, t]) == t
                                       and T[s, t] == C[MC[s, t]][2]), sorts={"s": "str", "t": "str"})


@spec
def chain_covers(C, n, T):
    return forall(lambda k: implies(0 <= k and k < n, (ck0(C, k), ck1(C, k)) in T and C[k][2] <= T[ck0(C, k), ck1(C, k)]))


@spec
def keys_by_identity(C):
    """on the residues / atoms of the clash list, __eq__ is object identity (so dict keys / set members compared with == are
    the keys / members compared by identity, which is how the engine indexes them)"""
    return forall(lambda k, l: implies(0 <= k and k < len(C) and 0 <= l and l < len(C),
                                       res_eq(C[k][0][0], C[l][0][0]) == (C[k][0][0] is C[l][0][0])
                                       and res_eq(C[k][0][0], C[l][1][0]) == (C[k][0][0] is C[l][1][0])
                                       and res_eq(C[k][1][0], C[l][1][0]) == (C[k][1][0] is C[l][1][0])
                                       and atom_eq(C[k][0][1], C[l][0][1]) == (C[k][0][1] is C[l][0][1])
                                       and atom_eq(C[k][0][1], C[l][1][1]) == (C[k][0][1] is C[l][1][1])
                                       and atom_eq(C[k][1][1], C[l][1][1]) == (C[k][1][1] is C[l][1][1])))


@spec
def positive_sums(C):
    return forall(lambda k: implies(0 <= k and k < len(C), C[k][2] > 0.0))


@spec
def chain_keys_witnessed(C, n, CC, WC):
    """every chain pair of the nested table is the chain pair of clash WC[pair]"""
    return forall(lambda s, t: implies((s, t) in CC, 0 <= WC[s, t] and WC[s, t] < n and ck0(C, WC[s, t]) == s and ck1(C, WC[s, t]) == t),
                  sorts={"s": "str", "t": "str"})


@spec
def residue_keys_witnessed(C, n, CC, WP):
    """the p-th residue pair listed under a chain pair is a key of that inner table and the residue pair of clash WP[chain pair, p],
    a clash between these chains"""
    return forall(lambda s, t, p: implies((s, t) in CC and 0 <= p and p < len(CC[s, t]),
                                          0 <= WP[s, t, p] and WP[s, t, p] < n and ck0(C, WP[s, t, p]) == s and ck1(C, WP[s, t, p]) == t
                                          and C[WP[s, t, p]][0][0] is list(CC[s, t].keys())[p][0] and C[WP[s, t, p]][1][0] is list(CC[s, t].keys())[p][1]
                                          and list(CC[s, t].keys())[p] in CC[s, t]),
                  sorts={"s": "str", "t": "str"})


@spec
def atom_sets_witnessed(C, n, CC, WA):
    """every (atom, atom, occupancy sum) stored under a chain pair and a residue pair is clash WA[residue pair, triple] - a clash of
    exactly these atoms with this sum, between these residues"""
    return forall(lambda s, t, a, b, x, y, o: implies((s, t) in CC and (a, b) in CC[s, t] and (x, y, o) in CC[s, t][a, b],
                                                      0 <= WA[a, b, x, y, o] and WA[a, b, x, y, o] < n and C[WA[a, b, x, y, o]][0][1] is x and C[WA[a, b, x, y, o]][1][1] is y
                                                      and C[WA[a, b, x, y, o]][2] == o and C[WA[a, b, x, y, o]][0][0] is a and C[WA[a, b, x, y, o]][1][0] is b),
                  sorts={"s": "str", "t": "str", "a": "Residue3D", "b": "Residue3D", "x": "Atom", "y": "Atom", "o": "real"})


# pinned text of the report lines (the same format the bounded tool-report check parses)
@spec
def chain_line(s, t, m):
    return ite(s == t, "Clashes found in chain " + s + " with maximum occupancy sum equal to " + fstr(m),
               "Clashes found between chains " + s + " and " + t + " with maximum occupancy sum equal to " + fstr(m))


@spec
def residue_line(a, b, m):
    return ite(a == b, "    Clashes found in residue " + res_str(a) + " with maximum occupancy sum equal to " + fstr(m),
               "    Clashes found between residues " + res_str(a) + " and " + res_str(b) + " with maximum occupancy sum equal to " + fstr(m))


@spec
def atom_line(x, y, o):
    return "        Clashes found between atoms " + x.name + " and " + y.name + " with occupancy sum of " + fstr(o)


@spec
def line_ok(C, MR, MC, line, kind, k):
    """`line` is a report line of the given kind about clash k: 0 = the line of k's chain pair with the occupancy sum of clash
    MC[chain pair]; 1 = the line of k's residue pair with the sum of clash MR[residue pair]; 2 = the line of clash k itself"""
    return (0 <= k and k < len(C) and 0 <= kind and kind <= 2
            and implies(kind == 0, line == chain_line(ck0(C, k), ck1(C, k), C[MC[ck0(C, k), ck1(C, k)]][2]))
            and implies(kind == 1, line == residue_line(C[k][0][0], C[k][1][0], C[MR[C[k][0][0], C[k][1][0]]][2]))
            and implies(kind == 2, line == atom_line(C[k][0][1], C[k][1][1], C[k][2])))


@spec
def report_ok(C, MR, MC, OUT, LK, LC):
    """nothing but such lines is printed"""
    return (len(LK) == len(OUT) and len(LC) == len(OUT) and 0 <= len(OUT)
            and forall(lambda p: implies(0 <= p and p < len(OUT), line_ok(C, MR, MC, OUT[p], LK[p], LC[p]))))


@spec
def row_ok(C, row, k):
    """`row` is the CSV row of clash k: file stem, (metadata), 'residue atom' twice, occupancy sum"""
    return (0 <= k and k < len(C) and row[0] == path_root(path_basename(cli_input()))
            and row[3] == res_str(C[k][0][0]) + " " + C[k][0][1].name and row[4] == res_str(C[k][1][0]) + " " + C[k][1][1].name
            and row[5] == C[k][2])


@spec
def rows_ok(C, ROWS, RC):
    return len(RC) == len(ROWS) and 0 <= len(ROWS) and forall(lambda q: implies(0 <= q and q < len(ROWS), row_ok(C, ROWS[q], RC[q])))


CLASH = "list[tuple[tuple[Residue3D,Atom],tuple[Residue3D,Atom],real]]"
RKEY = "tuple[Residue3D,Residue3D]"
CKEY = "tuple[str,str]"
TRIPLE = "tuple[Atom,Atom,real]"
ROW = "tuple[str,str,str,str,str,real,opt[str]]"
CLI_OPTS = "cli_ignore_occupancy(), cli_ignore_autoclashes(), cli_require_same_atom_name(), cli_enable_molprobity_mode()"
REPORT = "report_ok(clashes, MR, MC, OUT, LK, LC)"
PUSH_LINE = "let OUT = push(OUT, last_printed)"


class main:
    params = {}
    requires = [
        "distinct_residues(parsed(cli_input()))",
        "stripped_names(parsed(cli_input()), cli_nucleic_acid_only())",
        "distinct_atoms(parsed(cli_input()))",
        "implies(cli_ignore_occupancy(), nonneg_occupancies(parsed(cli_input())))",
    ]
    # SystemExit: bad command line; OSError: files; ValueError: malformed input file; TypeError: unorderable atoms in sorted();
    # KeyError / IndexError: the metadata of the input file lack exptl.method / refine.ls_d_res_high (CSV only)
    raises = ["SystemExit", "OSError", "ValueError", "TypeError", "KeyError", "IndexError"]
    modifies = []
    locals = {"clashing_chains": f"dict[{CKEY},dict[{RKEY},set[{TRIPLE}]]]", "max_occupancy_residues": f"dict[{RKEY},real]",
              "max_occupancy_chains": f"dict[{CKEY},real]"}
    ghost_entry = ["let MR = empty_map2()", "let MC = empty_map_ss()", "let WC = empty_map_ss()", "let WP = empty_map_ssi()",
                   "let WA = empty_map_aar()", "let OUT = empty('list[str]')", "let LK = empty_ints()", "let LC = empty_ints()",
                   f"let ROWS = empty('list[{ROW}]')", "let RC = empty_ints()"]
    ensures = [
        # (3) the clash list is find_clashes' result for the residues of the input file and the command-line options
        "len(find_clashes_KI) == len(clashes) and forall(lambda k: implies(0 <= k and k < len(clashes), "
        "0 <= find_clashes_KI[k] and find_clashes_KI[k] < find_clashes_KJ[k] and find_clashes_KJ[k] < len(find_clashes_GA) "
        "and entry_is(clashes[k], parsed(cli_input()), find_clashes_GA, find_clashes_GP, find_clashes_KI[k], find_clashes_KJ[k]) "
        f"and clash(parsed(cli_input()), find_clashes_GA, find_clashes_GP, find_clashes_KI[k], find_clashes_KJ[k], {CLI_OPTS})))",
        f"forall(lambda t, u: implies(0 <= t and t < u and u < len(find_clashes_GA) and clash(parsed(cli_input()), find_clashes_GA, find_clashes_GP, t, u, {CLI_OPTS}), "
        "exists(lambda k: 0 <= k and k < len(clashes) and find_clashes_KI[k] == t and find_clashes_KJ[k] == u)))",
        "forall(lambda t: implies(0 <= t and t < len(find_clashes_GA), selpos(parsed(cli_input()), cli_nucleic_acid_only(), find_clashes_GA[t], find_clashes_GP[t])))",
        # (1), (2) the two tables of maxima
        "res_entries(clashes, len(clashes), max_occupancy_residues, MR)",
        "res_covers(clashes, len(clashes), max_occupancy_residues)",
        "chain_entries(clashes, len(clashes), max_occupancy_chains, MC)",
        "chain_covers(clashes, len(clashes), max_occupancy_chains)",
        # (4) the report
        REPORT,
        "rows_ok(clashes, ROWS, RC)",
    ]
    ensures_labels = {0: "clash-list-is-find_clashes-of-the-input-file-under-the-command-line-options",
                      1: "every-clash-under-the-command-line-options-is-in-the-list", 2: "atoms-considered-follow-nucleic-acid-only",
                      3: "residue-pair-entry-is-a-clash-of-the-pair", 4: "residue-pair-entry-is-the-maximum",
                      5: "chain-pair-entry-is-a-clash-of-the-pair", 6: "chain-pair-entry-is-the-maximum",
                      7: "every-printed-line-reports-a-clash-or-the-maximum-of-its-pair", 8: "every-csv-row-is-a-listed-clash"}
    TABLE_LABELS = {0: "residue-pair-entry-is-a-clash-of-the-pair", 1: "residue-pair-entry-is-the-maximum",
                    2: "chain-pair-entry-is-a-clash-of-the-pair", 3: "chain-pair-entry-is-the-maximum",
                    4: "chain-pairs-of-the-nested-table-have-a-clash", 5: "residue-pairs-of-the-nested-table-have-a-clash",
                    6: "atom-triples-of-the-nested-table-are-clashes"}
    loops = {
        0: {"index": "n", "inv": [
            "res_entries(clashes, n, max_occupancy_residues, MR)",
            "res_covers(clashes, n, max_occupancy_residues)",
            "chain_entries(clashes, n, max_occupancy_chains, MC)",
            "chain_covers(clashes, n, max_occupancy_chains)",
            "chain_keys_witnessed(clashes, n, clashing_chains, WC)",
            "residue_keys_witnessed(clashes, n, clashing_chains, WP)",
            "atom_sets_witnessed(clashes, n, clashing_chains, WA)",
        ], "labels": TABLE_LABELS},
        1: {"index": "c", "inv": [REPORT], "labels": {0: "report"}},
        2: {"index": "r", "inv": [REPORT], "labels": {0: "report"}},
        3: {"index": "a", "inv": [REPORT], "labels": {0: "report"}},
        4: {"index": "c", "inv": ["rows_ok(clashes, ROWS, RC)"], "labels": {0: "rows"}},
        5: {"index": "r", "inv": ["rows_ok(clashes, ROWS, RC)"], "labels": {0: "rows"}},
        6: {"index": "a", "inv": ["rows_ok(clashes, ROWS, RC)"], "labels": {0: "rows"}},
    }
    ghost = [
        {"when": "before", "at": "if clashes", "label": "clash-list",
         "do": ["assert positive_sums(clashes)",
                # dict keys / set members are compared with ==; the engine indexes them by identity: the same thing here
                "assert keys_by_identity(clashes)"]},
        {"when": "before", "at": "if chain_key not in clashing_chains", "label": "chain-witness",
         "do": ["let WC = ite(chain_key in clashing_chains, WC, put(WC, chain_key, n))"]},
        {"when": "after", "at": "if chain_key not in clashing_chains", "label": "new-chain-pair-has-no-entries",
         "do": ["assert atom_sets_witnessed(clashes, n, clashing_chains, WA)"]},
        {"when": "after", "at": "if residue_key not in clashing_chains[chain_key]", "label": "new-residue-pair-has-no-entries",
         "do": ["assert atom_sets_witnessed(clashes, n, clashing_chains, WA)"]},
        {"when": "before", "at": "clashing_chains[chain_key][residue_key] = set()", "label": "residue-witness",
         "do": ["let WP = put(WP, (chain_key[0], chain_key[1], len(clashing_chains[chain_key])), n)"]},
        {"when": "before", "at": "clashing_chains[chain_key][residue_key].add(", "label": "atom-witness",
         "do": ["let WA = put(WA, (ri, rj, ai, aj, occupancy), n)"]},
        {"when": "before", "at": "max_occupancy_residues[ri, rj] =", "label": "residue-argmax",
         "do": ["let MR = ite((ri, rj) not in max_occupancy_residues or occupancy > max_occupancy_residues[ri, rj], put(MR, (ri, rj), n), MR)"]},
        {"when": "before", "at": "max_occupancy_chains[ri.chain, rj.chain] =", "label": "chain-argmax",
         "do": ["let MC = ite((ri.chain, rj.chain) not in max_occupancy_chains or occupancy > max_occupancy_chains[ri.chain, rj.chain], put(MC, (ri.chain, rj.chain), n), MC)"]},
        {"when": "before", "at": "if ci == cj", "label": "chain-pair-of-the-line",
         "do": ["let kc = WC[ci, cj]",
                "assert (ci, cj) in clashing_chains",
                "assert 0 <= kc and kc < len(clashes) and ck0(clashes, kc) == ci and ck1(clashes, kc) == cj",
                "assert (ck0(clashes, kc), ck1(clashes, kc)) in max_occupancy_chains",
                "assert (ci, cj) in max_occupancy_chains",
                "assert max_occupancy_chains[ci, cj] == clashes[MC[ci, cj]][2]"]},
        {"when": "before", "at": "if ri == rj", "label": "residue-pair-of-the-line",
         "do": ["let kr = WP[ci, cj, r]",
                "assert 0 <= kr and kr < len(clashes) and clashes[kr][0][0] is ri and clashes[kr][1][0] is rj",
                "assert (clashes[kr][0][0], clashes[kr][1][0]) in max_occupancy_residues",
                "assert (ri, rj) in max_occupancy_residues",
                "assert max_occupancy_residues[ri, rj] == clashes[MR[ri, rj]][2]"]},
        {"when": "before", "at": "print(f'        Clashes found between atoms", "label": "clash-of-the-line",
         "do": ["let ka = WA[ri, rj, ai, aj, occupancy]",
                "assert 0 <= ka and ka < len(clashes) and clashes[ka][0][1] is ai and clashes[ka][1][1] is aj and clashes[ka][2] == occupancy"]},
        {"when": "after", "at": "print(f'Clashes found in chain", "label": "chain-line",
         "do": ["assert line_ok(clashes, MR, MC, last_printed, 0, kc)", PUSH_LINE, "let LK = push(LK, 0)", "let LC = push(LC, kc)"]},
        {"when": "after", "at": "print(f'Clashes found between chains", "label": "chain-line",
         "do": ["assert line_ok(clashes, MR, MC, last_printed, 0, kc)", PUSH_LINE, "let LK = push(LK, 0)", "let LC = push(LC, kc)"]},
        {"when": "after", "at": "print(f'    Clashes found in residue", "label": "residue-line",
         "do": ["assert line_ok(clashes, MR, MC, last_printed, 1, kr)", PUSH_LINE, "let LK = push(LK, 1)", "let LC = push(LC, kr)"]},
        {"when": "after", "at": "print(f'    Clashes found between residues", "label": "residue-line",
         "do": ["assert line_ok(clashes, MR, MC, last_printed, 1, kr)", PUSH_LINE, "let LK = push(LK, 1)", "let LC = push(LC, kr)"]},
        {"when": "after", "at": "print(f'        Clashes found between atoms", "label": "atom-line",
         "do": ["assert line_ok(clashes, MR, MC, last_printed, 2, ka)", PUSH_LINE, "let LK = push(LK, 2)", "let LC = push(LC, ka)"]},
        {"when": "after", "at": "writer.writerow([f'{os.path", "label": "csv-row",
         "do": ["assert row_ok(clashes, last_row, WA[ri, rj, ai, aj, occupancy])", "let ROWS = push(ROWS, last_row)", "let RC = push(RC, WA[ri, rj, ai, aj, occupancy])"]},
    ]


CONTRACTS = {"find_clashes": find_clashes, "main": main}
