"""Sidecar contracts for the 3D -> 2D mapping of rnapolis/tertiary.py (C06): Mapping2D3D.__generate_bpseq,
_generated_bpseq_data (conflict resolution), base_pairs (lifting), BasePair3D.reverse, Structure3D.find_residue.

Modelling decisions (each one is listed in props/C06.py ASSUMPTIONS/TRUSTED)
  * Residue3D, Residue, ResidueLabel, ResidueAuth are frozen dataclasses (immutable values).  They are modelled as
    *interned values*: a reference whose identity stands for the value (two references are `==` iff they have the same
    identity; every attribute is a function of the identity).  The real classes compare field-wise (dataclass __eq__ over
    label, auth, model, one_letter_name, atoms for Residue3D; Residue3D.__hash__ = hash((model, label, auth)) is consistent
    with it), which is an equivalence on values - the identity is the equivalence class.  The converse direction
    "equal fields => same identity" is NOT assumed (unmodelled fields such as `atoms` may differ), so the model only admits
    more structures than Python does.  The code under contract never uses `is` on these values.
  * Residue.chain / Residue.number (properties reading auth/label) and Residue3D.is_nucleotide (cached_property) are
    pure functions of the frozen value: modelled as attributes of the interned value.  `number` is an int and `chain` a str
    (assumption: every residue has a label or an auth, i.e. number/chain are not None - true for everything the readers
    build).
  * Residue3D.is_connected(other): assumed contract "pure": an uninterpreted boolean function of the two residues.
  * BasePair3D / BasePair are frozen dataclasses with dataclass-generated field-wise __eq__/__hash__: immutable records
    (a set/dict keyed by them uses exactly the field tuple).
  * The BPSEQ rows `[i, name, 0]` are 3-element lists stored in a dict and updated in place through `result[j][2] = k`;
    every row is created by its own list display and never aliased, so value semantics with write-back through the access
    path is exact (engine: VHList).
"""


def spec(f):
    return f


CLASSES = {
    # interned immutable values (see the module docstring)
    "ResidueLabel": {"kind": "object", "frozen": True, "fields": {}},
    "ResidueAuth": {"kind": "object", "frozen": True, "fields": {}},
    "Residue": {"kind": "object", "frozen": True, "lt": "res_lt",
                "fields": {"label": "opt[ResidueLabel]", "auth": "opt[ResidueAuth]", "chain": "str", "number": "int", "icode": "opt[str]"}},
    # Enum members are singletons; LeontisWesthof.reverse (a property defined in common.py) is a pure function of the member:
    # an attribute of the interned value (its concrete table is not needed by anything proved here)
    "LeontisWesthof": {"kind": "object", "frozen": True, "fields": {"reverse": "LeontisWesthof"}},
    "Residue3D": {"kind": "object", "frozen": True,
                  "fields": {"chain": "str", "number": "int", "one_letter_name": "str", "is_nucleotide": "bool"}},
    # residue_map: Dict[Union[ResidueLabel, ResidueAuth], Residue3D]; a label never equals an auth (different dataclasses),
    # so one identity space serves both kinds of key
    "Structure3D": {"kind": "object", "fields": {"residues": "list[Residue3D]", "residue_map": "dict[ResidueLabel,Residue3D]"}},
    # base_pairs_value: model field = the value of the cached_property Mapping2D3D.base_pairs (see class base_pairs_callee)
    "Mapping2D3D": {"kind": "object", "fields": {"structure3d": "Structure3D", "base_pairs2d": "list[rec[BasePair]]", "find_gaps": "bool",
                                                 "base_pairs_value": "list[rec[BasePair3D]]"}},
    "Entry": {"kind": "object", "fields": {"index_": "int", "sequence": "str", "pair": "int"}},
    # BpSeq.pairs is derived by __post_init__ (common.py, outside this module) and is not modelled: unconstrained
    "BpSeq": {"kind": "object", "fields": {"entries": "list[Entry]"}},
    # frozen dataclasses with generated field-wise __eq__/__hash__: records.  `saenger` (Optional[Saenger]) is only copied and
    # compared by the code under contract, never inspected (is_canonical is abstracted, the sort key is not evaluated):
    # an opaque scalar code (None is one of the codes)
    "BasePair": {"kind": "record", "fields": {"nt1": "Residue", "nt2": "Residue", "lw": "LeontisWesthof", "saenger": "int"}},
    "BasePair3D": {"kind": "record", "fields": {"nt1": "Residue", "nt2": "Residue", "lw": "LeontisWesthof", "saenger": "int",
                                                "nt1_3d": "Residue3D", "nt2_3d": "Residue3D"}},
}

INLINE = ["Structure3D.find_residue"]
PRUNE_BRANCHES = False
STABLE_BINDERS = True  # a callee postcondition re-exported unchanged by its caller is the identical term (see engine._quant)
# BasePair3D.is_canonical (cached_property of a frozen dataclass; reads saenger / lw / the two one-letter names): ASSUMED to be
# a pure function of the record value - nothing else about it is used (the property speaks of "the canonical input pairs")
PURE_ATTRS = {"BasePair3D.is_canonical": "bool"}


def _defaultdict(e, args, kw, node, st):
    """collections.defaultdict(factory) for factory in {set, list, int}: an empty dict whose missing-key read inserts
    factory() (the engine's defaultdict semantics; the factory's value is the engine's default of the declared value shape)"""
    from pyvc.engine import VEmptyDict
    from pyvc.values import VFunc, Unsupported
    f = args[0] if args else None
    if not (isinstance(f, VFunc) and f.kind == "builtin" and f.payload in ("set", "list", "int")) or len(args) != 1 or kw:
        raise Unsupported("defaultdict with this factory")
    return VEmptyDict(default=f.payload)


def _sorted_set(e, args, kw, node, st):
    """ASSUMED contract of sorted(S, key=f) for a set S: a list holding exactly the members of S, each once (a permutation of
    the set).  The ordering clause (non-decreasing in the key) is deliberately NOT assumed: the result is an arbitrary
    permutation, which over-approximates sorted(); assumes the key function raises nothing."""
    from pyvc.values import VSet, Unsupported
    if len(args) != 1 or not isinstance(args[0], VSet) or set(kw) - {"key"}:
        raise Unsupported("sorted() of this value")
    return e.set_enumeration(args[0], st)


EXTERNALS = {"collections.defaultdict": _defaultdict, "builtins.sorted": _sorted_set}

UFUNS = {
    "connected": (["int", "int"], "bool"),  # Residue3D.is_connected(a, b) as a pure function of the two residues
    "res_lt": (["int", "int"], "bool"),     # Residue.__lt__(a, b) (common.py; compares (chain, number, icode or " ")): pure
}


# ------------------------------------------------------------------------------------------------ vocabulary
@spec
def gapcount(m, a, b):
    """number of '?' placeholders between consecutive nucleotides a, b (property: where gap detection fires)"""
    return ite(m.find_gaps and (not connected(a, b)) and a.chain == b.chain,
               ite(b.number - a.number - 1 > 0, b.number - a.number - 1, 0), 0)


@spec
def distinct_nucleotides(R):
    return forall(lambda p, q: implies(0 <= p and p < q and q < len(R) and R[p].is_nucleotide and R[q].is_nucleotide,
                                       R[p] != R[q]))


@spec
def matching(P):
    """no residue occurs in two entries of the pair list, no entry pairs a residue with itself"""
    return (forall(lambda a: implies(0 <= a and a < len(P), P[a].nt1_3d != P[a].nt2_3d))
            and forall(lambda a, b: implies(0 <= a and a < b and b < len(P),
                                            P[a].nt1_3d != P[b].nt1_3d and P[a].nt1_3d != P[b].nt2_3d
                                            and P[a].nt2_3d != P[b].nt1_3d and P[a].nt2_3d != P[b].nt2_3d)))


@spec
def valid(E):
    """valid BPSEQ: index_ == position, pair in range, not self, symmetric"""
    return (forall(lambda i: implies(0 <= i and i < len(E),
                                     E[i].index_ == i + 1 and 0 <= E[i].pair and E[i].pair <= len(E) and E[i].pair != i + 1))
            # symmetry E[E[i].pair - 1].pair == i + 1, written with a second variable j = E[i].pair - 1 so that instantiating
            # the clause creates no new E[..].pair term
            and forall(lambda i, j: implies(0 <= i and i < len(E) and E[i].pair > 0 and j == E[i].pair - 1, E[j].pair == i + 1),
                       pats=[["E[i].pair", "E[j].pair"]]))


@spec
def rows_dom(RES, i):
    """the rows dict has exactly the keys 1..i-1, inserted in that order"""
    return (i >= 1 and len(RES) == i - 1
            and forall(lambda x: (x in RES) == (1 <= x and x < i))
            and forall(lambda x: implies(0 <= x and x < i - 1, list(RES.keys())[x] == x + 1)))


@spec
def rows_fresh(RES, i):
    return forall(lambda x: implies(1 <= x and x < i, RES[x][0] == x and RES[x][2] == 0))


@spec
def maps_inverse(RM, IM, i):
    """residue_map and index_to_residue_map are inverse bijections onto a subset of 1..i-1"""
    return (forall(lambda r: implies(ref(Residue3D, r) in RM,
                                     1 <= RM[ref(Residue3D, r)] and RM[ref(Residue3D, r)] < i and RM[ref(Residue3D, r)] in IM
                                     and ident(IM[RM[ref(Residue3D, r)]]) == r))
            and forall(lambda x: implies(x in IM, 1 <= x and x < i and IM[x] in RM and RM[IM[x]] == x)))


@spec
def nucs_mapped(NU, c, RM):
    """the first c nucleotides are mapped, strictly increasing"""
    return (forall(lambda k: implies(0 <= k and k < c, NU[k] in RM))
            and forall(lambda k1, k2: implies(0 <= k1 and k1 < k2 and k2 < c, RM[NU[k1]] < RM[NU[k2]])))


@spec
def nucs_onto(NU, c, IM):
    return forall(lambda x: implies(x in IM, exists(lambda k: 0 <= k and k < c and NU[k] == IM[x])))


@spec
def nucs_spacing(m, NU, c, RM, i):
    """first nucleotide at 1, consecutive nucleotides separated by exactly gapcount placeholders, i is the next index"""
    return (implies(c == 0, i == 1) and implies(c >= 1, RM[NU[0]] == 1 and i == RM[NU[c - 1]] + 1)
            and forall(lambda a, b: implies(0 <= a and b == a + 1 and b < c, RM[NU[b]] == RM[NU[a]] + 1 + gapcount(m, NU[a], NU[b])),
                       pats=[["ident(NU[a])", "ident(NU[b])"]]))


@spec
def between(NU, RM, IM):
    """(consequence of monotonicity, with the witness spelled out) non-adjacent nucleotides have a numbered one between them"""
    return forall(lambda a, b: implies(0 <= a and a + 1 < b and b < len(NU),
                                       NU[a + 1] in RM and RM[NU[a + 1]] in IM
                                       and RM[NU[a]] < RM[NU[a + 1]] and RM[NU[a + 1]] < RM[NU[b]]),
                  pats=[["ident(NU[a])", "ident(NU[b])"]])


@spec
def rows_names(RES, IM, i):
    return (forall(lambda x: implies(1 <= x and x < i and x in IM, RES[x][1] == IM[x].one_letter_name))
            and forall(lambda x: implies(1 <= x and x < i and not (x in IM), RES[x][1] == "?")))


@spec
def filtered(NU, SRC, R):
    """NU is the subsequence of the nucleotide residues of R, SRC its (strictly increasing) index map"""
    return (len(SRC) == len(NU) and 0 <= len(NU) and len(NU) <= len(R)
            and forall(lambda k: implies(0 <= k and k < len(NU),
                                         0 <= SRC[k] and SRC[k] < len(R) and NU[k] == R[SRC[k]] and NU[k].is_nucleotide))
            and forall(lambda k1, k2: implies(0 <= k1 and k1 < k2 and k2 < len(NU), SRC[k1] < SRC[k2]))
            and forall(lambda p: implies(0 <= p and p < len(R) and R[p].is_nucleotide,
                                         exists(lambda k: 0 <= k and k < len(NU) and SRC[k] == p))))


@spec
def linked(P, a, u, v):
    """entry a of the pair list joins residues u and v (in either orientation)"""
    return (P[a].nt1_3d == u and P[a].nt2_3d == v) or (P[a].nt2_3d == u and P[a].nt1_3d == v)


@spec
def pairing_ok(RES, i):
    return (forall(lambda x: implies(1 <= x and x < i,
                                    0 <= RES[x][2] and RES[x][2] < i and RES[x][2] != x))
            and forall(lambda x, y: implies(1 <= x and x < i and y == RES[x][2] and y != 0, RES[y][2] == x),
                       pats=[["RES[x][2]", "RES[y][2]"]]))


@spec
def pairing_from(RES, IM, P, c, i):
    """every pairing comes from one of the first c entries of the pair list"""
    return forall(lambda x: implies(1 <= x and x < i and RES[x][2] != 0,
                                    x in IM and RES[x][2] in IM
                                    and exists(lambda a: 0 <= a and a < c and linked(P, a, IM[x], IM[RES[x][2]]))))


@spec
def pairing_keeps(RES, IM, P, c):
    """every one of the first c entries whose residues are both numbered is present"""
    return forall(lambda a, x, y: implies(0 <= a and a < c and x in IM and y in IM
                                          and IM[x] == P[a].nt1_3d and IM[y] == P[a].nt2_3d,
                                          RES[x][2] == y and RES[y][2] == x),
                  pats=[["ident(IM[x])", "ident(IM[y])", "ident(P[a].nt1_3d)"]])


# ------------------------------------------------------------------------------------------------ callee contract
class is_connected:
    """ASSUMED (never a verify target): Residue3D.is_connected is a pure boolean function of the two residues
    (it reads atom coordinates of the two frozen values through numpy)."""
    target = "Residue3D.is_connected"
    params = {"self": "Residue3D", "next_residue_candidate": "Residue3D"}
    requires = []
    returns = "bool"
    ensures = ["result == connected(self, next_residue_candidate)"]
    raises = []
    modifies = []


# ------------------------------------------------------------------------------------------------ target 1
_R = "self.structure3d.residues"
_E = "result[0].entries"
_M = "result[1]"


class generate_bpseq:
    target = "Mapping2D3D.__generate_bpseq"
    params = {"self": "Mapping2D3D", "base_pairs": "list[rec[BasePair3D]]"}
    requires = [f"distinct_nucleotides({_R})",   # structure: nucleotide residues are pairwise different values (dict keys)
                "matching(base_pairs)"]         # helper precondition, proved at the call sites
    returns = "tuple[BpSeq,dict[int,Residue3D]]"
    raises = []
    modifies = []
    locals = {"result": "dict[int,hlist[int,str,int]]", "residue_map": "dict[Residue3D,int]",
              "index_to_residue_map": "dict[int,Residue3D]"}
    ensures = [
        # "numbers ... 1..N": entry at position i carries index i+1
        f"forall(lambda i: implies(0 <= i and i < len({_E}), {_E}[i].index_ == i + 1))",
        # "pairs symmetrically, gives each nucleotide at most one partner": a valid BPSEQ
        f"valid({_E})",
        # the index map covers only 1..N; "... the nucleotides with their one-letter names, '?' placeholders" otherwise
        f"forall(lambda x: implies(x in {_M}, 1 <= x and x <= len({_E})))",
        f"forall(lambda x: implies(1 <= x and x <= len({_E}), {_E}[x - 1].sequence == ite(x in {_M}, {_M}[x].one_letter_name, '?')))",
        f"forall(lambda x: implies(1 <= x and x <= len({_E}) and not (x in {_M}), {_E}[x - 1].pair == 0))",
        # numbered entries are nucleotide residues of the structure; every nucleotide residue is numbered, once
        f"forall(lambda x: implies(x in {_M}, exists(lambda p: 0 <= p and p < len({_R}) and {_R}[p] == {_M}[x] and {_R}[p].is_nucleotide)))",
        f"forall(lambda p: implies(0 <= p and p < len({_R}) and {_R}[p].is_nucleotide, exists(lambda x: x in {_M} and {_M}[x] == {_R}[p])))",
        f"forall(lambda x, y: implies(x in {_M} and y in {_M} and x != y, {_M}[x] != {_M}[y]))",
        # "in file order"
        f"forall(lambda x, y: implies(x in {_M} and y in {_M} and x < y, exists(lambda p, q: 0 <= p and p < q and q < len({_R})"
        f" and {_R}[p] == {_M}[x] and {_R}[q] == {_M}[y])))",
        # "plus '?' placeholders where gap detection finds missing residues": exactly gapcount between neighbours
        # (trigger: the is_connected term of the two residues - used as a hypothesis the clause does not cascade)
        f"forall(lambda x, y: implies(x in {_M} and y in {_M} and x < y and forall(lambda z: implies(x < z and z < y, not (z in {_M})), pats=['z in {_M}']),"
        f" y - x - 1 == gapcount(self, {_M}[x], {_M}[y])), pats=['connected({_M}[x], {_M}[y])'])",
        # no placeholder before the first / after the last nucleotide: a non-empty BPSEQ starts and ends with a numbered residue
        f"implies(len({_E}) >= 1, 1 in {_M} and len({_E}) in {_M})",
        # "takes every pair from the ... input pairs": each pairing joins the residues of some entry of the list
        f"forall(lambda x: implies(1 <= x and x <= len({_E}) and {_E}[x - 1].pair != 0, x in {_M} and {_E}[x - 1].pair in {_M}"
        f" and exists(lambda a: 0 <= a and a < len(base_pairs) and linked(base_pairs, a, {_M}[x], {_M}[{_E}[x - 1].pair]))))",
        # "keeps every ... pair": each entry of the list whose residues are both numbered is present
        f"forall(lambda a, x, y: implies(0 <= a and a < len(base_pairs) and x in {_M} and y in {_M}"
        f" and {_M}[x] == base_pairs[a].nt1_3d and {_M}[y] == base_pairs[a].nt2_3d,"
        f" {_E}[x - 1].pair == y and {_E}[y - 1].pair == x))",
        "fresh(result[0])",
    ]
    ensures_labels = {0: "numbered-1..N", 1: "valid-symmetric-matching", 2: "index-map-in-range", 3: "names-and-placeholders",
                      4: "placeholders-unpaired", 5: "numbered-are-nucleotides", 6: "every-nucleotide-numbered",
                      7: "each-nucleotide-once", 8: "file-order", 9: "gap-placeholder-count", 10: "starts-and-ends-numbered",
                      11: "pairs-from-the-list", 12: "keeps-every-numbered-pair", 13: "fresh-bpseq"}
    _inv_rows = ["rows_dom(result, i)"]
    _inv_maps = ["maps_inverse(residue_map, index_to_residue_map, i)"]
    loops = {
        # for j, residue in enumerate(nucleotides)
        0: {"index": "c0",
            "inv": ["rows_dom(result, i)", "rows_fresh(result, i)",
                    "maps_inverse(residue_map, index_to_residue_map, i)",
                    "nucs_mapped(nucleotides, c0, residue_map)",
                    "nucs_onto(nucleotides, c0, index_to_residue_map)",
                    "nucs_spacing(self, nucleotides, c0, residue_map, i)",
                    "rows_names(result, index_to_residue_map, i)"]},
        # for k in range(residue.number - previous.number - 1)
        1: {"inv": ["i == i0 + k", "rows_dom(result, i)", "rows_fresh(result, i)",
                    "rows_names(result, index_to_residue_map, i)"]},
        # for base_pair in base_pairs
        2: {"index": "c2",
            "inv": ["rows_dom(result, i)",
                    "forall(lambda x: implies(1 <= x and x < i, result[x][0] == x))",
                    "rows_names(result, index_to_residue_map, i)",
                    "pairing_ok(result, i)",
                    "pairing_from(result, index_to_residue_map, base_pairs, c2, i)",
                    "pairing_keeps(result, index_to_residue_map, base_pairs, c2)"]},
    }
    ghost = [
        {"when": "after", "at": "nucleotides = list(filter(", "label": "filter",
         "do": ["let SRC = last_filter_index()",
                f"assert filtered(nucleotides, SRC, {_R})",
                "assert forall(lambda a, b: implies(0 <= a and a < b and b < len(nucleotides), nucleotides[a] != nucleotides[b]))"]},
        {"when": "before", "at": "for k in range(", "label": "gap-start", "do": ["let i0 = i"]},
        {"when": "before", "at": "result[j][2] = k", "label": "both-free",
         "do": ["assert j in index_to_residue_map and k in index_to_residue_map and index_to_residue_map[j] == base_pair.nt1_3d"
                " and index_to_residue_map[k] == base_pair.nt2_3d and j != k and 1 <= j and j < i and 1 <= k and k < i",
                "assert result[j][2] == 0 and result[k][2] == 0"]},
        {"when": "before", "at": "return (BpSeq(", "label": "between",
         "do": ["assert between(nucleotides, residue_map, index_to_residue_map)"]},
    ]


# ------------------------------------------------------------------------------------------------ target 2
@spec
def touches(x, r):
    return x.nt1_3d == r or x.nt2_3d == r


@spec
def shares(x, y):
    """the two pairs have a residue in common"""
    return touches(y, x.nt1_3d) or touches(y, x.nt2_3d)


@spec
def canon(x):
    """the code's canonical filter: canonical and in 5'->3' orientation (every pair is present in both orientations)"""
    return x.is_canonical and x.nt1 < x.nt2


@spec
def subset_of(C, C0):
    return forall(lambda b: implies(0 <= b and b < len(C), exists(lambda a: 0 <= a and a < len(C0) and C0[a] == C[b])))


@spec
def distinct(C):
    return forall(lambda a, b: implies(0 <= a and a < b and b < len(C), C[a] != C[b]))


@spec
def no_self(C):
    return forall(lambda a: implies(0 <= a and a < len(C), C[a].nt1_3d != C[a].nt2_3d))


@spec
def same_ends(x, y):
    """the two entries join the same two residues (in either orientation)"""
    return (x.nt1_3d == y.nt1_3d and x.nt2_3d == y.nt2_3d) or (x.nt1_3d == y.nt2_3d and x.nt2_3d == y.nt1_3d)


@spec
def conflict(x, y):
    """the two entries compete for a residue: one in common, but not the same two residues"""
    return shares(x, y) and not same_ends(x, y)


@spec
def removed_conflicted(C, C0):
    """for every pair of C0: an entry joining its two residues is still in C, or it has a competitor in C0"""
    return forall(lambda a: implies(0 <= a and a < len(C0),
                                    exists(lambda b: 0 <= b and b < len(C) and same_ends(C[b], C0[a]))
                                    or exists(lambda a2: 0 <= a2 and a2 < len(C0) and conflict(C0[a], C0[a2]))))


@spec
def filtered_in(C0, SRC, BP):
    """C0 is a subsequence of canonical pairs of BP, SRC its strictly increasing index map"""
    return (len(SRC) == len(C0) and 0 <= len(C0) and len(C0) <= len(BP)
            and forall(lambda k: implies(0 <= k and k < len(C0), 0 <= SRC[k] and SRC[k] < len(BP) and C0[k] == BP[SRC[k]] and C0[k].is_canonical))
            and forall(lambda k1, k2: implies(0 <= k1 and k1 < k2 and k2 < len(C0), SRC[k1] < SRC[k2])))


@spec
def filtered_all(C0, SRC, BP):
    """... and holds every canonical pair of BP that is given in 5'->3' orientation"""
    return forall(lambda p: implies(0 <= p and p < len(BP) and canon(BP[p]), exists(lambda k: 0 <= k and k < len(C0) and SRC[k] == p)))


@spec
def keys_ok(D):
    """insertion-order list of a dict = exactly its keys"""
    return (len(D) >= 0
            and forall(lambda t: implies(0 <= t and t < len(D), list(D.keys())[t] in D))
            and forall(lambda r: implies(ref(Residue3D, r) in D, exists(lambda t: 0 <= t and t < len(D) and ident(list(D.keys())[t]) == r))))


@spec
def matches_has(MT, C, c):
    """the first c pairs are registered under both of their residues"""
    return forall(lambda b: implies(0 <= b and b < c,
                                    C[b].nt1_3d in MT and C[b] in MT[C[b].nt1_3d] and C[b].nt2_3d in MT and C[b] in MT[C[b].nt2_3d]),
                  pats=["ident(C[b].nt1_3d)", "ident(C[b].nt2_3d)"])


@spec
def matches_only(MT, C, c):
    """whatever is registered under a residue is one of the first c pairs and touches that residue"""
    return forall(lambda r, n1, n2, lw, sg, u, v: implies(
        ref(Residue3D, r) in MT
        and rec(BasePair3D, nt1=n1, nt2=n2, lw=lw, saenger=sg, nt1_3d=u, nt2_3d=v) in MT[ref(Residue3D, r)],
        (u == r or v == r)
        and exists(lambda q: 0 <= q and q < c and C[q] == rec(BasePair3D, nt1=n1, nt2=n2, lw=lw, saenger=sg, nt1_3d=u, nt2_3d=v))),
)


@spec
def no_conflict_upto(MT, C, c):
    """none of the first c keys of MT is touched by two different positions of C"""
    return forall(lambda t, a, b: implies(0 <= t and t < c and 0 <= a and a < b and b < len(C),
                                          not (touches(C[a], list(MT.keys())[t]) and touches(C[b], list(MT.keys())[t]))))


class base_pairs_callee:
    """Contract of the cached_property Mapping2D3D.base_pairs as seen by its callers.  The clauses about `result` are
    proved against the body under the name Mapping2D3D.base_pairs@body; the clause `result == self.base_pairs_value`
    is the ASSUMED cached_property rule: the property is a deterministic function of the (unchanged) object, its value is
    the model field base_pairs_value."""
    target = "Mapping2D3D.base_pairs"
    params = {"self": "Mapping2D3D"}
    requires = []
    returns = "list[rec[BasePair3D]]"
    # (only the clauses a caller under contract needs; the lifting clauses proved for the body are not repeated here)
    ensures = ["result == self.base_pairs_value", "distinct(result)",
               "implies(no_self_pairs(self), no_self(result))"]
    raises = []
    modifies = []


@spec
def found(m, r):
    """the 3D residue an interaction partner resolves to (the real Structure3D.find_residue, evaluated in place)"""
    return m.structure3d.find_residue(r.label, r.auth)


@spec
def no_self_pairs(m):
    """input assumption: no entry of the pair list joins a residue with itself"""
    return forall(lambda t: implies(0 <= t and t < len(m.base_pairs2d)
                                    and not is_none(found(m, m.base_pairs2d[t].nt1)) and not is_none(found(m, m.base_pairs2d[t].nt2)),
                                    found(m, m.base_pairs2d[t].nt1) != found(m, m.base_pairs2d[t].nt2)))


# ------------------------------------------------------------------------------------------------ target 3
class find_residue_body:
    """Structure3D.find_residue stays INLINE at its call sites and inside `found`; this contract pins what it must compute:
    the residue registered under the label if there is one, else the one registered under the auth identifier, else None"""
    target = "Structure3D.find_residue"
    params = {"self": "Structure3D", "label": "opt[ResidueLabel]", "auth": "opt[ResidueAuth]"}
    requires = []
    returns = "opt[Residue3D]"
    ensures = ["implies(label in self.residue_map, result == self.residue_map.get(label))",
               "implies(not (label in self.residue_map) and auth in self.residue_map, result == self.residue_map.get(auth))",
               "implies(not (label in self.residue_map) and not (auth in self.residue_map), is_none(result))",
               "implies(not is_none(result), exists(lambda r: ref(ResidueLabel, r) in self.residue_map and self.residue_map[ref(ResidueLabel, r)] == result))"]
    ensures_labels = {0: "label-first", 1: "then-auth", 2: "else-None", 3: "result-is-registered"}
    raises = []
    modifies = []


class reverse:
    """BasePair3D.reverse (cached_property): the same interaction read from the other residue"""
    target = "BasePair3D.reverse"
    params = {"self": "rec[BasePair3D]"}
    requires = []
    returns = "rec[BasePair3D]"
    ensures = ["result.nt1 == self.nt2 and result.nt2 == self.nt1 and result.nt1_3d == self.nt2_3d and result.nt2_3d == self.nt1_3d",
               "result.lw == self.lw.reverse", "result.saenger == self.saenger"]
    ensures_labels = {0: "residues-swapped", 1: "class-reversed", 2: "saenger-kept"}
    raises = []
    modifies = []


@spec
def resolvable(m, b):
    return not is_none(found(m, b.nt1)) and not is_none(found(m, b.nt2))


@spec
def is_lift(m, x, b):
    """x is the 3D lifting of the input entry b"""
    return (x.nt1 == b.nt1 and x.nt2 == b.nt2 and x.lw == b.lw and x.saenger == b.saenger
            and found(m, b.nt1) == x.nt1_3d and found(m, b.nt2) == x.nt2_3d)


@spec
def is_rev_lift(m, x, b):
    """x is the reverse of the 3D lifting of the input entry b"""
    return (x.nt1 == b.nt2 and x.nt2 == b.nt1 and x.lw == b.lw.reverse and x.saenger == b.saenger
            and found(m, b.nt2) == x.nt1_3d and found(m, b.nt1) == x.nt2_3d)


@spec
def lifted_from(m, L, c):
    """every element of L is the lifting, or the reversed lifting, of one of the first c input entries (both residues found)"""
    return forall(lambda k: implies(0 <= k and k < len(L),
                                    exists(lambda t: 0 <= t and t < c and resolvable(m, m.base_pairs2d[t])
                                           and (is_lift(m, L[k], m.base_pairs2d[t]) or is_rev_lift(m, L[k], m.base_pairs2d[t])))))


@spec
def lifts_all(m, L, c):
    """each of the first c input entries with both residues found has its lifting and the reverse of it in L"""
    return forall(lambda t: implies(0 <= t and t < c and resolvable(m, m.base_pairs2d[t]),
                                    exists(lambda k: 0 <= k and k < len(L) and is_lift(m, L[k], m.base_pairs2d[t]))
                                    and exists(lambda k: 0 <= k and k < len(L) and is_rev_lift(m, L[k], m.base_pairs2d[t]))))


@spec
def comes_from(m, x, b):
    return resolvable(m, b) and (is_lift(m, x, b) or is_rev_lift(m, x, b))


@spec
def first_occurrence_order(m, L, c):
    """(NOT among the proved clauses: discharged only unstably, 1-20 s) the elements of L are ordered by the input entry that
    first produces them: whichever entry produces a later element, an entry at or before it produces the earlier element"""
    return forall(lambda k, k2, t2: implies(0 <= k and k < k2 and k2 < len(L) and 0 <= t2 and t2 < c and comes_from(m, L[k2], m.base_pairs2d[t2]),
                                            exists(lambda t: 0 <= t and t <= t2 and comes_from(m, L[k], m.base_pairs2d[t]))))


@spec
def used_has(U, L):
    """every element of the list L is in the set U"""
    return forall(lambda k: implies(0 <= k and k < len(L), L[k] in U))


@spec
def extends(L, L0):
    """L starts with the elements of L0 (stated so that a term L0[k] brings L[k] into play)"""
    return len(L) >= len(L0) and forall(lambda k: implies(0 <= k and k < len(L0), L[k] == L0[k]), pats=["ident(L0[k].nt1_3d)"])


@spec
def added(U, U0, x):
    """U is U0 plus at most the element x"""
    return forall(lambda n1, n2, lw, sg, u, v: implies(
        rec(BasePair3D, nt1=n1, nt2=n2, lw=lw, saenger=sg, nt1_3d=u, nt2_3d=v) in U,
        rec(BasePair3D, nt1=n1, nt2=n2, lw=lw, saenger=sg, nt1_3d=u, nt2_3d=v) == x
        or rec(BasePair3D, nt1=n1, nt2=n2, lw=lw, saenger=sg, nt1_3d=u, nt2_3d=v) in U0))


@spec
def used_only(U, L):
    """the set U holds nothing but elements of the list L"""
    return forall(lambda n1, n2, lw, sg, u, v: implies(
        rec(BasePair3D, nt1=n1, nt2=n2, lw=lw, saenger=sg, nt1_3d=u, nt2_3d=v) in U,
        exists(lambda k: 0 <= k and k < len(L) and L[k] == rec(BasePair3D, nt1=n1, nt2=n2, lw=lw, saenger=sg, nt1_3d=u, nt2_3d=v))))


class base_pairs_body(base_pairs_callee):
    """Mapping2D3D.base_pairs verified against its body (everything its callers are told, except the cached-value rule)"""
    locals = {"result": "list[rec[BasePair3D]]", "used": "set[rec[BasePair3D]]"}
    ensures = [
        # "each once": duplicated / reversed-duplicate entries do not repeat
        "distinct(result)",
        # only liftings of input entries whose two residues exist ("dangling entries" are dropped), in both orientations
        "lifted_from(self, result, len(self.base_pairs2d))",
        "lifts_all(self, result, len(self.base_pairs2d))",
        "implies(no_self_pairs(self), no_self(result))",
    ]
    ensures_labels = {0: "each-once", 1: "only-resolvable-input-pairs", 2: "every-resolvable-pair-and-its-reverse", 3: "no-self-pairs"}
    loops = {0: {"index": "c", "inv": ["len(result) >= 0", "used_has(used, result)", "used_only(used, result)", "distinct(result)", "lifted_from(self, result, c)", "lifts_all(self, result, c)"]}}
    ghost = [
        {"when": "after", "at": "bp = BasePair3D(", "label": "lifted", "do": ["assert resolvable(self, base_pair) and is_lift(self, bp, base_pair)"]},
        {"when": "before", "at": "result.append(bp)", "label": "r0",
         "do": ["let R0 = result"]},
        {"when": "after", "at": "result.append(bp)", "label": "appended",
         "do": ["assert extends(result, R0)", "assert result[len(result) - 1] == bp and is_lift(self, result[len(result) - 1], base_pair)", "assert distinct(result)"]},
        {"when": "before", "at": "used.add(bp)", "label": "used0", "do": ["let U0 = used"]},
        {"when": "after", "at": "used.add(bp)", "label": "used",
         "do": ["assert added(used, U0, bp)", "assert used_has(used, result)", "assert used_only(used, result)"]},
        {"when": "before", "at": "result.append(bp.reverse)", "label": "r1", "do": ["let R1 = result"]},
        {"when": "after", "at": "result.append(bp.reverse)", "label": "appended-reverse",
         "do": ["assert extends(result, R1)", "assert is_rev_lift(self, result[len(result) - 1], base_pair)", "assert distinct(result)"]},
        {"when": "before", "at": "used.add(bp.reverse)", "label": "used1", "do": ["let U1 = used"]},
        {"when": "after", "at": "used.add(bp.reverse)", "label": "used-reverse",
         "do": ["assert added(used, U1, result[len(result) - 1])", "assert used_has(used, result)", "assert used_only(used, result)"]},
    ]


_BP = "self.base_pairs_value"


class generated_bpseq_data(generate_bpseq):
    target = "Mapping2D3D._generated_bpseq_data"
    params = {"self": "Mapping2D3D"}
    requires = [f"distinct_nucleotides({_R})", "no_self_pairs(self)"]
    returns = "tuple[BpSeq,dict[int,Residue3D]]"
    raises = []
    modifies = []
    locals = {"matches": "dict[Residue3D,set[rec[BasePair3D]]]"}
    defaultdicts = ["matches"]
    # the structural clauses are those of __generate_bpseq (they do not mention the pair list); the two pair clauses are
    # restated over the canonical input pairs
    ensures = generate_bpseq.ensures[:11] + [
        # "takes every pair from the canonical input pairs"
        f"forall(lambda x: implies(1 <= x and x <= len({_E}) and {_E}[x - 1].pair != 0, x in {_M} and {_E}[x - 1].pair in {_M}"
        f" and exists(lambda a: 0 <= a and a < len({_BP}) and {_BP}[a].is_canonical and linked({_BP}, a, {_M}[x], {_M}[{_E}[x - 1].pair]))))",
        # "keeps every canonical pair that conflicts with no other": a canonical pair (taken in its orientation nt1 < nt2; both
        # orientations are always in the list) is present whenever no canonical entry competes with it for a residue (entries
        # joining the same two residues - duplicates, reversed duplicates, other classes - are not competitors) and both of its
        # residues are numbered
        f"forall(lambda a, x, y: implies(0 <= a and a < len({_BP}) and canon({_BP}[a])"
        f" and forall(lambda b: implies(0 <= b and b < len({_BP}) and {_BP}[b].is_canonical, not conflict({_BP}[a], {_BP}[b])))"
        f" and x in {_M} and y in {_M} and {_M}[x] == {_BP}[a].nt1_3d and {_M}[y] == {_BP}[a].nt2_3d,"
        f" {_E}[x - 1].pair == y and {_E}[y - 1].pair == x))",
        "fresh(result[0])",
    ]
    ensures_labels = dict(generate_bpseq.ensures_labels)
    ensures_labels.update({11: "pairs-from-canonical-input", 12: "keeps-unconflicted-canonical", 13: "fresh-bpseq"})
    _W = ["len(canonical) >= 0", "subset_of(canonical, C0)", "distinct(canonical)", "no_self(canonical)", "removed_conflicted(canonical, C0)"]
    loops = {
        # while True
        0: {"inv": _W, "decreases": "len(canonical)"},
        # for base_pair in canonical
        1: {"index": "c1", "inv": ["keys_ok(matches)", "matches_has(matches, canonical, c1)", "matches_only(matches, canonical, c1)"]},
        # for pairs in matches.values()   (for-else)
        2: {"index": "c2", "inv": ["canonical == CAN", "no_conflict_upto(matches, CAN, c2)"]},
    }
    ghost = [
        {"when": "after", "at": "canonical = [", "label": "filter",
         "do": ["let C0 = canonical", "let SRC0 = last_filter_index()",
                f"assert filtered_in(C0, SRC0, {_BP})",
                f"assert filtered_all(C0, SRC0, {_BP})",
                "assert distinct(C0)", "assert no_self(C0)"]},
        {"when": "before", "at": "for pairs in matches.values()", "label": "snapshot", "do": ["let CAN = canonical"]},
        {"when": "before", "at": "return self.__generate_bpseq(canonical)", "label": "final",
         "do": [f"assert forall(lambda b: implies(0 <= b and b < len(canonical), exists(lambda p: 0 <= p and p < len({_BP}) and {_BP}[p] == canonical[b] and {_BP}[p].is_canonical)))"]},
        {"when": "after", "at": "if len(pairs) >", "label": "no-conflict-here",
         "do": ["let KEY2 = list(matches.keys())[c2]",
                "assert KEY2 in matches",
                "assert forall(lambda a: implies(0 <= a and a < len(CAN) and CAN[a].nt1_3d == KEY2, CAN[a] in pairs), pats=['ident(CAN[a].nt1_3d)'])",
                "assert forall(lambda a: implies(0 <= a and a < len(CAN) and CAN[a].nt2_3d == KEY2, CAN[a] in pairs), pats=['ident(CAN[a].nt2_3d)'])",
                "assert forall(lambda a, b: implies(0 <= a and a < b and b < len(CAN), not (CAN[a] in pairs and CAN[b] in pairs)))",
                "assert forall(lambda a, b: implies(0 <= a and a < b and b < len(CAN), not (touches(CAN[a], KEY2) and touches(CAN[b], KEY2))))"]},
        {"when": "after", "at": "pairs = sorted(", "label": "conflict",
         "do": ["let KEY = list(matches.keys())[c2]",
                "assert len(pairs) > 1 and pairs[0] != pairs[-1]",
                "assert KEY in matches and pairs[0] in matches[KEY] and pairs[-1] in matches[KEY]",
                "assert exists(lambda q: 0 <= q and q < len(canonical) and canonical[q] == pairs[0]) and touches(pairs[0], KEY)",
                "assert exists(lambda q: 0 <= q and q < len(canonical) and canonical[q] == pairs[-1]) and touches(pairs[-1], KEY)",
                "assert exists(lambda a2: 0 <= a2 and a2 < len(C0) and C0[a2] == pairs[0])",
                "assert shares(pairs[-1], pairs[0])"]},
    ]


CONTRACTS = {
    "Residue3D.is_connected": is_connected,
    "Mapping2D3D.__generate_bpseq": generate_bpseq,
    "Mapping2D3D.base_pairs": base_pairs_callee,
    "Mapping2D3D.base_pairs@body": base_pairs_body,
    "BasePair3D.reverse": reverse,
    "Structure3D.find_residue@body": find_residue_body,
    "Mapping2D3D._generated_bpseq_data": generated_bpseq_data,
}
