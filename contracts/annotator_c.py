"""Sidecar contracts for the loop-free / finite parts of C11 and for C04 (rnapolis/annotator.py, with helper contracts
verified against rnapolis/common.py and rnapolis/tertiary.py).  Another builder owns contracts/annotator_pairs_c.py
(find_pairs); nothing here covers find_pairs.

Modelling decisions (each is repeated in props/C04.py / props/C11.py under ASSUMPTIONS / TRUSTED):
  * an enum member that is a *parameter* is the record (name, value) constrained to the members of the real enum
    (class LWMember below); enum members created by the code (Enum[name]) use the engine's own enum values;
  * Atom / Residue3D / Structure3D are heap objects that the functions under contract never write (frame obligations);
    the frozen dataclasses Residue / Stacking built by find_stackings are immutable records;
  * Residue.chain / number / icode (properties of the frozen base class) and the cached property
    Residue3D.base_normal_vector are read as stored attributes of the residue;
  * label / auth identifiers are opaque tokens (the code under contract only copies and compares them).
"""
import z3

from contracts.externals import NUMPY
from pyvc.expr import VVec
from pyvc.values import Unsupported, VOpt, VRef, to_z3, uid
from spec import tables as T


def spec(f):
    return f


PRUNE_BRANCHES = True
INLINE = []
PURE_EXTERNALS = ["rnapolis.common.Saenger.table"]

CLASSES = {
    "Atom": {"kind": "object", "fields": {"name": "str", "x": "real", "y": "real", "z": "real"}},
    "Residue3D": {"kind": "object", "fields": {"model": "int", "one_letter_name": "str", "atoms": "list[Atom]",
                                               "base_normal_vector": "opt[vec3]", "label": "int", "auth": "int",
                                               "chain": "str", "number": "int", "icode": "opt[str]"}},
    "Structure3D": {"kind": "object", "fields": {"residues": "list[Residue3D]"}},
    "Residue": {"kind": "record", "fields": {"label": "int", "auth": "int"}},
    "Stacking": {"kind": "record", "fields": {"nt1": "rec[Residue]", "nt2": "rec[Residue]", "topology": "enum[StackingTopology]"}},
    "LWMember": {"kind": "record", "fields": {"name": "str", "value": "str"}},
}


def _real_tables():
    """the real objects of the module under verification (PYTHONPATH decides which tree: /repo/src or a scratch copy)"""
    from rnapolis.common import LeontisWesthof, Saenger, StackingTopology
    return {
        "LW_MEMBERS": [(m.name, m.value) for m in LeontisWesthof],
        "LW_NAMES": [m.name for m in LeontisWesthof],
        "SAENGER_REAL": dict(Saenger.table()),
        "TOPO_ORD": {m.name: k for k, m in enumerate(StackingTopology)},
    }


SPEC_CONSTS = dict(_real_tables())
SPEC_CONSTS.update({
    "SAENGER_PINNED": dict(T.SAENGER),
    "BPH_FIXED": dict(T.BPH_FIXED),
    "BPH_TORSION_KEYS": list(T.BPH_TORSION.keys()),
    "BASE_ATOMS_PINNED": dict(T.BASE_ATOMS),
    "EPS": 1e-6,  # the property's undecided band around every threshold
})

UFUNS = {
    # first_idx(r, s): position in r.atoms of the first atom named s, -1 if there is none (definition: first_idx_def)
    "first_idx": (["int", "str"], "int"),
    # the dihedral of four atoms as computed by rnapolis.tertiary.torsion_angle (radians); atoms are frozen, so a function
    # of their identities.  No property of it is assumed here (C18 is about its value).
    "torsion_of": (["int", "int", "int", "int"], "real"),
}


# ---------------------------------------------------------------------------------------------------------------------
# assumed contracts of third-party / other-module calls (trusted base)
# ---------------------------------------------------------------------------------------------------------------------
def _unopt(e, v, node, exc="TypeError"):
    """an Optional value used where the callee needs the value: raises `exc` when it is None"""
    if isinstance(v, VOpt):
        e.may_raise(v.isnone, exc, node)
        return v.val
    return v


def ext_torsion_angle(e, args, kw, node, st):
    """rnapolis.tertiary.torsion_angle(a1, a2, a3, a4): a real number depending only on the four atoms;
    AttributeError if one of them is None (it reads .coordinates)"""
    ids = []
    for a in args[:4]:
        a = _unopt(e, a, node, "AttributeError")
        if not isinstance(a, VRef):
            raise Unsupported("torsion_angle of a non-atom")
        ids.append(to_z3(a.ident))
    return e.ufuns["torsion_of"](*ids)


def ext_degrees(e, args, kw, node, st):
    return e.ufun("degrees", z3.RealSort(), z3.RealSort())(to_z3(_unopt(e, args[0], node), "real"))


def ext_acos(e, args, kw, node, st):
    """math.acos as an uninterpreted function (named py_acos: `acos` is a reserved symbol of the SMT-LIB reader); no
    property of it is assumed"""
    return e.ufun("py_acos", z3.RealSort(), z3.RealSort())(to_z3(_unopt(e, args[0], node), "real"))


def _vec_arg(e, v, node):
    v = _unopt(e, v, node)
    if not isinstance(v, VVec):
        raise Unsupported(f"expected a fixed-length vector, got {type(v).__name__}")
    return v


def ext_dot(e, args, kw, node, st):
    """numpy.dot of two 3-vectors: the function np_dot3 of the six components.  It is left uninterpreted (code, contracts
    and specification use the same symbol, so what is proved holds for every function, in particular the dot product);
    this keeps products of coordinates out of the verification conditions."""
    a, b = _vec_arg(e, args[0], node), _vec_arg(e, args[1], node)
    if len(a.c) != 3 or len(b.c) != 3:
        raise Unsupported("numpy.dot of vectors that are not 3-dimensional")
    return e.ufun("np_dot3", *([z3.RealSort()] * 7))(*(a.c + b.c))


def ext_norm(e, args, kw, node, st):
    return NUMPY["numpy.linalg.norm"](e, [_vec_arg(e, args[0], node)], kw, node, st)


EXTERNALS = dict(NUMPY)
EXTERNALS.update({
    "rnapolis.tertiary.torsion_angle": ext_torsion_angle,
    "math.degrees": ext_degrees,
    "math.acos": ext_acos,
    "numpy.dot": ext_dot,
    "numpy.linalg.norm": ext_norm,
})
SPEC_EXTERNALS = {"degrees": "math.degrees", "acos": "math.acos", "norm": "numpy.linalg.norm"}


# ---------------------------------------------------------------------------------------------------------------------
# C11 (a): LeontisWesthof.reverse            (module rnapolis.common)
# ---------------------------------------------------------------------------------------------------------------------
@spec
def lw_swap(s):
    """the class name with its two edge letters exchanged"""
    return char(s, 0) + char(s, 2) + char(s, 1)


class lw_reverse:
    target = "LeontisWesthof.reverse"
    params = {"self": "rec[LWMember]"}
    requires = ["(self.name, self.value) in LW_MEMBERS"]
    raises = []  # in particular no KeyError: the swapped name is again a member
    ensures = ["char(result.name, 1) == char(self.name, 2) and char(result.name, 2) == char(self.name, 1) and len(result.name) == 3",
               "char(result.name, 0) == char(self.name, 0)"]
    ensures_labels = {0: "reverse-swaps-edge-letters", 1: "reverse-keeps-cis-trans"}


# ---------------------------------------------------------------------------------------------------------------------
# C11 (b): detect_saenger
# ---------------------------------------------------------------------------------------------------------------------
@spec
def saenger_of(table, a, b, v):
    """Saenger class name defined by the bases a, b and the LW class value v in `table`, None if undefined"""
    return ite((a + b, v) in table, table[(a + b, v)], None)


class detect_saenger_c:
    target = "detect_saenger"
    params = {"residue_i": "Residue3D", "residue_j": "Residue3D", "lw": "rec[LWMember]"}
    requires = []
    raises = []  # every name stored in the table is a member of Saenger
    modifies = []
    ensures = [
        "iff(result is None, not ((residue_i.one_letter_name + residue_j.one_letter_name, lw.value) in SAENGER_PINNED))",
        "implies(not (result is None), result.name == SAENGER_PINNED[(residue_i.one_letter_name + residue_j.one_letter_name, lw.value)])",
    ]
    ensures_labels = {0: "saenger-present-iff-defined", 1: "saenger-class-of-pinned-table"}


# ---------------------------------------------------------------------------------------------------------------------
# Residue3D.find_atom                          (module rnapolis.tertiary)
# ---------------------------------------------------------------------------------------------------------------------
@spec
def first_idx_def(r, s):
    return ite(first_idx(r, s) < 0,
               first_idx(r, s) == -1 and forall(lambda k: implies(0 <= k and k < len(r.atoms), r.atoms[k].name != s)),
               first_idx(r, s) < len(r.atoms) and r.atoms[first_idx(r, s)].name == s
               and forall(lambda k: implies(0 <= k and k < first_idx(r, s), r.atoms[k].name != s)))


class find_atom_c:
    target = "Residue3D.find_atom"
    params = {"self": "Residue3D", "atom_name": "str"}
    requires = []
    returns = "opt[Atom]"
    raises = []
    modifies = []
    ensures = ["is_none(result) == (first_idx(self, atom_name) < 0)",
               "implies(not is_none(result), 0 <= first_idx(self, atom_name) and first_idx(self, atom_name) < len(self.atoms) and result == self.atoms[first_idx(self, atom_name)])"]
    ensures_labels = {0: "none-iff-absent", 1: "first-atom-of-that-name"}
    ghost_entry = ["use first_idx_definition(self, atom_name)"]
    loops = {0: {"index": "k", "inv": ["forall(lambda q: implies(0 <= q and q < k, self.atoms[q].name != atom_name))"]}}


# ---------------------------------------------------------------------------------------------------------------------
# C11 (c): detect_bph_br_classification
# ---------------------------------------------------------------------------------------------------------------------
@spec
def cis_torsion(a1, a2, a3, a4):
    """the torsion a1-a2-a3-a4 is definitely inside (-90, 90) degrees (1e-6 away from the limits)"""
    return -90 + EPS < degrees(torsion_of(a1, a2, a3, a4)) and degrees(torsion_of(a1, a2, a3, a4)) < 90 - EPS


@spec
def trans_torsion(a1, a2, a3, a4):
    """the torsion is definitely outside [-90, 90] degrees"""
    return degrees(torsion_of(a1, a2, a3, a4)) < -90 - EPS or degrees(torsion_of(a1, a2, a3, a4)) > 90 + EPS


def _bph_torsion_clauses():
    out = []
    for (b, d), ((x, y), cis, trans) in T.BPH_TORSION.items():
        ix, iy = f"first_idx(donor_residue, {x!r})", f"first_idx(donor_residue, {y!r})"
        four = f"donor_residue.atoms[{ix}], donor_residue.atoms[{iy}], donor, acceptor"
        out.append(f"implies(donor_residue.one_letter_name == {b!r} and donor.name == {d!r}, "
                   f"ite({ix} >= 0 and {iy} >= 0, "
                   f"(result == {cis} or result == {trans}) and implies(cis_torsion({four}), result == {cis}) and implies(trans_torsion({four}), result == {trans}), "
                   f"result is None))")
    return out


class detect_bph_br_c:
    target = "detect_bph_br_classification"
    params = {"donor_residue": "Residue3D", "donor": "Atom", "acceptor": "Atom"}
    requires = []
    returns = "opt[int]"
    raises = []
    modifies = []
    ghost_entry = [f"use first_idx_definition(donor_residue, {n!r})" for n in sorted({n for (xy, _, _) in T.BPH_TORSION.values() for n in xy})]
    ensures = ([
        "implies((donor_residue.one_letter_name, donor.name) in BPH_FIXED, result == BPH_FIXED[(donor_residue.one_letter_name, donor.name)])",
        "implies(not ((donor_residue.one_letter_name, donor.name) in BPH_FIXED) and not ((donor_residue.one_letter_name, donor.name) in BPH_TORSION_KEYS), result is None)",
        "result is None or (0 <= result and result <= 9)",
    ] + _bph_torsion_clauses())
    ensures_labels = {0: "class-of-fixed-donor", 1: "no-class-for-other-donors", 2: "class-in-0..9"}
    ensures_labels.update({3 + k: f"class-of-amino-donor-{b}.{d}-by-torsion-sign" for k, (b, d) in enumerate(T.BPH_TORSION)})


LEMMAS = {
    # definition of first_idx (exists uniquely: least index with that name, or -1)
    "first_idx_definition": {"kind": "definition", "params": ["r", "s"], "ensures": ["first_idx_def(r, s)"]},
    # C11 (a): involution, from the contract of LeontisWesthof.reverse (result.name == lw_swap(self.name))
    "lw_reverse_involution": {"kind": "smt", "params": ["n"], "shapes": ["str"], "requires": ["n in LW_NAMES"],
                              "ensures": ["lw_swap(n) in LW_NAMES", "lw_swap(lw_swap(n)) == n"]},
    # C11 (b): the table is invariant under (swap bases, reverse LW) - for ALL one-character names
    "saenger_pinned_table_reverse_symmetric": {
        "kind": "smt", "params": ["a", "b", "v"], "shapes": ["str", "str", "str"],
        "requires": ["len(a) == 1", "len(b) == 1", "v in LW_NAMES"],
        "ensures": ["saenger_of(SAENGER_PINNED, a, b, v) == saenger_of(SAENGER_PINNED, b, a, lw_swap(v))"]},
    "saenger_real_table_reverse_symmetric": {
        "kind": "smt", "params": ["a", "b", "v"], "shapes": ["str", "str", "str"],
        "requires": ["len(a) == 1", "len(b) == 1", "v in LW_NAMES"],
        "ensures": ["saenger_of(SAENGER_REAL, a, b, v) == saenger_of(SAENGER_REAL, b, a, lw_swap(v))"]},
}

CONTRACTS = {
    "LeontisWesthof.reverse": lw_reverse,
    "detect_saenger": detect_saenger_c,
    "Residue3D.find_atom": find_atom_c,
    "detect_bph_br_classification": detect_bph_br_c,
}


# =====================================================================================================================
# C04: find_stackings
# =====================================================================================================================
CLASSES["KDTree"] = {"kind": "object", "fields": {"points": "list[tuple[real,real,real]]"}}
SPEC_CONSTS.update({"D_MAX": T.STACK_MAX_DIST, "NN_MAX": T.STACK_MAX_NN, "VN_MAX": T.STACK_MAX_VN})

UFUNS.update({
    # abbreviations with explicit definitions (LEMMAS of kind "definition" below); all are functions of frozen residues
    "cnt_base": (["int"], "int"),                   # number of base heavy atoms (pinned BASE_ATOMS) present in the residue
    # prefix count / coordinate sums over the first k pinned base atom names of the residue (primitive recursion on k:
    # base_prefix_zero, base_prefix_step)
    "bcnt": (["int", "int"], "int"), "bsx": (["int", "int"], "real"), "bsy": (["int", "int"], "real"), "bsz": (["int", "int"], "real"),
    "cenx": (["int"], "real"), "ceny": (["int"], "real"), "cenz": (["int"], "real"),  # their centroid
    # angle between two 3-D vectors (radians), as a function of their six components; defined by vangle_definition
    # (arccos of the normalised dot product), which is what angle_between_vectors is proved to return
    "vangle6": (["real"] * 6, "real"),
    # rlt(a, b): residue a sorts before residue b; defined by residue_order_definition as the lexicographic order of
    # (model, chain, number, insertion code or " "), which is what Residue3D.__lt__ is proved to return.  An abbreviation:
    # it keeps string comparisons out of the verification conditions of find_stackings.
    "rlt": (["int", "int"], "bool"),
    # squared Euclidean distance of two points (x1, y1, z1, x2, y2, z2); left uninterpreted, see ext_query_pairs
    "sqdist": (["real"] * 6, "real"),
})


def ext_some(e, args, kw, node, st):
    """spec helper: the payload of an Optional value"""
    return args[0].val if isinstance(args[0], VOpt) else args[0]


def ext_kdtree(e, args, kw, node, st):
    """scipy.spatial.KDTree(points): an object that remembers the points (modelled for 3-D points, at least one point)"""
    from pyvc.values import VList
    pts = args[0]
    if not isinstance(pts, VList) or pts.eshape != ("tuple", (("real",),) * 3):
        raise Unsupported("KDTree of something that is not a list of 3-D points")
    e.may_raise(to_z3(pts.length) <= 0, "ValueError", node)
    return e.construct("KDTree", [pts], {}, node, st)


def ext_query_pairs(e, args, kw, node, st):
    """KDTree.query_pairs(r): exactly the set {(i, j) : 0 <= i < j < n, |p_i - p_j| <= r}, written sqdist(p_i, p_j) <= r*r with
    sqdist the squared Euclidean distance.  sqdist stays uninterpreted in the proof (it holds for every function; contract
    and specification use the same symbol), so no non-linear reasoning about distances is needed.
    Membership is a named predicate with its defining axiom (trigger: the predicate), which keeps instantiation finite."""
    from pyvc.values import VSet, sel
    tree, r = args[0], to_z3(args[1], "real")
    memo = e.__dict__.setdefault("_kd_memo", {})
    key = (to_z3(tree.ident).get_id(), r.get_id())
    if key not in memo:
        pts = e.heap_read(st, tree, "points")
        n = to_z3(pts.length)
        i, j = z3.Int(uid("i")), z3.Int(uid("j"))
        pi, pj = sel(pts.elems, i).items, sel(pts.elems, j).items
        d2 = e.ufuns["sqdist"](*[to_z3(x, "real") for x in list(pi) + list(pj)])
        f = z3.Function(uid("kd_pair"), z3.IntSort(), z3.IntSort(), z3.BoolSort())
        st.assume(z3.ForAll([i, j], f(i, j) == z3.And(i >= 0, i < j, j < n, r >= 0, d2 <= r * r), patterns=[f(i, j)]))
        memo[key] = f
    f = memo[key]
    i, j = z3.Int(uid("i")), z3.Int(uid("j"))
    return VSet(("tuple", (("int",), ("int",))), z3.Lambda([i], z3.Lambda([j], f(i, j))))


ext_query_pairs.pure = True


def _spec_call(e, name, args, st):
    saved = (e.spec, e.guard, e.mayraise)
    e.spec, e.guard, e.mayraise = True, [], []
    try:
        return e.call_value(e.spec_env[name], args, {}, None, st)
    finally:
        e.spec, e.guard, e.mayraise = saved


def ext_sorted(e, args, kw, node, st):
    """sorted(xs) for xs: list of (Residue3D, Residue3D, str) compared with the tuple order built on Residue3D.__lt__:
    the result is a permutation of xs (bijection PI / PINV between positions: out[q] == xs[PI[q]]) and no later element is
    smaller than an earlier one.  Of `not (out[w] < out[q])` (q < w) only these consequences are used; they hold because
    Residue3D.__eq__ (dataclass equality on label, auth, model, ...) implies equal ordering keys, so a < b implies a != b:
        not res_lt(out[w][0], out[q][0]);   out[w][0] is out[q][0]  ->  not res_lt(out[w][1], out[q][1]).
    The bijection is handed to the proof as the ghost lists SORTED_PI / SORTED_PINV (find_stackings_c initialises them to the
    identity, so a caller that does not sort is judged against the identity rearrangement)."""
    from pyvc.values import VList, fresh, sel
    xs = args[0]
    if kw or len(args) != 1 or not isinstance(xs, VList) or xs.eshape != ("tuple", (("ref", "Residue3D"), ("ref", "Residue3D"), ("str",))):
        raise Unsupported("sorted() of this value has no assumed contract here")
    n = to_z3(xs.length)
    out = fresh(("list", xs.eshape), uid("sorted"))
    A = z3.ArraySort(z3.IntSort(), z3.IntSort())
    pi, pinv = z3.Const(uid("sorted.pi"), A), z3.Const(uid("sorted.pinv"), A)
    q, w = z3.Int(uid("q")), z3.Int(uid("w"))
    st.assume(to_z3(out.length) == n)
    same = z3.And(*[a == b for a, b in zip(_leaves(sel(out.elems, q)), _leaves(sel(xs.elems, pi[q])))])
    st.assume(z3.ForAll([q], z3.Implies(z3.And(q >= 0, q < n), z3.And(pi[q] >= 0, pi[q] < n, pinv[pi[q]] == q, same)),
                        patterns=[pi[q], to_z3(sel(out.elems, q).items[0].ident)]))
    st.assume(z3.ForAll([q], z3.Implies(z3.And(q >= 0, q < n), z3.And(pinv[q] >= 0, pinv[q] < n, pi[pinv[q]] == q)),
                        patterns=[pinv[q], to_z3(sel(xs.elems, q).items[0].ident)]))
    oq, ow = sel(out.elems, q).items, sel(out.elems, w).items
    lt0 = to_z3(_spec_call(e, "res_lt", [ow[0], oq[0]], st))
    lt1 = to_z3(_spec_call(e, "res_lt", [ow[1], oq[1]], st))
    st.assume(z3.ForAll([q, w], z3.Implies(z3.And(q >= 0, q < w, w < n),
                                           z3.And(z3.Not(lt0), z3.Implies(to_z3(ow[0].ident) == to_z3(oq[0].ident), z3.Not(lt1)))),
                        patterns=[z3.MultiPattern(to_z3(oq[0].ident), to_z3(ow[0].ident))]))
    st.ghost["SORTED_PI"], st.ghost["SORTED_PINV"] = VList(n, pi, ("int",)), VList(n, pinv, ("int",))
    return out


def _leaves(v):
    from pyvc.values import leaves
    return leaves(v)


EXTERNALS.update({"KDTree": ext_kdtree, "KDTree.query_pairs": ext_query_pairs, "builtins.sorted": ext_sorted, "spec.some": ext_some})
SPEC_EXTERNALS.update({"some": "spec.some", "dot": "numpy.dot"})


# --------------------------------------------------------------------------------------------------- vocabulary of C04
@spec
def res_lt(a, b):
    """the residue order: (model,) chain, number, insertion code - see residue_order_definition"""
    return rlt(a, b)


@spec
def res_key_lt(a, b):
    return (a.model, a.chain, a.number, a.icode or " ") < (b.model, b.chain, b.number, b.icode or " ")


@spec
def base_names(r):
    return BASE_ATOMS_PINNED.get(r.one_letter_name, [])


@spec
def cen(r):
    return (cenx(r), ceny(r), cenz(r))


@spec
def elig(r, model):
    """r takes part: it belongs to the analysed model and has at least one base heavy atom"""
    return (is_none(model) or r.model == model) and cnt_base(r) > 0


@spec
def dist2c(r1, r2):
    """squared distance of the two base centroids"""
    return sqdist(cenx(r1), ceny(r1), cenz(r1), cenx(r2), ceny(r2), cenz(r2))


@spec
def dot3(a, b):
    return a[0] * b[0] + a[1] * b[1] + a[2] * b[2]


@spec
def ndot(r1, r2):
    """dot product of the two base normals (numpy.dot, see ext_dot)"""
    return dot(some(r1.base_normal_vector), some(r2.base_normal_vector))


@spec
def vangle(u, v):
    """angle between two vectors (radians)"""
    return vangle6(u[0], u[1], u[2], v[0], v[1], v[2])


@spec
def ang(u, v):
    """angle between two vectors in degrees"""
    return degrees(vangle(u, v))


@spec
def cvec(r1, r2):
    """centroid-to-centroid vector, from the later residue r2 to the earlier residue r1"""
    return vec(cenx(r1) - cenx(r2), ceny(r1) - ceny(r2), cenz(r1) - cenz(r2))


@spec
def stk(r1, r2, e):
    """the geometric definition for r1 (earlier in the file) and r2 (later), thresholds moved by e (= +EPS / -EPS):
    centroids within D_MAX; normals within NN_MAX degrees of parallel or antiparallel; centroid-to-centroid vector within
    VN_MAX degrees of one of the normals"""
    return (not is_none(r1.base_normal_vector) and not is_none(r2.base_normal_vector)
            and dist2c(r1, r2) <= (D_MAX + e) * (D_MAX + e)
            and (ang(some(r1.base_normal_vector), some(r2.base_normal_vector)) <= NN_MAX + e
                 or ang(-some(r1.base_normal_vector), some(r2.base_normal_vector)) <= NN_MAX + e)
            and (ang(cvec(r1, r2), some(r1.base_normal_vector)) <= VN_MAX + e
                 or ang(cvec(r1, r2), some(r2.base_normal_vector)) <= VN_MAX + e))


@spec
def pair_loose(pr, r1, r2):
    """(lower, higher, topology name) is an admissible report for r1 (earlier in the file), r2 (later)"""
    return ite(res_lt(r1, r2),
               pr[0] == r1 and pr[1] == r2 and ((pr[2] == "upward" and ndot(r1, r2) > 0 - EPS) or (pr[2] == "inward" and ndot(r1, r2) < EPS)),
               pr[0] == r2 and pr[1] == r1 and ((pr[2] == "downward" and ndot(r1, r2) > 0 - EPS) or (pr[2] == "outward" and ndot(r1, r2) < EPS)))


@spec
def pair_tight(pr, r1, r2):
    """(lower, higher, topology name) is the report required for r1, r2"""
    return ite(res_lt(r1, r2),
               pr[0] == r1 and pr[1] == r2 and (pr[2] == "upward" or pr[2] == "inward")
               and implies(ndot(r1, r2) > EPS, pr[2] == "upward") and implies(ndot(r1, r2) < 0 - EPS, pr[2] == "inward"),
               pr[0] == r2 and pr[1] == r1 and (pr[2] == "downward" or pr[2] == "outward")
               and implies(ndot(r1, r2) > EPS, pr[2] == "downward") and implies(ndot(r1, r2) < 0 - EPS, pr[2] == "outward"))


@spec
def same_ids(s, lo, hi):
    return s.nt1.label == lo.label and s.nt1.auth == lo.auth and s.nt2.label == hi.label and s.nt2.auth == hi.auth


@spec
def rec_of(s, pr):
    """the Stacking record s is built from the triple pr"""
    return same_ids(s, pr[0], pr[1]) and s.topology == TOPO_ORD[pr[2]]


@spec
def rec_loose(s, r1, r2):
    return ite(res_lt(r1, r2),
               same_ids(s, r1, r2) and ((s.topology == TOPO_ORD["upward"] and ndot(r1, r2) > 0 - EPS) or (s.topology == TOPO_ORD["inward"] and ndot(r1, r2) < EPS)),
               same_ids(s, r2, r1) and ((s.topology == TOPO_ORD["downward"] and ndot(r1, r2) > 0 - EPS) or (s.topology == TOPO_ORD["outward"] and ndot(r1, r2) < EPS)))


@spec
def rec_tight(s, r1, r2):
    return ite(res_lt(r1, r2),
               same_ids(s, r1, r2) and (s.topology == TOPO_ORD["upward"] or s.topology == TOPO_ORD["inward"])
               and implies(ndot(r1, r2) > EPS, s.topology == TOPO_ORD["upward"]) and implies(ndot(r1, r2) < 0 - EPS, s.topology == TOPO_ORD["inward"]),
               same_ids(s, r2, r1) and (s.topology == TOPO_ORD["downward"] or s.topology == TOPO_ORD["outward"])
               and implies(ndot(r1, r2) > EPS, s.topology == TOPO_ORD["downward"]) and implies(ndot(r1, r2) < 0 - EPS, s.topology == TOPO_ORD["outward"]))


@spec
def lo_index(S, a, b):
    """position of the lower of the residues S[a], S[b] (a before b in the file)"""
    return ite(res_lt(S[a], S[b]), a, b)


@spec
def hi_index(S, a, b):
    return ite(res_lt(S[a], S[b]), b, a)


@spec
def rm(cmap, coords, k):
    """the residue recorded for the k-th centroid"""
    return cmap[coords[k]]


class angle_c:
    target = "angle_between_vectors"
    params = {"v1": "vec3", "v2": "vec3"}
    requires = ["dot3(v1, v1) > 0", "dot3(v2, v2) > 0"]  # non-zero vectors (numpy would yield nan, outside A-real)
    returns = "real"
    raises = []
    modifies = []
    ghost_entry = ["use vangle_definition(v1, v2)"]
    ensures = ["result == vangle(v1, v2)"]
    ensures_labels = {0: "angle-is-arccos-of-normalised-dot-product"}


class res_lt_c:
    target = "Residue3D.__lt__"
    params = {"self": "Residue3D", "other": "Residue3D"}
    requires = []
    returns = "bool"
    raises = []
    modifies = []
    ghost_entry = ["use residue_order_definition(self, other)"]
    ensures = ["result == res_lt(self, other)"]
    ensures_labels = {0: "order-by-model-chain-number-icode"}


_S = "structure.residues"
_N = f"len({_S})"
_EL = lambda a: f"elig({_S}[{a}], model)"
_RM = lambda k: f"rm(coordinates_residue_map, coordinates, {k})"
_RI, _RJ = _RM("EN[SRC2[m]][0]"), _RM("EN[SRC2[m]][1]")
_UI, _UJ = _RM("EN[u][0]"), _RM("EN[u][1]")
_AM, _BM = "SRC0[EN[SRC2[m]][0]]", "SRC0[EN[SRC2[m]][1]]"
_AQ, _BQ = _AM.replace("[m]", "[SORTED_PI[q]]"), _BM.replace("[m]", "[SORTED_PI[q]]")
_LO = lambda m: f"lo_index({_S}, {_AM.replace('[m]', '[' + m + ']')}, {_BM.replace('[m]', '[' + m + ']')})"
_HI = lambda m: f"hi_index({_S}, {_AM.replace('[m]', '[' + m + ']')}, {_BM.replace('[m]', '[' + m + ']')})"


class find_stackings_c:
    """Ghost state (proof-internal, never read by the code): SRC0[k] = position in structure.residues of the residue that
    produced coordinates[k]; EN = the (arbitrary, duplicate-free) enumeration of kdtree.query_pairs(6.0) the second loop runs
    over; SRC2[m] = position in EN of the index pair that produced pairs[m]; POS2[u] = position in pairs of what step u
    appended (-1: nothing); SP = the list the last loop iterates over; SORTED_PI / SORTED_PINV = the rearrangement performed
    by sorted() (identity if the list is iterated as it is)."""
    target = "find_stackings"
    params = {"structure": "Structure3D", "model": "opt[int]"}
    returns = "list[rec[Stacking]]"
    raises = []
    modifies = []
    locals = {"coordinates": "list[tuple[real,real,real]]", "coordinates_residue_map": "dict[tuple[real,real,real],Residue3D]",
              "xs": "list[real]", "ys": "list[real]", "zs": "list[real]",
              "pairs": "list[tuple[Residue3D,Residue3D,str]]", "stackings": "list[rec[Stacking]]"}
    requires = [
        # distinct participating residues have distinct base centroids (the centroid-keyed dictionary is lossy otherwise)
        f"forall(lambda a, b: implies(0 <= a and a < b and b < {_N} and {_EL('a')} and {_EL('b')}, cen({_S}[a]) != cen({_S}[b])), pats=[['cenx({_S}[a])', 'cenx({_S}[b])']])",
        # ... and distinct identifiers
        f"forall(lambda a, b: implies(0 <= a and a < b and b < {_N} and {_EL('a')} and {_EL('b')}, "
        f"not ({_S}[a].label == {_S}[b].label and {_S}[a].auth == {_S}[b].auth)), pats=[['{_S}[a].label', '{_S}[b].label']])",
        # an existing base normal is a non-zero vector (tertiary.py returns a unit vector; NaN for collinear atoms is outside A-real)
        f"forall(lambda a: implies(0 <= a and a < {_N} and not is_none({_S}[a].base_normal_vector), "
        f"dot3(some({_S}[a].base_normal_vector), some({_S}[a].base_normal_vector)) > 0), pats=['ident({_S}[a])'])",
    ]
    ensures = [
        # soundness: every reported stacking is a pair that may satisfy the definition, correctly oriented and labelled
        f"forall(lambda q: implies(0 <= q and q < len(result), exists(lambda a, b: 0 <= a and a < b and b < {_N} and {_EL('a')} and {_EL('b')} "
        f"and stk({_S}[a], {_S}[b], EPS) and rec_loose(result[q], {_S}[a], {_S}[b]))))",
        # completeness: every pair that definitely satisfies the definition is reported, correctly oriented and labelled
        f"forall(lambda a, b: implies(0 <= a and a < b and b < {_N} and {_EL('a')} and {_EL('b')} and stk({_S}[a], {_S}[b], 0 - EPS), "
        f"exists(lambda q: 0 <= q and q < len(result) and rec_tight(result[q], {_S}[a], {_S}[b]))))",
        # reported once
        "forall(lambda q, w: implies(0 <= q and q < w and w < len(result), not (result[q].nt1 == result[w].nt1 and result[q].nt2 == result[w].nt2)))",
        # ordered by (model,) chain, number, insertion code of the first, then of the second residue
        f"forall(lambda q, w, a, b, c, d: implies(0 <= q and q < w and w < len(result) and 0 <= a and a < {_N} and 0 <= b and b < {_N} "
        f"and 0 <= c and c < {_N} and 0 <= d and d < {_N} and {_EL('a')} and {_EL('b')} and {_EL('c')} and {_EL('d')} "
        f"and same_ids(result[q], {_S}[a], {_S}[b]) and same_ids(result[w], {_S}[c], {_S}[d]), "
        f"not res_lt({_S}[c], {_S}[a]) and implies(a == c, not res_lt({_S}[d], {_S}[b]))))",
    ]
    ensures_labels = {0: "every-reported-stacking-satisfies-the-definition", 1: "every-pair-satisfying-the-definition-is-reported",
                      2: "each-pair-reported-once", 3: "ordered-by-chain-and-number"}
    loops = {
        0: {"index": "p", "inv": [
            "0 <= len(coordinates) and len(SRC0) == len(coordinates)",
            f"forall(lambda k: implies(0 <= k and k < len(coordinates), 0 <= SRC0[k] and SRC0[k] < p and {_EL('SRC0[k]')} "
            f"and coordinates[k] == cen({_S}[SRC0[k]]) and coordinates[k] in coordinates_residue_map and {_RM('k')} == {_S}[SRC0[k]]), pats=['SRC0[k]', 'coordinates[k][0]'])",
            f"forall(lambda a: implies(0 <= a and a < p and {_EL('a')}, exists(lambda k: 0 <= k and k < len(coordinates) and SRC0[k] == a)), pats=['cnt_base({_S}[a])'])",
            "forall(lambda k, w: implies(0 <= k and k < w and w < len(coordinates), SRC0[k] < SRC0[w]), pats=[['SRC0[k]', 'SRC0[w]']])",
        ]},
        1: {"index": "kk", "inv": [
            "len(xs) == bcnt(residue, kk) and len(ys) == bcnt(residue, kk) and len(zs) == bcnt(residue, kk)",
            "sum(xs) == bsx(residue, kk) and sum(ys) == bsy(residue, kk) and sum(zs) == bsz(residue, kk)",
        ]},
        2: {"index": "t", "seq": "EN", "inv": [
            "0 <= len(pairs) and len(SRC2) == len(pairs) and len(POS2) == t",
            f"forall(lambda m: implies(0 <= m and m < len(pairs), 0 <= SRC2[m] and SRC2[m] < t and POS2[SRC2[m]] == m "
            f"and stk({_RI}, {_RJ}, EPS) and pair_loose(pairs[m], {_RI}, {_RJ})), pats=['SRC2[m]', 'ident(pairs[m][0])'])",
            f"forall(lambda u: implies(0 <= u and u < t, (POS2[u] == 0 - 1 or (0 <= POS2[u] and POS2[u] < len(pairs) and SRC2[POS2[u]] == u)) "
            f"and implies(stk({_UI}, {_UJ}, 0 - EPS), 0 <= POS2[u] and pair_tight(pairs[POS2[u]], {_UI}, {_UJ}))), pats=['POS2[u]', 'EN[u][0]'])",
            "forall(lambda m, w: implies(0 <= m and m < w and w < len(pairs), SRC2[m] < SRC2[w]), pats=[['SRC2[m]', 'SRC2[w]']])",
        ]},
        3: {"index": "q3", "iter": "SP", "inv": [
            "len(stackings) == q3",
            "forall(lambda q: implies(0 <= q and q < q3, rec_of(stackings[q], SP[q])), pats=['stackings[q].topology', 'stackings[q].nt1.label'])",
        ]},
    }
    ghost = [
        {"when": "after", "at": "coordinates = []", "label": "ghost-init0", "do": ["let SRC0 = empty('list[int]')"]},
        {"when": "after", "at": "base_atoms =", "label": "base-atom-table-is-the-pinned-table",
         "do": ["assert len(base_atoms) == len(base_names(residue)) and forall(lambda q: implies(0 <= q and q < len(base_atoms), base_atoms[q] == base_names(residue)[q]), pats=['base_atoms[q]'])"]},
        {"when": "after", "at": "xs, ys, zs =", "label": "sum-empty",
         "do": ["use sum_empty(xs)", "use sum_empty(ys)", "use sum_empty(zs)", "use base_prefix_zero(residue)"]},
        {"when": "after", "at": "atom = residue.find_atom(", "label": "prefix-step", "do": ["use base_prefix_step(residue, kk)"]},
        {"when": "before", "at": "xs.append(", "label": "sum-pre", "do": ["let xs0 = xs", "let ys0 = ys", "let zs0 = zs"]},
        {"when": "after", "at": "zs.append(", "label": "sum-append",
         "do": ["use sum_append(xs0, xs, atom.x)", "use sum_append(ys0, ys, atom.y)", "use sum_append(zs0, zs, atom.z)"]},
        {"when": "before", "at": "if len(xs) > 0", "label": "centroid-def",
         "do": ["use centroid_definition(residue)",
                "assert len(xs) == cnt_base(residue) and len(ys) == cnt_base(residue) and len(zs) == cnt_base(residue)",
                "assert sum(xs) == bsx(residue, len(base_names(residue))) and sum(ys) == bsy(residue, len(base_names(residue))) and sum(zs) == bsz(residue, len(base_names(residue)))"]},
        {"when": "after", "at": "geometric_center =", "label": "centroid",
         "do": ["use mean_unique(cenx(residue), len(xs), cnt_base(residue), sum(xs), bsx(residue, len(base_names(residue))), 1 / len(xs))",
                "use mean_unique(ceny(residue), len(ys), cnt_base(residue), sum(ys), bsy(residue, len(base_names(residue))), 1 / len(ys))",
                "use mean_unique(cenz(residue), len(zs), cnt_base(residue), sum(zs), bsz(residue, len(base_names(residue))), 1 / len(zs))",
                "assert geometric_center[0] == cenx(residue) and geometric_center[1] == ceny(residue) and geometric_center[2] == cenz(residue)"]},
        {"when": "after", "at": "coordinates.append(", "label": "src0", "do": ["let SRC0 = snoc(SRC0, p)"]},
        {"when": "before", "at": "kdtree =", "label": "centroid-table",
         "do": [f"assert forall(lambda k: implies(0 <= k and k < len(coordinates), coordinates[k] == cen({_RM('k')}) and implies(not is_none({_RM('k')}.base_normal_vector), "
                f"dot3(some({_RM('k')}.base_normal_vector), some({_RM('k')}.base_normal_vector)) > 0)), pats=['coordinates[k][0]'])",
                f"assert forall(lambda k, w: implies(0 <= k and k < w and w < len(coordinates), {_RM('k')} != {_RM('w')} and coordinates[k] != coordinates[w]), pats=[['coordinates[k][0]', 'coordinates[w][0]']])"]},
        # ---- after loop 2: the triples in `pairs` against the definition over structure.residues
        {"when": "before", "at": "stackings = []", "label": "every-triple-comes-from-a-pair-satisfying-the-definition",
         "do": [f"assert forall(lambda m: implies(0 <= m and m < len(pairs), 0 <= {_AM} and {_AM} < {_BM} and {_BM} < {_N} and {_EL(_AM)} and {_EL(_BM)} "
                f"and stk({_S}[{_AM}], {_S}[{_BM}], EPS) and pair_loose(pairs[m], {_S}[{_AM}], {_S}[{_BM}])), pats=['SRC2[m]', 'ident(pairs[m][0])'])",
                f"assert forall(lambda m: implies(0 <= m and m < len(pairs), 0 <= {_LO('m')} and {_LO('m')} < {_N} and 0 <= {_HI('m')} and {_HI('m')} < {_N} "
                f"and {_LO('m')} != {_HI('m')} and {_EL(_LO('m'))} and {_EL(_HI('m'))} and pairs[m][0] == {_S}[{_LO('m')}] and pairs[m][1] == {_S}[{_HI('m')}]), "
                f"pats=['SRC2[m]', 'ident(pairs[m][0])'])"]},
        {"when": "before", "at": "stackings = []", "label": "no-residue-pair-twice-in-pairs",
         "do": ["assert forall(lambda m, w: implies(0 <= m and m < w and w < len(pairs), not (pairs[m][0] == pairs[w][0] and pairs[m][1] == pairs[w][1])), "
                "pats=[['ident(pairs[m][0])', 'ident(pairs[w][0])']])"]},
        {"when": "before", "at": "stackings = []", "label": "every-pair-satisfying-the-definition-has-a-triple",
         "do": [f"assert forall(lambda a, b: implies(0 <= a and a < b and b < {_N} and {_EL('a')} and {_EL('b')} and stk({_S}[a], {_S}[b], 0 - EPS), "
                f"exists(lambda k, w: 0 <= k and k < w and w < len(coordinates) and SRC0[k] == a and SRC0[w] == b and (k, w) in kdtree.query_pairs(D_MAX))), "
                f"pats=[['ident({_S}[a])', 'ident({_S}[b])']])",
                f"assert forall(lambda a, b: implies(0 <= a and a < b and b < {_N} and {_EL('a')} and {_EL('b')} and stk({_S}[a], {_S}[b], 0 - EPS), "
                f"exists(lambda m: 0 <= m and m < len(pairs) and pair_tight(pairs[m], {_S}[a], {_S}[b]))), pats=[['ident({_S}[a])', 'ident({_S}[b])']])"]},
        # ---- loop 3: the iterated list SP against `pairs` (SORTED_PI / SORTED_PINV: identity unless sorted() replaces them)
        {"when": "before", "at": "stackings = []", "label": "ghost-init3",
         "do": ["let SORTED_PI = list(range(len(pairs)))", "let SORTED_PINV = list(range(len(pairs)))"]},
        {"when": "before", "at": "nt1 =", "label": "topology-name-is-a-member",
         "do": ["assert 0 <= SORTED_PI[q3] and SORTED_PI[q3] < len(pairs) and residue_i == pairs[SORTED_PI[q3]][0] and residue_j == pairs[SORTED_PI[q3]][1] "
                "and topology == pairs[SORTED_PI[q3]][2]",
                "assert topology == 'upward' or topology == 'downward' or topology == 'inward' or topology == 'outward'"]},
        {"when": "before", "at": "return stackings", "label": "output-list-is-a-rearrangement-of-pairs",
         "do": ["assert len(stackings) == len(SP) and len(SP) == len(pairs)",
                "assert forall(lambda q: implies(0 <= q and q < len(SP), 0 <= SORTED_PI[q] and SORTED_PI[q] < len(pairs) and SORTED_PINV[SORTED_PI[q]] == q "
                "and SP[q][0] == pairs[SORTED_PI[q]][0] and SP[q][1] == pairs[SORTED_PI[q]][1] and SP[q][2] == pairs[SORTED_PI[q]][2]), "
                "pats=['SORTED_PI[q]', 'ident(SP[q][0])'])",
                "assert forall(lambda m: implies(0 <= m and m < len(pairs), 0 <= SORTED_PINV[m] and SORTED_PINV[m] < len(SP) and SORTED_PI[SORTED_PINV[m]] == m), "
                "pats=['SORTED_PINV[m]'])"]},
        {"when": "before", "at": "return stackings", "label": "output-list-is-sorted-by-residue-order",
         "do": ["assert forall(lambda q, w: implies(0 <= q and q < w and w < len(SP), not res_lt(SP[w][0], SP[q][0]) "
                "and implies(SP[w][0] == SP[q][0], not res_lt(SP[w][1], SP[q][1]))), pats=[['ident(SP[q][0])', 'ident(SP[w][0])']])"]},
        {"when": "before", "at": "return stackings", "label": "records-vs-pairs",
         "do": ["assert forall(lambda q: implies(0 <= q and q < len(stackings), rec_of(stackings[q], pairs[SORTED_PI[q]])), "
                "pats=['stackings[q].topology', 'stackings[q].nt1.label', 'SORTED_PI[q]'])",
                f"assert forall(lambda q: implies(0 <= q and q < len(stackings), same_ids(stackings[q], {_S}[{_LO('SORTED_PI[q]')}], {_S}[{_HI('SORTED_PI[q]')}])), "
                f"pats=['stackings[q].topology', 'stackings[q].nt1.label', 'SORTED_PI[q]'])",
                "assert forall(lambda m: implies(0 <= m and m < len(pairs), rec_of(stackings[SORTED_PINV[m]], pairs[m])), pats=['SORTED_PINV[m]', 'ident(pairs[m][0])'])",
                # explicit witnesses for the soundness clause
                f"assert forall(lambda q: implies(0 <= q and q < len(stackings), 0 <= {_AQ} and {_AQ} < {_BQ} and {_BQ} < {_N} and {_EL(_AQ)} and {_EL(_BQ)} "
                f"and stk({_S}[{_AQ}], {_S}[{_BQ}], EPS) and rec_loose(stackings[q], {_S}[{_AQ}], {_S}[{_BQ}])), "
                f"pats=['stackings[q].topology', 'stackings[q].nt1.label', 'SORTED_PI[q]'])",
                # a participating residue carrying the identifiers of a record is the residue the record was built from
                f"assert forall(lambda q, a: implies(0 <= q and q < len(stackings) and 0 <= a and a < {_N} and {_EL('a')}, "
                f"implies(stackings[q].nt1.label == {_S}[a].label and stackings[q].nt1.auth == {_S}[a].auth, a == {_LO('SORTED_PI[q]')}) "
                f"and implies(stackings[q].nt2.label == {_S}[a].label and stackings[q].nt2.auth == {_S}[a].auth, a == {_HI('SORTED_PI[q]')})), "
                f"pats=[['stackings[q].nt1.label', '{_S}[a].label']])",
                "assert forall(lambda q, w: implies(0 <= q and q < w and w < len(stackings), "
                "not (pairs[SORTED_PI[q]][0] == pairs[SORTED_PI[w]][0] and pairs[SORTED_PI[q]][1] == pairs[SORTED_PI[w]][1])), pats=[['SORTED_PI[q]', 'SORTED_PI[w]']])",
                "assert forall(lambda q, w: implies(0 <= q and q < w and w < len(stackings), "
                "not res_lt(pairs[SORTED_PI[w]][0], pairs[SORTED_PI[q]][0]) and implies(pairs[SORTED_PI[w]][0] == pairs[SORTED_PI[q]][0], "
                "not res_lt(pairs[SORTED_PI[w]][1], pairs[SORTED_PI[q]][1]))), pats=[['SORTED_PI[q]', 'SORTED_PI[w]']])"]},
        {"when": "after", "at": "pairs = []", "label": "ghost-init2", "do": ["let SRC2 = empty('list[int]')", "let POS2 = empty('list[int]')"]},
        {"when": "after", "at": "residue_j =", "label": "pair-of-step",
         "do": [f"assert 0 <= i and i < j and j < len(coordinates) and residue_i == {_RM('i')} and residue_j == {_RM('j')}",
                f"use degrees_monotone(vangle(some({_RM('i')}.base_normal_vector), some({_RM('j')}.base_normal_vector)), "
                f"vangle(-some({_RM('i')}.base_normal_vector), some({_RM('j')}.base_normal_vector)))",
                f"use degrees_monotone(vangle(cvec({_RM('i')}, {_RM('j')}), some({_RM('i')}.base_normal_vector)), "
                f"vangle(cvec({_RM('i')}, {_RM('j')}), some({_RM('j')}.base_normal_vector)))"]},
        {"when": "before", "at": "continue", "loop": 2, "label": "a-skipped-pair-does-not-satisfy-the-definition",
         "do": [f"assert not stk({_RM('i')}, {_RM('j')}, 0 - EPS)", "let POS2 = snoc(POS2, 0 - 1)"]},
        {"when": "after", "at": "vector =", "label": "vector-nonzero", "do": ["use sumsq_pos(vector[0], vector[1], vector[2])"]},
        {"when": "after", "at": "pairs.append(", "label": "an-appended-pair-satisfies-the-definition", "do": [f"assert stk({_RM('i')}, {_RM('j')}, EPS)"]},
        {"when": "after", "at": "pairs.append(", "label": "an-appended-triple-lists-the-lower-residue-first-with-the-defined-topology",
         "do": [f"assert pair_loose(pairs[len(pairs) - 1], {_RM('i')}, {_RM('j')}) and pair_tight(pairs[len(pairs) - 1], {_RM('i')}, {_RM('j')})",
                "let SRC2 = snoc(SRC2, t)", "let POS2 = snoc(POS2, len(pairs) - 1)"]},
    ]


LEMMAS.update({
    # --- assumed properties of library functions (trusted base) ---
    # math.degrees is monotone; instantiated only for the two pairs of angles that the definition compares (a quantified
    # version with trigger {degrees(x), degrees(y)} is instantiated quadratically)
    "degrees_monotone": {"kind": "assumed-external", "params": ["x", "y"],
                         "ensures": ["implies(x <= y, degrees(x) <= degrees(y))", "implies(y <= x, degrees(y) <= degrees(x))"]},
    "sum_empty": {"kind": "assumed-external", "params": ["l"], "requires": ["len(l) == 0"], "ensures": ["sum(l) == 0"]},
    "sum_append": {"kind": "assumed-external", "params": ["old_", "new_", "v"],
                   "requires": ["len(new_) == len(old_) + 1", "forall(lambda q: implies(0 <= q and q < len(old_), new_[q] == old_[q]))", "new_[len(old_)] == v"],
                   "ensures": ["sum(new_) == sum(old_) + v"]},
    # --- explicit definitions of the abbreviations (UFUNS) ---
    "base_prefix_zero": {"kind": "definition", "params": ["r"],
                         "ensures": ["bcnt(r, 0) == 0 and bsx(r, 0) == 0 and bsy(r, 0) == 0 and bsz(r, 0) == 0"]},
    "base_prefix_step": {"kind": "definition", "params": ["r", "k"], "requires": ["0 <= k and k < len(base_names(r))"],
                         "ensures": ["ite(first_idx(r, base_names(r)[k]) >= 0, "
                                     "bcnt(r, k + 1) == bcnt(r, k) + 1 and bsx(r, k + 1) == bsx(r, k) + r.atoms[first_idx(r, base_names(r)[k])].x "
                                     "and bsy(r, k + 1) == bsy(r, k) + r.atoms[first_idx(r, base_names(r)[k])].y "
                                     "and bsz(r, k + 1) == bsz(r, k) + r.atoms[first_idx(r, base_names(r)[k])].z, "
                                     "bcnt(r, k + 1) == bcnt(r, k) and bsx(r, k + 1) == bsx(r, k) and bsy(r, k + 1) == bsy(r, k) and bsz(r, k + 1) == bsz(r, k))"]},
    "centroid_definition": {"kind": "definition", "params": ["r"],
                            "ensures": ["cnt_base(r) == bcnt(r, len(base_names(r)))",
                                        "implies(cnt_base(r) > 0, cenx(r) * cnt_base(r) == bsx(r, len(base_names(r))) and ceny(r) * cnt_base(r) == bsy(r, len(base_names(r))) "
                                        "and cenz(r) * cnt_base(r) == bsz(r, len(base_names(r))))"]},
    "residue_order_definition": {"kind": "definition", "params": ["a", "b"], "ensures": ["rlt(a, b) == res_key_lt(a, b)"]},
    "vangle_definition": {"kind": "definition", "params": ["u", "v"],
                          "ensures": ["vangle(u, v) == acos(dot(u, v) / norm(u) / norm(v))"]},
    # --- algebra, proved ---
    "sumsq_pos": {"kind": "smt", "params": ["a", "b", "c"], "shapes": ["real"] * 3, "requires": ["a != 0 or b != 0 or c != 0"],
                  "ensures": ["a * a + b * b + c * c > 0"]},
    "mean_unique": {"kind": "smt", "params": ["c", "n", "m", "s", "t", "r"], "shapes": ["real", "int", "int", "real", "real", "real"],
                    "requires": ["n == m", "s == t", "c * m == t", "n != 0", "r * n == 1"], "ensures": ["s * r == c"]},
})

CONTRACTS.update({"Residue3D.__lt__": res_lt_c, "angle_between_vectors": angle_c, "find_stackings": find_stackings_c})
