"""Sidecar contracts for the mmCIF leg of rnapolis/parser.py (C08): try_parse_int and the per-row decode of the atom_site
category in parse_cif - as a PREFIX contract (parse_cif@decode: symbolic execution stops in front of `if mod_residue:`, i.e.
after the atom_site loop; it proves that this part raises nothing under the precondition) and for the WHOLE function
(parse_cif@whole: the three loops behind are executed too, the decoded atoms reach filter_clashing_atoms untouched and the
returned atoms satisfy that function's verified contract; see parse_cif_whole_c for what it leaves open).

The mmCIF document.  The contract is stated relative to GHOST PARAMETERS naming what the mmcif reader returns for the file:
  NB     number of data blocks            HAS    the first block has a category `atom_site`
  ATTRS  its item names, in file order    ROWS   its rows (each a list of cell texts), in file order
  POS    the column index: item name -> position in ATTRS (exists for every ATTRS; precondition `column_index`)
The adapter is modelled as in contracts/transformer_c.py (IoAdapterPy() -> adapter object; readFile(path) -> list of
container objects; container.getObj(name) -> category object or None; category.getAttributeList() / getRowList()), but
with the two lists as immutable VALUES: parse_cif only reads them, so their object identity (which transformer_c needs) is not
observable here.  ext_readFile is the one trusted statement: "the document the reader returns is (NB, HAS, ATTRS, ROWS)".

Atom / ResidueLabel / ResidueAuth are the frozen dataclasses of rnapolis.tertiary / rnapolis.common -> immutable records with
the real field lists (as in contracts/parser_c.py).
"""
import z3 as _z3

from pyvc.values import Unsupported, VDict, VList, VOpt, VRef, to_z3, uid


def spec(f):
    return f


CLASSES = {
    "ResidueLabel": {"kind": "record", "fields": {"chain": "str", "number": "int", "name": "str"}},
    "ResidueAuth": {"kind": "record", "fields": {"chain": "str", "number": "int", "icode": "opt[str]", "name": "str"}},
    "Atom": {"kind": "record", "fields": {"entity_id": "opt[str]", "label": "opt[rec[ResidueLabel]]", "auth": "opt[rec[ResidueAuth]]",
                                          "model": "int", "name": "str", "x": "real", "y": "real", "z": "real",
                                          "occupancy": "opt[real]"}},
    # the open text file: only its path is used (cif.name) - the reader opens the file itself
    "IO": {"kind": "object", "fields": {"name": "str"}},
    "Adapter": {"kind": "object", "fields": {}},
    "Container": {"kind": "object", "fields": {"cat": "dict[str,Category]"}},
    "Category": {"kind": "object", "fields": {"attrs": "list[str]", "rows": "list[list[str]]"}},
}
INLINE = []
PRUNE_BRANCHES = False


# ------------------------------------------------------------------------------------------------ externals (trusted)
def _ext_int_ok(e, args, kw, node, st):
    """Python's grammar of int(str): [ws][+-]digits(_digits)*[ws] - the engine's own condition for int(s) not raising
    ValueError (pyvc/calls.py ext_int_of_str), term for term"""
    z = to_z3(args[0])
    digits = _z3.Plus(_z3.Range("0", "9"))
    ws = _z3.Star(_z3.Union(_z3.Re(" "), _z3.Re("\t"), _z3.Re("\n"), _z3.Re("\r"), _z3.Re("\x0b"), _z3.Re("\x0c")))
    us = _z3.Concat(digits, _z3.Star(_z3.Concat(_z3.Re("_"), digits)))
    return _z3.Or(_z3.InRe(z, digits), _z3.InRe(z, _z3.Concat(ws, _z3.Option(_z3.Union(_z3.Re("+"), _z3.Re("-"))), us, ws)))


def _ext_float_ok(e, args, kw, node, st):
    """float(s) does not raise ValueError: the engine's uninterpreted predicate py_float_ok"""
    return e.ufun("py_float_ok", _z3.StringSort(), _z3.BoolSort())(to_z3(args[0]))


def _ext_nat(e, args, kw, node, st):
    """the natural number a string of decimal digits denotes (SMT-LIB str.to_int; -1 for anything else)"""
    return _z3.StrToInt(to_z3(args[0]))


def _ext_adapter(e, args, kw, node, st):
    if args or kw:
        raise Unsupported("IoAdapterPy(...) with arguments")
    return e.construct("Adapter", [], {}, node, st)


def _ext_readFile(e, args, kw, node, st):
    """ASSUMED (the one statement about the mmcif reader): adapter.readFile(path) returns the list of the file's data blocks
    as new container objects; the document is the one the contract's ghost parameters name: NB blocks; the first block has a
    category called atom_site iff HAS, and then that category's item names are ATTRS and its rows are ROWS.  Nothing is said
    about any other category or block."""
    if len(args) != 2 or kw:
        raise Unsupported("readFile(path) only")
    need = ("NB", "HAS", "ATTRS", "ROWS")
    if any(n not in st.env for n in need):
        raise Unsupported("readFile: the contract under verification does not declare the ghost document (NB, HAS, ATTRS, ROWS)")
    nb, has, attrs, rows = (st.env[n] for n in need)
    site = e.construct("Category", [attrs, rows], {}, node, st)
    first = e.construct("Container", [], {"cat": _catalog(e, has, site)}, node, st)
    others = _z3.Const(uid("data.el"), _z3.ArraySort(_z3.IntSort(), _z3.IntSort()))
    a0 = to_z3(first.ident)
    q = _z3.Int(uid("q"))
    # further blocks: other (new or old) container objects - never looked at by parse_cif
    st.assume(_z3.ForAll([q], _z3.Implies(q >= 1, _z3.Select(others, q) >= 1)))
    e.assumed.append("mmcif reader returns the ghost document (contracts.parser_cif_c._ext_readFile)")
    return VList(to_z3(nb), VRef("Container", _z3.Store(others, 0, a0)), ("ref", "Container"))


def _catalog(e, has, site):
    """a catalog (name -> category object) that holds `site` under the name atom_site iff `has`; all other names: unknown"""
    dom = _z3.Const(uid("catalog.dom"), _z3.ArraySort(_z3.StringSort(), _z3.BoolSort()))
    vals = _z3.Const(uid("catalog.val"), _z3.ArraySort(_z3.StringSort(), _z3.IntSort()))
    name = _z3.StringVal("atom_site")
    return VDict(("str",), ("ref", "Category"), _z3.Store(dom, name, to_z3(has)), VRef("Category", _z3.Store(vals, name, to_z3(site.ident))))


def _ext_getObj(e, args, kw, node, st):
    """container.getObj(name): the category object of that name, None when the block has none"""
    d = e.heap_read(st, args[0], "cat")
    name = to_z3(args[1])
    return VOpt(_z3.Not(_z3.Select(d.dom, name)), VRef("Category", _z3.Select(d.vals.ident, name)))


def _ext_getAttributeList(e, args, kw, node, st):
    return e.heap_read(st, args[0], "attrs")


def _ext_getRowList(e, args, kw, node, st):
    return e.heap_read(st, args[0], "rows")


for _f in (_ext_getObj, _ext_getAttributeList, _ext_getRowList):
    _f.pure = True

EXTERNALS = {
    "spec.int_ok": _ext_int_ok, "spec.float_ok": _ext_float_ok, "spec.nat": _ext_nat,
    "mmcif.io.IoAdapterPy.IoAdapterPy": _ext_adapter,
    "Adapter.readFile": _ext_readFile,
    "Container.getObj": _ext_getObj,
    "Category.getAttributeList": _ext_getAttributeList, "Category.getRowList": _ext_getRowList,
}
SPEC_EXTERNALS = {"int_ok": "spec.int_ok", "float_ok": "spec.float_ok", "nat": "spec.nat"}

NUMERAL = "-?[0-9]+"
DIGITS = "[0-9]+"


# ------------------------------------------------------------------------------------------------ try_parse_int
@spec
def numeral_value(s):
    """the integer written by an optionally '-'-signed string of decimal digits"""
    return ite(matches(s, DIGITS), nat(s), 0 - nat(s[1:]))


LEMMAS = {
    # regular-language inclusion: an optionally '-'-signed digit string is an int literal of Python's grammar
    "numeral_is_int_literal": {"kind": "smt", "params": ["t"], "shapes": ["str"],
                               "ensures": ["implies(matches(t, NUMERAL), int_ok(t))"]},
    # a numeral that is not a plain digit string is '-' followed by a digit string
    "signed_numeral_shape": {"kind": "smt", "params": ["t"], "shapes": ["str"],
                             "ensures": ["implies(matches(t, NUMERAL) and not matches(t, DIGITS), t.startswith('-') and matches(t[1:], DIGITS))"]},
}


class try_parse_int_c:
    """int(s) for a numeral, None for any other text; called with None (an absent item) it raises TypeError: int(None) is not
    a ValueError, so the `except ValueError` does not catch it"""
    params = {"s": "opt[str]"}
    requires = []
    returns = "opt[int]"
    raises = {"TypeError": "s is None"}
    raises_exact = ["TypeError"]
    modifies = []
    ensures = [
        # an integer numeral, including a leading '-': exactly the number written
        "implies(s is not None and matches(some(s), NUMERAL), result is not None and some(result) == numeral_value(some(s)))",
        # None exactly for the texts int() rejects (in particular the mmCIF null markers '?' and '.')
        "implies(s is not None, (result is None) == (not int_ok(some(s))))",
        "implies(s is not None and (some(s) == '?' or some(s) == '.'), result is None)",
        # otherwise it is int(s) (for the literals that are not plain numerals - '+5', ' 5 ', '1_0' - whatever int() gives)
        "implies(s is not None and result is not None, some(result) == int(some(s)))",
    ]
    ensures_labels = {0: "a-numeral-incl-leading-minus-is-parsed-to-its-value", 1: "None-exactly-when-the-text-is-not-an-int-literal",
                      2: "null-markers-give-None", 3: "otherwise-int-of-the-text"}
    # the two regular-language facts about the (payload of the) argument, instantiated at entry: no anchor in the body, so a
    # rewritten body is still judged against the postconditions
    ghost_entry = ["use numeral_is_int_literal(some(s))", "use signed_numeral_shape(some(s))"]


# ------------------------------------------------------------------------------------------------ parse_cif: atom_site decode
ITEMS = ["label_entity_id", "label_asym_id", "label_seq_id", "label_comp_id", "auth_asym_id", "auth_seq_id", "auth_comp_id",
         "pdbx_PDB_ins_code", "pdbx_PDB_model_num", "label_atom_id", "Cartn_x", "Cartn_y", "Cartn_z", "occupancy"]


@spec
def has_item(A, s):
    return exists(lambda a: 0 <= a and a < len(A) and A[a] == s)


@spec
def cell(R, POS, s):
    """the text of item s in row R; None when the category has no such item"""
    return ite(s in POS, R[POS[s]], None)


@spec
def number_of(v):
    """Optional cell text -> Optional number: None for an absent item and for a cell that is not an int literal ('.', '?')"""
    return ite(v is not None and int_ok(some(v)), int(some(v)), None)


@spec
def label_of(R, POS):
    """(label_asym_id, label_seq_id, label_comp_id) when all three are there and the number is numeric, else None"""
    return ite(cell(R, POS, "label_asym_id") is not None and number_of(cell(R, POS, "label_seq_id")) is not None
               and cell(R, POS, "label_comp_id") is not None,
               rec(ResidueLabel, chain=some(cell(R, POS, "label_asym_id")), number=some(number_of(cell(R, POS, "label_seq_id"))),
                   name=some(cell(R, POS, "label_comp_id"))),
               None)


@spec
def icode_of(R, POS):
    """pdbx_PDB_ins_code; BOTH mmCIF null markers '?' and '.' (and an absent item) mean: no insertion code"""
    return ite(cell(R, POS, "pdbx_PDB_ins_code") is None or cell(R, POS, "pdbx_PDB_ins_code") == "?"
               or cell(R, POS, "pdbx_PDB_ins_code") == ".", None, cell(R, POS, "pdbx_PDB_ins_code"))


@spec
def auth_of(R, POS):
    """(auth_asym_id, auth_seq_id, insertion code, auth_comp_id) when chain, number, name are there and the number is numeric"""
    return ite(cell(R, POS, "auth_asym_id") is not None and number_of(cell(R, POS, "auth_seq_id")) is not None
               and cell(R, POS, "auth_comp_id") is not None,
               rec(ResidueAuth, chain=some(cell(R, POS, "auth_asym_id")), number=some(number_of(cell(R, POS, "auth_seq_id"))),
                   icode=icode_of(R, POS), name=some(cell(R, POS, "auth_comp_id"))),
               None)


@spec
def model_of(R, POS):
    """pdbx_PDB_model_num, 1 when the category has no such item"""
    return ite("pdbx_PDB_model_num" in POS, int(R[POS["pdbx_PDB_model_num"]]), 1)


@spec
def occupancy_of(R, POS):
    """occupancy; None for an absent item and for the null markers '?' and '.'"""
    return ite("occupancy" in POS and R[POS["occupancy"]] != "?" and R[POS["occupancy"]] != ".", float(R[POS["occupancy"]]), None)


@spec
def column_index(A, POS):
    """POS maps exactly the item names of A to their positions"""
    return (forall(lambda s: (s in POS) == has_item(A, s), sorts={"s": "str"})
            and forall(lambda s: implies(s in POS, 0 <= POS[s] and POS[s] < len(A) and A[POS[s]] == s), sorts={"s": "str"}))


@spec
def wf_row(R, POS):
    """a well-formed atom_site row: the coordinates parse; the model number (if the item exists) parses; the occupancy (if
    the item exists) parses or is a null marker; the row names its residue completely at least once - label (asym, numeric
    seq, comp) or auth (asym, numeric seq, comp)"""
    return (float_ok(R[POS["Cartn_x"]]) and float_ok(R[POS["Cartn_y"]]) and float_ok(R[POS["Cartn_z"]])
            and implies("pdbx_PDB_model_num" in POS, int_ok(R[POS["pdbx_PDB_model_num"]]))
            and implies("occupancy" in POS, R[POS["occupancy"]] == "?" or R[POS["occupancy"]] == "." or float_ok(R[POS["occupancy"]]))
            and (label_of(R, POS) is not None or auth_of(R, POS) is not None))


_ATOMS = "atoms_to_process"


def _all_rows(body):
    return f"forall(lambda j: implies(0 <= j and j < len({_ATOMS}), {body}))"


_CLAUSES = [
    ("label-chain-number-name-as-written-None-when-absent-or-non-numeric", f"{_ATOMS}[j].label == label_of(ROWS[j], POS)"),
    ("auth-chain-number-icode-name-as-written-both-null-markers-mean-no-insertion-code", f"{_ATOMS}[j].auth == auth_of(ROWS[j], POS)"),
    ("model-from-pdbx_PDB_model_num-default-1", f"{_ATOMS}[j].model == model_of(ROWS[j], POS)"),
    ("atom-name-is-label_atom_id", f"{_ATOMS}[j].name == ROWS[j][POS['label_atom_id']]"),
    ("coordinates-from-Cartn_x-y-z", f"{_ATOMS}[j].x == float(ROWS[j][POS['Cartn_x']]) and {_ATOMS}[j].y == float(ROWS[j][POS['Cartn_y']]) "
                                     f"and {_ATOMS}[j].z == float(ROWS[j][POS['Cartn_z']])"),
    ("occupancy-None-for-null-markers", f"{_ATOMS}[j].occupancy == occupancy_of(ROWS[j], POS)"),
    ("entity-id-from-label_entity_id", f"{_ATOMS}[j].entity_id == cell(ROWS[j], POS, 'label_entity_id')"),
]


class io_seek_c:
    """assumed: seek(0) rewinds the text file; no effect the code under contract can observe"""
    params = {"self": "IO", "pos": "int"}
    requires = []
    ensures = []
    raises = []
    modifies = []


# ---- the callee filter_clashing_atoms: its contract is VERIFIED under contracts/parser_c.py (targets filter_clashing_atoms and
# filter_clashing_atoms@single of C08); here it is used at the call site.  The clauses are that contract's own list; the
# vocabulary they are written in is copied from parser_c.py and checked at import to be the same text
from contracts import parser_c as _PC  # noqa: E402

UFUNS = {"within": _PC.UFUNS["within"]}


@spec
def close_atoms(a, b, r):
    """the atoms a, b are at distance <= r"""
    return within(a.x, a.y, a.z, b.x, b.y, b.z, r)


@spec
def akey(a):
    """the duplicate key of filter_clashing_atoms: (label, auth, name)"""
    return (a.label, a.auth, a.name)


@spec
def occ0(a):
    """`occupancy or 0.0`"""
    return ite(a.occupancy is None, 0.0, some(a.occupancy))


@spec
def same_slot(a, b):
    """same (model, label, auth, name): the two atoms are copies of one atom"""
    return akey(a) == akey(b) and a.model == b.model


@spec
def G_from_input(R, atoms):
    return forall(lambda r: implies(0 <= r and r < len(R), exists(lambda t: 0 <= t and t < len(atoms) and R[r] == atoms[t])))


@spec
def G_one_per_slot(R):
    return forall(lambda r, r2: implies(0 <= r and r < r2 and r2 < len(R), not same_slot(R[r], R[r2])))


@spec
def G_highest(R, atoms):
    return forall(lambda r, t: implies(0 <= r and r < len(R) and 0 <= t and t < len(atoms) and same_slot(atoms[t], R[r]), occ0(atoms[t]) <= occ0(R[r])))


@spec
def G_no_clash(R, d):
    return forall(lambda r, r2: implies(0 <= r and r < r2 and r2 < len(R) and R[r].model == R[r2].model
                                        and R[r].occupancy is not None and R[r2].occupancy is not None,
                                        not close_atoms(R[r], R[r2], d) or not close_atoms(R[r2], R[r], d)))


def _same_vocabulary():
    import inspect
    return all(inspect.getsource(getattr(_PC, n)) == inspect.getsource(globals()[n])
               for n in ("close_atoms", "akey", "occ0", "same_slot", "G_from_input", "G_one_per_slot", "G_highest", "G_no_clash"))


assert _same_vocabulary(), "the filter_clashing_atoms vocabulary must be the text of contracts/parser_c.py"
assert CLASSES["Atom"] == _PC.CLASSES["Atom"] and CLASSES["ResidueLabel"] == _PC.CLASSES["ResidueLabel"] \
    and CLASSES["ResidueAuth"] == _PC.CLASSES["ResidueAuth"]


class filter_clashing_atoms_c:
    """callee view: the clauses and the exceptional exit of the contract verified under contracts/parser_c.py (ensures of
    filter_clashing_atoms; ValueError exactly for an empty atom list: filter_clashing_atoms@single)"""
    params = {"atoms": "list[rec[Atom]]", "clash_distance": "real"}
    defaults = {"clash_distance": 0.5}
    requires = list(_PC.filter_clashing_atoms_c.requires)
    returns = "list[rec[Atom]]"
    ensures = list(_PC.filter_clashing_atoms_c.ensures)
    raises = {"ValueError": "len(atoms) == 0"}
    modifies = []


assert filter_clashing_atoms_c.requires == [] and filter_clashing_atoms_c.params == _PC.filter_clashing_atoms_c.params \
    and filter_clashing_atoms_c.raises == _PC.filter_clashing_atoms_c.raises


def _ext_replace(e, args, kw, node, st):
    """str.replace(old, new): a deterministic function of its three arguments (uninterpreted py_replace); nothing else assumed.
    Only the entity_poly loop uses it (sequence_by_entity), about which no clause is stated"""
    if len(args) != 3 or kw:
        raise Unsupported("str.replace(old, new) only")
    return e.ufun("py_replace", _z3.StringSort(), _z3.StringSort(), _z3.StringSort(), _z3.StringSort())(*[to_z3(a) for a in args])


EXTERNALS["str.replace"] = _ext_replace


class parse_cif_decode_c:
    """PREFIX contract (stop_before): parse_cif up to the end of the atom_site loop."""
    params = {"cif": "IO"}
    ghost_params = {"NB": "int", "HAS": "bool", "ATTRS": "list[str]", "ROWS": "list[list[str]]", "POS": "dict[str,int]"}
    requires = [
        "NB >= 0",
        # a well-formed mmCIF category: item names pairwise different, every row has one cell per item
        "forall(lambda a, b: implies(0 <= a and a < b and b < len(ATTRS), ATTRS[a] != ATTRS[b]))",
        "forall(lambda r: implies(0 <= r and r < len(ROWS), len(ROWS[r]) == len(ATTRS)))",
        "column_index(ATTRS, POS)",
        # items parse_cif reads unconditionally: row_dict['label_atom_id' / 'Cartn_x' / ..] (KeyError otherwise) and
        # try_parse_int(row_dict.get('label_seq_id' / 'auth_seq_id')) (TypeError for an absent item: int(None))
        "'label_atom_id' in POS and 'Cartn_x' in POS and 'Cartn_y' in POS and 'Cartn_z' in POS and 'label_seq_id' in POS and 'auth_seq_id' in POS",
        "forall(lambda r: implies(0 <= r and r < len(ROWS), wf_row(ROWS[r], POS)))",
    ]
    # no exception from the atom_site loop; a file without a data block reaches filter_clashing_atoms([]) (behind the prefix),
    # which raises ValueError (candidate finding recorded under C08: scipy's KDTree refuses an empty coordinate array)
    raises = {"ValueError": "NB == 0"}
    raises_exact = ["ValueError"]
    modifies = []
    stop_before = "if mod_residue:"
    ensures = []
    stop_ensures = (["implies(NB > 0 and HAS, len(atoms_to_process) == len(ROWS))",
                     "implies(not (NB > 0 and HAS), len(atoms_to_process) == 0)"]
                    + [f"implies(NB > 0 and HAS, {_all_rows(body)})" for _, body in _CLAUSES])
    stop_ensures_labels = {0: "one-atom-per-atom_site-row-in-file-order", 1: "no-atom_site-category-no-atoms"}
    stop_ensures_labels.update({2 + k: lab for k, (lab, _) in enumerate(_CLAUSES)})
    locals = {"atoms_to_process": "list[rec[Atom]]"}
    loops = {0: {"index": "i", "inv": [f"len({_ATOMS}) == i"] + [_all_rows(body) for _, body in _CLAUSES],
                 "labels": {k: lab for k, lab in enumerate(["one-atom-per-row"] + [lab for lab, _ in _CLAUSES])}}}
    _DICT_FACTS = [f"({n!r} in row_dict) == ({n!r} in POS) and implies({n!r} in POS, row_dict[{n!r}] == row[POS[{n!r}]])" for n in ITEMS]
    ghost = [
        # what the dict built from (item names, row) holds, item by item: the row's cell at the item's column.  Each fact is
        # proved from the characterisation of dict(zip(..)); then only their conjunction is kept (the quantified facts about the
        # dict are dropped - dropping hypotheses is sound)
        {"when": "before", "at": "row_dict = dict(zip(atom_site.getAttributeList(), row))", "loop": 0, "label": "row-dict", "do": ["mark D"]},
        {"when": "after", "at": "row_dict = dict(zip(atom_site.getAttributeList(), row))", "loop": 0, "label": "row-dict-holds-the-row's-cells",
         "do": [f"assert {f}" for f in _DICT_FACTS] + ["assert wf_row(row, POS)", "summarize D as wf_row(row, POS) and " + " and ".join(f"({f})" for f in _DICT_FACTS)]},
        # the atom about to be appended is the decode of this row, clause by clause (ground facts; the invariants follow by array reasoning)
        {"when": "before", "at": "atoms_to_process.append(", "loop": 0, "label": "label-of-this-row", "do": ["assert label == label_of(row, POS)"]},
        {"when": "before", "at": "atoms_to_process.append(", "loop": 0, "label": "auth-of-this-row-both-null-markers-mean-no-insertion-code",
         "do": ["assert auth == auth_of(row, POS)"]},
        {"when": "before", "at": "atoms_to_process.append(", "loop": 0, "label": "model-of-this-row-default-1", "do": ["assert model == model_of(row, POS)"]},
        {"when": "before", "at": "atoms_to_process.append(", "loop": 0, "label": "name-and-coordinates-of-this-row",
         "do": ["assert atom_name == row[POS['label_atom_id']] and x == float(row[POS['Cartn_x']]) and y == float(row[POS['Cartn_y']]) and z == float(row[POS['Cartn_z']])"]},
        {"when": "before", "at": "atoms_to_process.append(", "loop": 0, "label": "occupancy-and-entity-of-this-row",
         "do": ["assert occupancy == occupancy_of(row, POS) and label_entity_id == cell(row, POS, 'label_entity_id')"]},
    ]


def _over_D(text):
    return text.replace(_ATOMS, "D")


class parse_cif_whole_c(parse_cif_decode_c):
    """The WHOLE function (no stop_before).  D (ghost result) = atoms_to_process when the call of filter_clashing_atoms is
    reached; the decode clauses of parse_cif@decode are stated for D as postconditions, and the returned atoms result[0] satisfy
    filter_clashing_atoms' contract with respect to D.  The three loops behind the atom_site loop (pdbx_struct_mod_residue,
    entity_poly, entity) are executed symbolically: none of them assigns or mutates atoms_to_process (the engine's loop
    analysis havocs only what a loop body writes), `modified` is a dict keyed by records of two classes
    (rec[ResidueLabel,ResidueAuth]).  Nothing is stated about the three other components of the result.
    Exceptions: ValueError exactly when no atom is decoded (no data block, no atom_site category or no row:
    filter_clashing_atoms([]) raises it, see contracts/parser_c.py); TypeError is ALLOWED without a stated
    condition - try_parse_int(None) in the pdbx_struct_mod_residue loop raises it when that category lacks label_seq_id or
    auth_seq_id (the ghost document does not describe that category); that the atom_site part raises no TypeError under the
    precondition is what parse_cif@decode proves."""
    stop_before = None
    stop_ensures = []
    stop_ensures_labels = {}
    # ValueError: filter_clashing_atoms([]) - exactly when no atom was decoded (no data block, no atom_site category, no row)
    raises = {"ValueError": "not (NB > 0 and HAS and len(ROWS) > 0)", "TypeError": "?"}
    raises_exact = ["ValueError"]
    returns = "tuple[list[rec[Atom]],dict[rec[ResidueLabel,ResidueAuth],str],dict[str,str],dict[str,bool]]"
    ghost_returns = {"D": "list[rec[Atom]]"}
    ensures = ([_over_D(c) for c in parse_cif_decode_c.stop_ensures]
               + ["G_from_input(result[0], D) and G_one_per_slot(result[0])", "G_highest(result[0], D)", "G_no_clash(result[0], 0.5)"])
    ensures_labels = dict(parse_cif_decode_c.stop_ensures_labels)
    ensures_labels.update({len(parse_cif_decode_c.stop_ensures): "returned-atoms-are-decoded-atoms-one-per-model-residue-and-name",
                           len(parse_cif_decode_c.stop_ensures) + 1: "the-highest-occupancy-copy-is-returned",
                           len(parse_cif_decode_c.stop_ensures) + 2: "of-two-returned-atoms-of-a-model-within-0.5-A-only-one"})
    locals = {"atoms_to_process": "list[rec[Atom]]", "modified": "dict[rec[ResidueLabel,ResidueAuth],str]",
              "sequence_by_entity": "dict[str,str]", "is_nucleic_acid_by_entity": "dict[str,bool]"}
    loops = dict(parse_cif_decode_c.loops)
    loops.update({1: {"inv": []}, 2: {"inv": []}, 3: {"inv": []}})
    ghost_entry = ["let D = empty('list[rec[Atom]]')"]
    ghost = parse_cif_decode_c.ghost + [
        {"when": "before", "at": "atoms = filter_clashing_atoms(", "label": "decoded", "do": ["let D = atoms_to_process"]}]


CONTRACTS = {
    "try_parse_int": try_parse_int_c,
    "parse_cif@decode": parse_cif_decode_c,
    "parse_cif@whole": parse_cif_whole_c,
    "IO.seek": io_seek_c,
    "filter_clashing_atoms": filter_clashing_atoms_c,
}
