"""Sidecar contracts for rnapolis/common.py (bound to the real source by AST on every run).

Vocabulary (spec functions are restricted Python, inlined symbolically by the engine):
  E = self.entries (list of Entry references; fields index_, sequence (one character), pair)
  R = regions: list of (start, end, length);  O = orders: level per region
"""


def spec(f):
    return f


OPEN = "([{<ABCDEFGHIJKLMNOPQRSTUVWXYZ"
CLOSE = ")]}>abcdefghijklmnopqrstuvwxyz"

CLASSES = {
    "Entry": {"kind": "object", "fields": {"index_": "int", "sequence": "char", "pair": "int"}},
    "BpSeq": {"kind": "object", "fields": {"entries": "list[Entry]", "pairs": "dict[int,int]"}},
    "DotBracket": {"kind": "object", "fields": {"sequence": "cstr", "structure": "cstr", "pairs": "list[tuple[int,int]]"}},
}

INLINE = ["Entry.__getitem__", "Entry.__len__", "BpSeq.paired"]

# uninterpreted spec functions (definitional; characterised by the axioms in LEMMAS marked kind="definition")
UFUNS = {
    "FC": (["int"], "int"),          # first-come-first-served level of region a (w.r.t. the ghost regions R)
    "levels30": (["int"], "bool"),   # "the structure needs at most 30 bracket levels under FCFS" (property quantifier)
    "opench": (["int"], "int"),      # OPEN[l] as code point
    "closech": (["int"], "int"),
    "taken": (["int", "int"], "bool"),
}


@spec
def crossing(k, l, m, n):
    return (k < m and m < l and l < n) or (m < k and k < n and n < l)


@spec
def valid(E):
    return forall(lambda i: implies(0 <= i and i < len(E),
                                    E[i].index_ == i + 1 and 0 <= E[i].pair and E[i].pair <= len(E) and E[i].pair != i + 1
                                    and implies(E[i].pair > 0, E[E[i].pair - 1].pair == i + 1)))


@spec
def stems_ok(E, S):
    """postcondition of BpSeq.__stems_entries: stems are runs of stacked 5'->3' pairs of E, ordered by start"""
    return (len(S) >= 0
            and forall(lambda a: implies(0 <= a and a < len(S),
                                         len(S[a]) >= 1 and 1 <= S[a][0].index_ and S[a][0].index_ + len(S[a]) - 1 < S[a][0].pair - len(S[a]) + 1
                                         and S[a][0].pair <= len(E)))
            and forall(lambda a, t: implies(0 <= a and a < len(S) and 0 <= t and t < len(S[a]),
                                            S[a][t] is E[S[a][0].index_ + t - 1]
                                            and S[a][t].pair == S[a][0].pair - t))
            and forall(lambda a, b: implies(0 <= a and a < b and b < len(S),
                                            S[a][0].index_ + len(S[a]) - 1 < S[b][0].index_)))


@spec
def regions_of(S, R):
    return len(R) == len(S) and forall(lambda a: implies(0 <= a and a < len(S),
                                                          R[a][0] == S[a][0].index_ and R[a][1] == S[a][0].pair and R[a][2] == len(S[a])))


@spec
def regions_ok(R, N):
    """what __make_dot_bracket needs: every strand inside 1..N, strands of one region do not meet"""
    return forall(lambda a: implies(0 <= a and a < len(R),
                                    R[a][2] >= 1 and 1 <= R[a][0] and R[a][0] + R[a][2] - 1 < R[a][1] - R[a][2] + 1 and R[a][1] <= N))


@spec
def FC_def(R):
    """characteristic property of the first-come-first-served level function (exists uniquely by recursion on a);
    taken(a, l) abbreviates: some earlier stem crossing stem a sits on level l"""
    return (forall(lambda a, l: taken(a, l) == exists(lambda b: 0 <= b and b < a and crossing(R[a][0], R[a][1], R[b][0], R[b][1]) and FC(b) == l),
                   pats=["taken(a, l)"])
            and forall(lambda a: implies(0 <= a and a < len(R), FC(a) >= 0 and not taken(a, FC(a))), pats=["FC(a)"])
            and forall(lambda a, l: implies(0 <= a and a < len(R) and 0 <= l and l < FC(a), taken(a, l)), pats=["taken(a, l)"]))


LEMMAS = {
    "FC_definition": {"kind": "definition", "params": ["R"], "ensures": ["FC_def(R)"]},
    "levels30_definition": {"kind": "definition", "params": ["s", "R"],
                            "ensures": ["implies(levels30(s), forall(lambda a: implies(0 <= a and a < len(R), FC(a) < 30)))"]},
}


class Entry_getitem:
    params = {"self": "Entry", "item": "int"}
    requires = []
    raises = {"IndexError": "not (item == 0 or item == 1 or item == 2)"}
    ensures = []


class stems_entries:
    target = "BpSeq.__stems_entries"
    params = {"self": "BpSeq"}
    requires = ["valid(self.entries)"]
    returns = "list[list[Entry]]"
    ensures = ["stems_ok(self.entries, result)"]
    modifies = []


class make_dot_bracket:
    target = "BpSeq.__make_dot_bracket"
    params = {"self": "BpSeq", "regions": "list[tuple[int,int,int]]", "orders": "list[int]"}
    requires = ["regions_ok(regions, len(self.entries))",
                "len(orders) >= len(regions)",
                "forall(lambda a: implies(0 <= a and a < len(regions), 0 <= orders[a] and orders[a] < 30))"]
    returns = "DotBracket"
    ensures = ["len(result.structure) == len(self.entries)", "fresh(result)"]
    modifies = []


class fcfs:
    target = "BpSeq.fcfs"
    params = {"self": "BpSeq"}
    requires = ["valid(self.entries)", "levels30(self)"]
    returns = "DotBracket"
    ensures = ["len(result.structure) == len(self.entries)"]
    raises = []
    modifies = []
    locals = {}
    loops = {
        0: ["1 <= i",
            "len(orders) == len(R)",
            "forall(lambda a: implies(0 <= a and a < i and a < len(R), orders[a] == FC(a)))",
            "forall(lambda a: implies(i <= a and a < len(R), orders[a] == 0))"],
        1: ["len(available) == 30", "len(orders) == len(R)",
            "forall(lambda lv: implies(0 <= lv and lv < 30, available[lv] == (not exists(lambda b: 0 <= b and b < j and crossing(k, l, R[b][0], R[b][1]) and orders[b] == lv))))",
            ],
    }
    ghost = [
        {"when": "after", "at": "regions =", "do": ["let R = regions", "use FC_definition(R)", "use levels30_definition(self, R)"]},
        {"when": "before", "at": "order = next(", "label": "level-free", "do": ["assert 0 <= FC(i) and FC(i) < 30 and available[FC(i)]",
                "forall lv | assert implies(0 <= lv and lv < FC(i), taken(i, lv) and not available[lv])"]},
        {"when": "after", "at": "order = next(", "label": "next-is-FC", "do": ["assert order == FC(i)"]},
    ]


CONTRACTS = {
    "BpSeq.__stems_entries": stems_entries,
    "BpSeq.__make_dot_bracket": make_dot_bracket,
    "BpSeq.fcfs": fcfs,
}
