"""Sidecar contracts for rnapolis/common.py (bound to the real source by AST on every run).

Vocabulary (spec functions are restricted Python, inlined symbolically by the engine):
  E = self.entries (list of Entry references; fields index_, sequence (one character), pair)
  R = regions: list of (start, end, length);  O = orders: level per region
"""


def spec(f):
    return f


OPEN = "([{<ABCDEFGHIJKLMNOPQRSTUVWXYZ"
CLOSE = ")]}>abcdefghijklmnopqrstuvwxyz"

CLASSES = {
    "Entry": {"kind": "object", "fields": {"index_": "int", "sequence": "char", "pair": "int"}},
    "BpSeq": {"kind": "object", "fields": {"entries": "list[Entry]", "pairs": "dict[int,int]"}, "derived": ["pairs"]},
    "DotBracket": {"kind": "object", "fields": {"sequence": "cstr", "structure": "cstr", "pairs": "list[tuple[int,int]]"}, "derived": ["pairs"]},
}

SPEC_CONSTS = {"OPEN": OPEN, "CLOSE": CLOSE}
INLINE = ["Entry.__getitem__", "Entry.__len__", "BpSeq.paired"]

# uninterpreted spec functions (definitional; characterised by the axioms in LEMMAS marked kind="definition")
UFUNS = {
    "FC": (["int"], "int"),          # first-come-first-served level of region a (w.r.t. the ghost regions R)
    "levels30": (["int"], "bool"),   # "the structure needs at most 30 bracket levels under FCFS" (property quantifier)
    "opench": (["int"], "int"),      # OPEN[l] as code point
    "closech": (["int"], "int"),
    "taken": (["int", "int"], "bool"),
}


@spec
def crossing(k, l, m, n):
    return (k < m and m < l and l < n) or (m < k and k < n and n < l)


@spec
def valid(E):
    return forall(lambda i: implies(0 <= i and i < len(E),
                                    E[i].index_ == i + 1 and 0 <= E[i].pair and E[i].pair <= len(E) and E[i].pair != i + 1
                                    and implies(E[i].pair > 0, E[E[i].pair - 1].pair == i + 1)))


@spec
def stems_ok(E, S):
    """postcondition of BpSeq.__stems_entries: stems are runs of stacked 5'->3' pairs of E, ordered by start"""
    return (len(S) >= 0
            and forall(lambda a: implies(0 <= a and a < len(S),
                                         len(S[a]) >= 1 and 1 <= S[a][0].index_ and S[a][0].index_ + len(S[a]) - 1 < S[a][0].pair - len(S[a]) + 1
                                         and S[a][0].pair <= len(E)))
            and forall(lambda a, t: implies(0 <= a and a < len(S) and 0 <= t and t < len(S[a]),
                                            S[a][t] is E[S[a][0].index_ + t - 1]
                                            and S[a][t].pair == S[a][0].pair - t))
            and forall(lambda a, x: implies(0 <= a and a < len(S) and S[a][0].index_ - 1 <= x and x <= S[a][0].index_ + len(S[a]) - 2,
                                            E[x] is S[a][x - (S[a][0].index_ - 1)]))
            and forall(lambda a, b: implies(0 <= a and a < b and b < len(S),
                                            S[a][0].index_ + len(S[a]) - 1 < S[b][0].index_)))


@spec
def qual(e):
    """entry is the 5' partner of a pair (what BpSeq.paired(only5to3=True) keeps)"""
    return e.pair != 0 and e.index_ < e.pair


@spec
def run_ok(E, T):
    """T is a run of stacked 5'->3' pairs occupying consecutive positions of E"""
    return (forall(lambda t: implies(0 <= t and t < len(T), T[t] is E[T[0].index_ + t - 1] and T[t].pair == T[0].pair - t and qual(T[t])))
            and forall(lambda x: implies(len(T) > 0 and T[0].index_ - 1 <= x and x <= T[0].index_ + len(T) - 2, E[x] is T[x - (T[0].index_ - 1)]))
            and implies(len(T) > 0, 1 <= T[0].index_ and T[0].index_ + len(T) - 1 <= len(E)))


@spec
def noqual(E, lo, hi):
    """no 5'->3' paired entry at the 0-based positions lo <= i < hi"""
    return forall(lambda i: implies(lo <= i and i < hi and 0 <= i and i < len(E), not qual(E[i])))


@spec
def after(T):
    """0-based position just behind the 5' strand of run T"""
    return T[0].index_ + len(T) - 1


@spec
def stems_cover(E, S):
    """every 5'->3' paired entry belongs to a stem: nothing paired 5'->3' lies before the first stem, between two
    consecutive stems, or behind the last one"""
    return (implies(len(S) == 0, noqual(E, 0, len(E)))
            and implies(len(S) > 0, noqual(E, 0, S[0][0].index_ - 1) and noqual(E, after(S[len(S) - 1]), len(E)))
            and forall(lambda a: implies(0 <= a and a + 1 < len(S), noqual(E, after(S[a]), S[a + 1][0].index_ - 1))))


@spec
def stems_inverse(E, S, GS):
    """ghost inverse of the stems: GS[x] is the stem whose 5' strand holds the 5'->3' paired position x"""
    return (len(GS) == len(E)
            and forall(lambda x: implies(0 <= x and x < len(E) and qual(E[x]), 0 <= GS[x] and GS[x] < len(S) and covered(x + 1, S[GS[x]]))))


@spec
def covered(i, T):
    """1-based index i lies on the 5' strand of run T"""
    return len(T) > 0 and T[0].index_ <= i and i <= T[0].index_ + len(T) - 1


@spec
def stems_maximal(E, S):
    """no stem can be extended by the pair stacked directly outside or inside it"""
    return forall(lambda a: implies(0 <= a and a < len(S),
                                    not (S[a][0].index_ >= 2 and E[S[a][0].index_ - 2].pair == S[a][0].pair + 1)
                                    and not (S[a][0].index_ + len(S[a]) - 1 < len(E)
                                             and qual(E[S[a][0].index_ + len(S[a]) - 1])
                                             and E[S[a][0].index_ + len(S[a]) - 1].pair == S[a][0].pair - len(S[a]))))


@spec
def regions_of(S, R):
    return len(R) == len(S) and forall(lambda a: implies(0 <= a and a < len(S),
                                                          R[a][0] == S[a][0].index_ and R[a][1] == S[a][0].pair and R[a][2] == len(S[a])))


@spec
def regions_ok(R, N):
    """what __make_dot_bracket needs: every strand inside 1..N, strands of one region do not meet"""
    return forall(lambda a: implies(0 <= a and a < len(R),
                                    R[a][2] >= 1 and 1 <= R[a][0] and R[a][0] + R[a][2] - 1 < R[a][1] - R[a][2] + 1 and R[a][1] <= N))


# 0-based strand intervals of region a = (start, end, length), 1-based start/end as in the code
@spec
def lo5(R, a):
    return R[a][0] - 1


@spec
def hi5(R, a):
    return R[a][0] + R[a][2] - 2


@spec
def lo3(R, a):
    return R[a][1] - R[a][2]


@spec
def hi3(R, a):
    return R[a][1] - 1


@spec
def regions_match(E, R):
    """R describes stems of E: stacked pairs (s+t, e-t), 5' strands in increasing order"""
    return (regions_ok(R, len(E))
            and forall(lambda a, x: implies(0 <= a and a < len(R) and lo5(R, a) <= x and x <= hi5(R, a), E[x].pair == R[a][1] - (x - lo5(R, a))))
            and forall(lambda a, b: implies(0 <= a and a < b and b < len(R), hi5(R, a) < lo5(R, b))))


@spec
def regions_cover(E, R, GS):
    """every 5'->3' paired position lies on the 5' strand of the region GS names (ghost inverse map)"""
    return (len(GS) == len(E)
            and forall(lambda x: implies(0 <= x and x < len(E) and qual(E[x]), 0 <= GS[x] and GS[x] < len(R) and lo5(R, GS[x]) <= x and x <= hi5(R, GS[x]))))


@spec
def downward(E, y):
    """the entry at 0-based position y is the 3' partner of a pair"""
    return E[y].pair != 0 and E[y].pair - 1 < y


@spec
def nodown(E, lo, hi):
    return forall(lambda y: implies(lo <= y and y < hi and 0 <= y and y < len(E), not downward(E, y)))


@spec
def lossless(E, P):
    """C01, 'decodes to exactly the structure's base pairs - nothing lost, nothing invented': the decoded list P holds
    pairs (5' position, 3' position) of E only, and - listing them by increasing 3' position - leaves out no 3' partner"""
    return (forall(lambda q: implies(0 <= q and q < len(P), 0 <= P[q][0] and P[q][0] < P[q][1] and P[q][1] < len(E)
                                     and E[P[q][0]].pair == P[q][1] + 1 and E[P[q][1]].pair == P[q][0] + 1))
            and forall(lambda q: implies(0 <= q and q + 1 < len(P), P[q][1] < P[q + 1][1] and nodown(E, P[q][1] + 1, P[q + 1][1])))
            and implies(len(P) > 0, nodown(E, 0, P[0][1]) and nodown(E, P[len(P) - 1][1] + 1, len(E)))
            and implies(len(P) == 0, nodown(E, 0, len(E))))


@spec
def apart(l1, h1, l2, h2):
    return h1 < l2 or h2 < l1


@spec
def strands_disjoint(R):
    """the 2*len(R) strand intervals are pairwise disjoint"""
    return forall(lambda a, b: implies(0 <= a and a < len(R) and 0 <= b and b < len(R) and a != b,
                                       apart(lo5(R, a), hi5(R, a), lo5(R, b), hi5(R, b))
                                       and apart(lo5(R, a), hi5(R, a), lo3(R, b), hi3(R, b))
                                       and apart(lo3(R, a), hi3(R, a), lo3(R, b), hi3(R, b))))


@spec
def on_strand(R, a, x):
    return (lo5(R, a) <= x and x <= hi5(R, a)) or (lo3(R, a) <= x and x <= hi3(R, a))


@spec
def painted(s, R, O, upto):
    """s carries OPEN[O[a]] on the 5' strand and CLOSE[O[a]] on the 3' strand of every region a < upto, '.' elsewhere"""
    return (forall(lambda a, x: implies(0 <= a and a < upto and lo5(R, a) <= x and x <= hi5(R, a), s[x] == OPEN[O[a]]))
            and forall(lambda a, x: implies(0 <= a and a < upto and lo3(R, a) <= x and x <= hi3(R, a), s[x] == CLOSE[O[a]]))
            and forall(lambda x: implies(0 <= x and x < len(s) and forall(lambda a: implies(0 <= a and a < upto, not on_strand(R, a, x))),
                                         s[x] == '.')))


@spec
def seq_of(E, s):
    return len(s) == len(E) and forall(lambda i: implies(0 <= i and i < len(E), s[i] == E[i].sequence))


@spec
def FC_def(R):
    """characteristic property of the first-come-first-served level function (exists uniquely by recursion on a);
    taken(a, l) abbreviates: some earlier stem crossing stem a sits on level l"""
    return (forall(lambda a, l: taken(a, l) == exists(lambda b: 0 <= b and b < a and crossing(R[a][0], R[a][1], R[b][0], R[b][1]) and FC(b) == l),
                   pats=["taken(a, l)"])
            and forall(lambda a: implies(0 <= a and a < len(R), FC(a) >= 0 and not taken(a, FC(a))), pats=["FC(a)"])
            and forall(lambda a, l: implies(0 <= a and a < len(R) and 0 <= l and l < FC(a), taken(a, l)), pats=["taken(a, l)"]))


LEMMAS = {
    # Lemma X (DESIGN appendix A): strands of two different stems of a valid structure do not meet. Proved for a fixed pair
    # of stems with the explicit witness x = the larger of the two lower ends (a common point of two overlapping intervals).
    "strands_apart": {"kind": "smt", "params": ["E", "R", "a", "b"], "shapes": ["list[Entry]", "list[tuple[int,int,int]]", "int", "int"],
                      "requires": ["valid(E)", "regions_match(E, R)"],
                      "steps": [
                          "let inr = 0 <= a and a < len(R) and 0 <= b and b < len(R) and a != b",
                          "assert implies(inr, apart(lo5(R, a), hi5(R, a), lo5(R, b), hi5(R, b)))",
                          # 5' strand of a against 3' strand of b
                          "let x = ite(lo5(R, a) >= lo3(R, b), lo5(R, a), lo3(R, b))",
                          "let ov = inr and not apart(lo5(R, a), hi5(R, a), lo3(R, b), hi3(R, b))",
                          "assert implies(ov, E[x].pair == R[a][1] - (x - lo5(R, a)))",
                          "assert implies(ov, E[R[b][0] + (hi3(R, b) - x) - 1].pair == R[b][1] - (hi3(R, b) - x))",
                          "assert implies(ov, E[x].pair == R[b][0] + (hi3(R, b) - x))",
                          "assert not ov",
                          # 3' strand of a against 3' strand of b
                          "let y = ite(lo3(R, a) >= lo3(R, b), lo3(R, a), lo3(R, b))",
                          "let ow = inr and not apart(lo3(R, a), hi3(R, a), lo3(R, b), hi3(R, b))",
                          "assert implies(ow, E[R[a][0] + (hi3(R, a) - y) - 1].pair == y + 1)",
                          "assert implies(ow, E[R[b][0] + (hi3(R, b) - y) - 1].pair == y + 1)",
                          "assert implies(ow, E[y].pair == R[a][0] + (hi3(R, a) - y) and E[y].pair == R[b][0] + (hi3(R, b) - y))",
                          "assert not ow"],
                      "ensures": ["implies(0 <= a and a < len(R) and 0 <= b and b < len(R) and a != b, "
                                  "apart(lo5(R, a), hi5(R, a), lo5(R, b), hi5(R, b)) and apart(lo5(R, a), hi5(R, a), lo3(R, b), hi3(R, b)) "
                                  "and apart(lo3(R, a), hi3(R, a), lo3(R, b), hi3(R, b)))"]},
    "FC_definition": {"kind": "definition", "params": ["R"], "ensures": ["FC_def(R)"]},
    "levels30_definition": {"kind": "definition", "params": ["s", "R"],
                            "ensures": ["implies(levels30(s), forall(lambda a: implies(0 <= a and a < len(R), FC(a) < 30)))"]},
}


class Entry_getitem:
    params = {"self": "Entry", "item": "int"}
    requires = []
    raises = {"IndexError": "not (item == 0 or item == 1 or item == 2)"}
    ensures = []


class stems_entries:
    """C01/C07: the stems are exactly the maximal runs of directly stacked 5'->3' pairs, in 5' order"""
    target = "BpSeq.__stems_entries"
    params = {"self": "BpSeq"}
    requires = ["valid(self.entries)"]
    returns = "list[list[Entry]]"
    ghost_returns = {"GS": "list[int]"}
    ensures = ["stems_ok(self.entries, result)",
               "stems_cover(self.entries, result)",
               "stems_maximal(self.entries, result)",
               "stems_inverse(self.entries, result, GS)"]
    ensures_labels = {0: "runs-of-stacked-pairs", 1: "every-pair-in-a-stem", 2: "maximal", 3: "every-pair-in-the-stem-GS-names"}
    ensures_in_variant = {3: "inverse"}  # proved by stems_entries_inverse below (same function, leaner invariants)
    raises = []
    modifies = []
    locals = {"stems": "list[list[Entry]]", "entries": "list[Entry]"}
    loops = {0: {"index": "p", "inv": [
        "len(stems) >= 0 and len(entries) >= 0",
        "stems_ok(self.entries, stems)",
        "run_ok(self.entries, entries)",
        # the open run lies below the cursor and nothing paired 5'->3' sits between it and the cursor
        "implies(len(entries) > 0, after(entries) <= p and noqual(self.entries, after(entries), p))",
        "implies(len(entries) == 0, len(stems) == 0 and noqual(self.entries, 0, p))",
        # closed stems: gaps between them are free of 5'->3' pairs; the open run follows the last closed stem
        "implies(len(stems) > 0, noqual(self.entries, 0, stems[0][0].index_ - 1))",
        "forall(lambda a: implies(0 <= a and a + 1 < len(stems), noqual(self.entries, after(stems[a]), stems[a + 1][0].index_ - 1)))",
        "implies(len(stems) > 0, len(entries) > 0 and after(stems[len(stems) - 1]) < entries[0].index_ and noqual(self.entries, after(stems[len(stems) - 1]), entries[0].index_ - 1))",
        "implies(len(stems) == 0 and len(entries) > 0, noqual(self.entries, 0, entries[0].index_ - 1))",
        # maximality so far: closed stems both ways, the open run backwards
        "stems_maximal(self.entries, stems)",
        "implies(len(entries) > 0, not (entries[0].index_ >= 2 and self.entries[entries[0].index_ - 2].pair == entries[0].pair + 1))",
    ]}}
    ghost = [
        {"when": "before", "at": "stems.append(", "loop": 0, "label": "closed-run-maximal",
         "do": ["assert entries[len(entries) - 1].index_ == after(entries) and entries[len(entries) - 1].pair == entries[0].pair - len(entries) + 1",
                "assert not (after(entries) < len(self.entries) and qual(self.entries[after(entries)]) and self.entries[after(entries)].pair == entries[0].pair - len(entries))"]},
        {"when": "after", "at": "entries = [", "loop": 0, "label": "new-run-maximal",
         "do": ["assert not (entry.index_ >= 2 and self.entries[entry.index_ - 2].pair == entry.pair + 1)"]},
        {"when": "before", "at": "if entries:", "label": "open-run-maximal",
         "do": ["assert implies(len(entries) > 0, not (after(entries) < len(self.entries) and qual(self.entries[after(entries)])))",
                # the facts about the open run that `stems_ok` of the final list needs, stated once before it is appended
                "assert implies(len(entries) > 0, entries[len(entries) - 1].index_ == after(entries) and entries[len(entries) - 1].pair == entries[0].pair - len(entries) + 1)",
                "assert implies(len(entries) > 0, 1 <= entries[0].index_ and entries[0].index_ + len(entries) - 1 < entries[0].pair - len(entries) + 1 and entries[0].pair <= len(self.entries))"]},
    ]


class stems_entries_inverse:
    """second contract on BpSeq.__stems_entries: the ghost inverse map GS (position -> index of its stem), maintained
    along the loop, proves the existence-free form of 'every 5'->3' pair lies in a stem'"""
    target = "BpSeq.__stems_entries"
    params = {"self": "BpSeq"}
    requires = ["valid(self.entries)"]
    returns = "list[list[Entry]]"
    ghost_returns = {"GS": "list[int]"}
    ensures = ["stems_inverse(self.entries, result, GS)"]
    ensures_labels = {0: "every-pair-in-the-stem-GS-names"}
    raises = []
    modifies = []
    locals = {"stems": "list[list[Entry]]", "entries": "list[Entry]"}
    ghost_entry = ["let GS = fill(len(self.entries), 0 - 1)"]
    loops = {0: {"index": "p", "inv": [
        "len(stems) >= 0 and len(entries) >= 0 and len(GS) == len(self.entries)",
        "forall(lambda a: implies(0 <= a and a < len(stems), len(stems[a]) >= 1))",
        # the open run occupies consecutive positions ending right below the last position taken
        "forall(lambda t: implies(0 <= t and t < len(entries), entries[t].index_ == entries[0].index_ + t))",
        "implies(len(entries) > 0, 1 <= entries[0].index_ and entries[0].index_ + len(entries) - 1 <= p)",
        "implies(len(entries) == 0, forall(lambda x: implies(0 <= x and x < p, not qual(self.entries[x]))))",
        # ghost inverse map: closed stems by their index, the open run by the index it will get
        "forall(lambda x: implies(0 <= x and x < p and qual(self.entries[x]), (0 <= GS[x] and GS[x] < len(stems) and covered(x + 1, stems[GS[x]])) or (GS[x] == len(stems) and covered(x + 1, entries))))",
    ]}}
    ghost = [
        {"when": "after", "at": "entries.append(", "loop": 0, "label": "GS-join", "do": ["let GS = upd(GS, p, len(stems))"]},
        {"when": "after", "at": "entries = [", "loop": 0, "label": "GS-start", "do": ["let GS = upd(GS, p, len(stems))"]},
    ]


class bpseq_sequence:
    target = "BpSeq.sequence"
    params = {"self": "BpSeq"}
    requires = []
    returns = "cstr"
    ensures = ["seq_of(self.entries, result)"]
    raises = []
    modifies = []


class db_from_string:
    target = "DotBracket.from_string"
    params = {"sequence": "cstr", "structure": "cstr"}
    requires = []
    returns = "DotBracket"
    raises = {"ValueError": "len(sequence) != len(structure)", "IndexError": "?"}
    ensures = ["fresh(result)", "result.sequence == sequence", "result.structure == structure",
               "decoded_wf(result.pairs, structure, len(structure))"]
    modifies = []


@spec
def decoded_wf(P, s, upto):
    """what the decoder yields on ANY text: pairs of an opening and a later closing position, by increasing closing
    position, no position used twice"""
    return (forall(lambda q: implies(0 <= q and q < len(P), 0 <= P[q][0] and P[q][0] < P[q][1] and P[q][1] < upto
                                     and s[P[q][0]] in OPEN and s[P[q][1]] in CLOSE))
            and forall(lambda q, r: implies(0 <= q and q < r and r < len(P), P[q][1] < P[r][1] and P[q][0] != P[r][0])))


class db_post_init:
    """general contract of the decoder (any text): may raise IndexError (closing bracket without an opening one);
    otherwise the pairs are well-formed and no position occurs twice"""
    target = "DotBracket.__post_init__"
    params = {"self": "DotBracket"}
    requires = []
    raises = ["IndexError"]
    ensures = ["decoded_wf(self.pairs, self.structure, len(self.structure))"]
    ensures_labels = {0: "pairs-are-distinct-ordered-positions"}
    modifies = ["DotBracket.pairs@self"]
    locals = {"begins": "dict[char,list[int]]", "matches": "dict[char,char]"}
    loops = {0: {"touches": {"DotBracket.pairs": ["self"]}, "inv": [
        "len(self.pairs) >= 0",
        "forall(lambda ch: implies(ch in OPEN, ch in begins and len(begins[ch]) >= 0), sorts={'ch': 'char'})",
        # every stack holds, in increasing order, earlier positions that carry its own bracket character ...
        "forall(lambda ch, u: implies(ch in OPEN and 0 <= u and u < len(begins[ch]), 0 <= begins[ch][u] and begins[ch][u] < i and self.structure[begins[ch][u]] == ch), sorts={'ch': 'char'})",
        "forall(lambda ch, u, v: implies(ch in OPEN and 0 <= u and u < v and v < len(begins[ch]), begins[ch][u] < begins[ch][v]), sorts={'ch': 'char'})",
        # ... none of which has been paired yet
        "forall(lambda ch, u, q: implies(ch in OPEN and 0 <= u and u < len(begins[ch]) and 0 <= q and q < len(self.pairs), self.pairs[q][0] != begins[ch][u]), sorts={'ch': 'char'})",
        "decoded_wf(self.pairs, self.structure, i)"]}}


@spec
def proper(R, O):
    """crossing stems sit on different levels; levels are bracket types"""
    return (forall(lambda a: implies(0 <= a and a < len(R), 0 <= O[a] and O[a] < 30))
            and forall(lambda a, b: implies(0 <= a and a < len(R) and 0 <= b and b < len(R) and crossing(R[a][0], R[a][1], R[b][0], R[b][1]), O[a] != O[b])))


@spec
def partner(R, a, x):
    """0-based 3' partner of the 0-based position x on the 5' strand of region a"""
    return hi3(R, a) - (x - lo5(R, a))


@spec
def on5(R, a, x):
    return lo5(R, a) <= x and x <= hi5(R, a)


@spec
def on3(R, a, x):
    return lo3(R, a) <= x and x <= hi3(R, a)


@spec
def region_map(G, R, N, upto):
    """ghost inverse of the strands: G[x] is the region (< upto) whose 5' or 3' strand holds position x, -1 if none"""
    return (len(G) == N
            and forall(lambda x: implies(0 <= x and x < N, G[x] == -1 or (0 <= G[x] and G[x] < upto and on_strand(R, G[x], x))))
            and forall(lambda a, x: implies(0 <= a and a < upto and 0 <= x and x < N and on_strand(R, a, x), G[x] == a)))


@spec
def painted_g(s, R, O, G):
    """the text s, position by position: '.' off the strands, OPEN / CLOSE of the region's level on its 5' / 3' strand"""
    return forall(lambda x: implies(0 <= x and x < len(s),
                                    s[x] == ite(G[x] == -1, '.', ite(on5(R, G[x], x), OPEN[O[G[x]]], CLOSE[O[G[x]]]))))


@spec
def noclose_g(R, G, lo, hi):
    """no position in [lo, hi) lies on a 3' strand"""
    return forall(lambda y: implies(lo <= y and y < hi and 0 <= y and y < len(G), not (G[y] >= 0 and on3(R, G[y], y))))


@spec
def decoded_g(P, R, G, upto):
    """P lists exactly the pairs (5' position, 3' position) of the regions whose 3' position is below `upto`, by increasing 3' position"""
    return (forall(lambda q: implies(0 <= q and q < len(P),
                                     0 <= P[q][1] and P[q][1] < upto and G[P[q][1]] >= 0 and on3(R, G[P[q][1]], P[q][1])
                                     and P[q][0] == lo5(R, G[P[q][1]]) + (hi3(R, G[P[q][1]]) - P[q][1])))
            and forall(lambda q: implies(0 <= q and q + 1 < len(P), P[q][1] < P[q + 1][1] and noclose_g(R, G, P[q][1] + 1, P[q + 1][1])))
            and implies(len(P) > 0, noclose_g(R, G, 0, P[0][1]) and noclose_g(R, G, P[len(P) - 1][1] + 1, upto))
            and implies(len(P) == 0, noclose_g(R, G, 0, upto)))


@spec
def noclose(R, lo, hi):
    """no position in [lo, hi) lies on the 3' strand of a region"""
    return forall(lambda y, a: implies(lo <= y and y < hi and 0 <= a and a < len(R), not on3(R, a, y)))


@spec
def decoded(P, R, upto):
    """(statement without the ghost map) P lists exactly the pairs of the regions R, by increasing 3' position"""
    return (forall(lambda q: implies(0 <= q and q < len(P),
                                     P[q][1] < upto and exists(lambda a: 0 <= a and a < len(R) and on3(R, a, P[q][1])
                                                               and P[q][0] == lo5(R, a) + (hi3(R, a) - P[q][1]))))
            and forall(lambda q: implies(0 <= q and q + 1 < len(P), P[q][1] < P[q + 1][1] and noclose(R, P[q][1] + 1, P[q + 1][1])))
            and implies(len(P) > 0, noclose(R, 0, P[0][1]) and noclose(R, P[len(P) - 1][1] + 1, upto))
            and implies(len(P) == 0, noclose(R, 0, upto)))


PAINTED_REQ = ["regions_ok(R, len(self.structure))", "strands_disjoint(R)", "len(O) >= len(R)", "proper(R, O)",
               "region_map(G, R, len(self.structure), len(R))", "painted_g(self.structure, R, O, G)"]


class db_post_init_painted:
    """C01 decoder on a text painted from a proper level assignment (ghost: regions R, levels O, inverse strand map G):
    never pops an empty stack and yields exactly the pairs of the regions"""
    target = "DotBracket.__post_init__"
    params = {"self": "DotBracket"}
    ghost_params = {"R": "list[tuple[int,int,int]]", "O": "list[int]", "G": "list[int]"}
    requires = PAINTED_REQ
    raises = []
    ensures = ["decoded_g(self.pairs, R, G, len(self.structure))"]
    ensures_labels = {0: "decodes-to-the-regions-pairs"}
    modifies = ["DotBracket.pairs@self"]
    locals = {"begins": "dict[char,list[int]]", "matches": "dict[char,char]"}
    loops = {0: {"touches": {"DotBracket.pairs": ["self"]}, "inv": [
        "len(self.pairs) >= 0 and len(pos) == len(self.structure)",
        "forall(lambda ch: implies(ch in OPEN, ch in begins and len(begins[ch]) >= 0), sorts={'ch': 'char'})",
        # the stack of bracket type ch holds, in increasing order, exactly the opened positions of that type whose partner is still ahead
        "forall(lambda ch, u: implies(ch in OPEN and 0 <= u and u < len(begins[ch]), 0 <= begins[ch][u] and begins[ch][u] < i and G[begins[ch][u]] >= 0 and on5(R, G[begins[ch][u]], begins[ch][u]) and ch == OPEN[O[G[begins[ch][u]]]] and partner(R, G[begins[ch][u]], begins[ch][u]) >= i and pos[begins[ch][u]] == u), sorts={'ch': 'char'})",
        "forall(lambda ch, u, v: implies(ch in OPEN and 0 <= u and u < v and v < len(begins[ch]), begins[ch][u] < begins[ch][v]), sorts={'ch': 'char'})",
        "forall(lambda x: implies(0 <= x and x < i and G[x] >= 0 and on5(R, G[x], x) and partner(R, G[x], x) >= i, 0 <= pos[x] and pos[x] < len(begins[OPEN[O[G[x]]]]) and begins[OPEN[O[G[x]]]][pos[x]] == x))",
        "decoded_g(self.pairs, R, G, i)"]}}
    ghost = [
        {"when": "after", "at": "self.pairs = []", "label": "pos0", "do": ["let pos = fill(len(self.structure), 0 - 1)"]},
        {"when": "after", "at": "begins[c].append(", "label": "push", "do": ["let pos = upd(pos, i, len(begins[c]) - 1)"]},
        {"when": "before", "at": "self.pairs.append(", "label": "pop",
         "do": ["let b = G[i]", "let xb = lo5(R, b) + (hi3(R, b) - i)",
                "assert b >= 0 and on3(R, b, i) and begin == OPEN[O[b]]",
                "assert on5(R, b, xb) and xb < i and G[xb] == b and partner(R, b, xb) == i",
                "assert 0 <= pos[xb] and pos[xb] < len(begins[begin]) and begins[begin][pos[xb]] == xb",
                "let top = begins[begin][len(begins[begin]) - 1]", "let at = G[top]",
                "assert at >= 0 and on5(R, at, top) and O[at] == O[b] and partner(R, at, top) >= i and top >= xb",
                "assert implies(top != xb, at != b and partner(R, at, top) > i)",
                "assert implies(top != xb, crossing(R[b][0], R[b][1], R[at][0], R[at][1]))",
                "assert top == xb"]},
    ]


class db_from_string_painted:
    target = "DotBracket.from_string"
    params = {"sequence": "cstr", "structure": "cstr"}
    ghost_params = {"R": "list[tuple[int,int,int]]", "O": "list[int]", "G": "list[int]"}
    requires = [r.replace("self.structure", "structure") for r in PAINTED_REQ]
    returns = "DotBracket"
    raises = {"ValueError": "len(sequence) != len(structure)"}
    ensures = ["fresh(result)", "result.sequence == sequence", "result.structure == structure",
               "decoded_g(result.pairs, R, G, len(structure))"]
    modifies = []
    callee_variants = {"DotBracket.__post_init__": "painted"}


class make_dot_bracket:
    """C01 for every encoder: the text written for (regions, orders) - the regions being the stems of the structure and
    the levels proper - has the structure's length and sequence, carries OPEN/CLOSE[orders[a]] on the two strands of every
    stem and dots elsewhere (ghost inverse strand map G), never makes the decoder pop an empty stack, and decodes to
    exactly the structure's base pairs (lossless: nothing lost, nothing invented)"""
    target = "BpSeq.__make_dot_bracket"
    params = {"self": "BpSeq", "regions": "list[tuple[int,int,int]]", "orders": "list[int]"}
    ghost_params = {"GS": "list[int]"}
    requires = ["valid(self.entries)", "regions_match(self.entries, regions)", "regions_cover(self.entries, regions, GS)",
                "len(orders) >= len(regions)", "proper(regions, orders)"]
    returns = "DotBracket"
    ghost_returns = {"G": "list[int]"}
    ensures = ["len(result.structure) == len(self.entries)",
               "seq_of(self.entries, result.sequence)",
               "fresh(result)",
               "region_map(G, regions, len(self.entries), len(regions))",
               "painted_g(result.structure, regions, orders, G)",
               "decoded_g(result.pairs, regions, G, len(self.entries))",
               "lossless(self.entries, result.pairs)"]
    ensures_labels = {0: "length", 1: "sequence", 2: "fresh", 3: "G-is-the-inverse-strand-map", 4: "painted",
                      5: "decodes-to-the-regions-pairs", 6: "lossless"}
    raises = []
    modifies = []
    locals = {"structure": "cstr"}
    callee_variants = {"DotBracket.from_string": "painted"}
    ghost_entry = ["forall a, b | use strands_apart(self.entries, regions, a, b) | assert implies(0 <= a and a < len(regions) and 0 <= b and b < len(regions) and a != b, "
                   "apart(lo5(regions, a), hi5(regions, a), lo5(regions, b), hi5(regions, b)) and "
                   "apart(lo5(regions, a), hi5(regions, a), lo3(regions, b), hi3(regions, b)) and "
                   "apart(lo3(regions, a), hi3(regions, a), lo3(regions, b), hi3(regions, b)))"]
    ghost_exit = [
        # nothing invented: a decoded pair (x, y) is a pair of E
        "forall q | assert implies(0 <= q and q < len(result.pairs), 0 <= result.pairs[q][0] and result.pairs[q][0] < result.pairs[q][1] and on5(regions, G[result.pairs[q][1]], result.pairs[q][0]))"
        " | assert implies(0 <= q and q < len(result.pairs), self.entries[result.pairs[q][0]].pair == result.pairs[q][1] + 1 and self.entries[result.pairs[q][1]].pair == result.pairs[q][0] + 1)",
        # nothing lost: a 3' partner lies on the 3' strand of the region that holds its 5' partner
        "forall y | assert implies(0 <= y and y < len(self.entries) and downward(self.entries, y), qual(self.entries[self.entries[y].pair - 1]) and self.entries[self.entries[y].pair - 1].pair == y + 1)"
        " | assert implies(0 <= y and y < len(self.entries) and downward(self.entries, y), on3(regions, GS[self.entries[y].pair - 1], y))"
        " | assert implies(0 <= y and y < len(self.entries) and downward(self.entries, y), G[y] >= 0 and on3(regions, G[y], y))",
    ]
    ghost = [
        {"when": "after", "at": "structure = [", "label": "G0", "do": ["let G = fill(len(sequence), 0 - 1)"]},
        {"when": "after", "at": "structure[j - 1] =", "label": "G5", "do": ["let G = upd(G, j - 1, i)"]},
        {"when": "after", "at": "structure[k - 1] =", "label": "G3", "do": ["let G = upd(G, k - 1, i)"]},
        {"when": "before", "at": "return DotBracket.from_string", "label": "call", "do": ["let R = regions", "let O = orders"]},
    ]
    loops = {
        0: {"index": "a0", "inv": ["len(structure) == len(self.entries)",
                                   "region_map(G, regions, len(self.entries), a0)",
                                   "painted_g(structure, regions, orders, G)"]},
        1: {"decreases": "n", "inv": [
            "len(structure) == len(self.entries) and len(G) == len(self.entries)",
            "0 <= n and n <= stem[2] and j == stem[0] + (stem[2] - n) and k == stem[1] - (stem[2] - n)",
            "forall(lambda x: implies(0 <= x and x < len(G), G[x] == 0 - 1 or (0 <= G[x] and G[x] < i and on_strand(regions, G[x], x)) or (G[x] == i and ((lo5(regions, i) <= x and x < j - 1) or (k - 1 < x and x <= hi3(regions, i))))))",
            "forall(lambda a, x: implies(0 <= a and a < i and 0 <= x and x < len(G) and on_strand(regions, a, x), G[x] == a))",
            "forall(lambda x: implies((lo5(regions, i) <= x and x < j - 1) or (k - 1 < x and x <= hi3(regions, i)), G[x] == i))",
            "painted_g(structure, regions, orders, G)",
        ]},
    }


class regions_c:
    """BpSeq.__regions: (start, end, length) of every stem, in 5' order"""
    target = "BpSeq.__regions"
    params = {"self": "BpSeq"}
    requires = ["valid(self.entries)"]
    returns = "list[tuple[int,int,int]]"
    ghost_returns = {"GS": "list[int]"}
    ensures = ["regions_match(self.entries, result)", "regions_cover(self.entries, result, GS)"]
    ensures_labels = {0: "regions-are-the-stems", 1: "every-pair-in-a-region"}
    raises = []
    modifies = []
    ghost_exit = ["let GS = __stems_entries_GS"]


class fcfs:
    target = "BpSeq.fcfs"
    params = {"self": "BpSeq"}
    requires = ["valid(self.entries)", "levels30(self)"]
    returns = "DotBracket"
    # ghost results: the regions R (the stems), the levels O actually painted (the first-come-first-served levels) and the
    # inverse strand map G - so that callers (all_dot_brackets, C16) can identify this notation among others
    ghost_returns = {"R": "list[tuple[int,int,int]]", "O": "list[int]", "G": "list[int]"}
    ensures = ["len(result.structure) == len(self.entries)", "seq_of(self.entries, result.sequence)",
               "lossless(self.entries, result.pairs)", "fresh(result)",
               "regions_match(self.entries, R) and len(O) == len(R) and proper(R, O)",
               "forall(lambda a: implies(0 <= a and a < len(R), O[a] == FC(a)))",
               "region_map(G, R, len(self.entries), len(R)) and painted_g(result.structure, R, O, G)"]
    ensures_labels = {0: "length", 1: "sequence", 2: "lossless", 3: "fresh", 4: "levels-are-proper-on-the-stems",
                      5: "levels-are-the-first-come-first-served-levels", 6: "painted-with-those-levels"}
    ghost_exit = ["let O = orders", "let G = __make_dot_bracket_G",
                  # an earlier crossing stem takes its own level: FC(a) differs from it
                  "forall a, b | assert implies(0 <= b and b < a and a < len(R) and crossing(R[a][0], R[a][1], R[b][0], R[b][1]), taken(a, FC(b)) and FC(a) != FC(b))"]
    raises = []
    modifies = []
    locals = {}
    loops = {
        0: ["1 <= i",
            "len(orders) == len(R)",
            "forall(lambda a: implies(0 <= a and a < i and a < len(R), orders[a] == FC(a)))",
            "forall(lambda a: implies(i <= a and a < len(R), orders[a] == 0))"],
        # ghost blk[lv] = an earlier crossing stem sitting on level lv, or -1 (existence-free form of "level lv is taken")
        1: ["len(available) == 30 and len(blk) == 30", "len(orders) == len(R)",
            "forall(lambda lv: implies(0 <= lv and lv < 30, available[lv] == (blk[lv] == 0 - 1)))",
            "forall(lambda lv: implies(0 <= lv and lv < 30 and blk[lv] != 0 - 1, 0 <= blk[lv] and blk[lv] < j and crossing(k, l, R[blk[lv]][0], R[blk[lv]][1]) and orders[blk[lv]] == lv))",
            "forall(lambda b: implies(0 <= b and b < j and crossing(k, l, R[b][0], R[b][1]), 0 <= orders[b] and orders[b] < 30 and blk[orders[b]] != 0 - 1))",
            ],
    }
    ghost = [
        {"when": "after", "at": "available = [", "loop": 0, "label": "blk0", "do": ["let blk = fill(30, 0 - 1)"]},
        {"when": "after", "at": "available[orders[j]] =", "loop": 1, "label": "blk", "do": ["let blk = upd(blk, orders[j], j)"]},
        {"when": "after", "at": "regions =", "do": ["let R = regions", "let GS = __stems_entries_GS", "use FC_definition(R)", "use levels30_definition(self, R)"]},
        {"when": "before", "at": "order = next(", "label": "level-free", "do": ["assert 0 <= FC(i) and FC(i) < 30 and available[FC(i)]",
                "forall lv | assert implies(0 <= lv and lv < FC(i), taken(i, lv) and not available[lv])"]},
        {"when": "after", "at": "order = next(", "label": "next-is-FC", "do": ["assert order == FC(i)"]},
    ]


CONTRACTS = {
    "BpSeq.sequence": bpseq_sequence,
    "DotBracket.from_string": db_from_string,
    "DotBracket.__post_init__": db_post_init,
    "DotBracket.__post_init__@painted": db_post_init_painted,
    "DotBracket.from_string@painted": db_from_string_painted,
    "BpSeq.__stems_entries": stems_entries,
    "BpSeq.__stems_entries@inverse": stems_entries_inverse,
    "BpSeq.__make_dot_bracket": make_dot_bracket,
    "BpSeq.__regions": regions_c,
    "BpSeq.fcfs": fcfs,
}
