"""Sidecar contracts for rnapolis/transformer.py (C20): copy_from_to, replace_value, main (CLI data flow).

Abstract document model.  A document D (an integer id) is a list of data blocks; block b has ncat(D, b) categories in file
order, category k of block b has the name cname(D, b, k), the items attr(D, b, k, a) for a < nattr(D, b, k) and
nrows(D, b, k) rows, row r having rowlen(D, b, k, r) cells cell(D, b, k, r, c).  All of these are uninterpreted.
  parse(text)  = the document the mmcif reader returns for a file with that text        (trusted reader)
  render(D)    = the text read back from a file the mmcif writer produced for document D  (trusted writer)

Object model of the mmcif library (EXTERNALS below; every entry is trusted base).  The reader builds a graph of *objects*:
containers, categories, and Python lists with identity (class entries with "boxed_list": the item-name list of a container,
the attribute list of a category, its row list, every row).  getAttributeList()/getRowList()/getObjNameList() return those
very list objects (no copies), exactly like the library.  DataCategory(name, attributes, rows) deep-copies its inputs and keeps
`name` as given; container.replace(obj) stores obj under obj.getName() only if that name is a key of the catalog - a
DataCategory *object* passed as the name (what transformer.py does) never is, so for this code replace() changes nothing and
the edit reaches the writer only through the aliased attribute list and the rows mutated in place.  The proofs below go
through that aliasing, not through replace().

Ghost fields (never read or written by code): items0 / rws0 / cells0 = content of a list object right after readFile;
owner / idx / kind / cont / pos = where the reader put the object (they make "different places hold different objects"
expressible).  Ghost variable W = the document id handed to writeFile.
"""
import z3

from pyvc.expr import NOT
from pyvc.values import Unsupported, VDict, VList, VOpt, VRef, leaves, to_z3, uid


def spec(f):
    return f


I, S, B = z3.IntSort(), z3.StringSort(), z3.BoolSort()

CLASSES = {
    "Adapter": {"kind": "object", "fields": {"tag": "int"}},
    # a text file object (open() / NamedTemporaryFile) over the ghost file system
    "TempFile": {"kind": "object", "fields": {"name": "str", "buf": "str", "pos": "int", "readable": "bool", "writable": "bool",
                                              "delete": "bool"}},
    # argparse: the parser remembers the destinations registered by add_argument; parse_args() returns a namespace
    "Parser": {"kind": "object", "fields": {"positionals": "set[str]", "optionals": "set[str]"}},
    "Namespace": {"kind": "object", "fields": {"input": "str", "output": "str", "category": "opt[str]", "copy_from": "opt[str]",
                                               "copy_to": "opt[str]", "replace": "opt[str]", "values": "opt[str]"}},
    "Container": {"kind": "object", "fields": {"names": "StrList", "cat": "dict[str,Category]", "pos": "int"}},
    "Category": {"kind": "object", "fields": {"attrs": "StrList", "rows": "RowList", "name": "str", "name_is_str": "bool",
                                              "cont": "Container"}},
    "StrList": {"kind": "object", "boxed_list": "items",
                "fields": {"items": "list[str]", "items0": "list[str]", "owner": "Category", "kind": "int"}},
    "RowList": {"kind": "object", "boxed_list": "rws", "fields": {"rws": "list[Row]", "rws0": "list[Row]", "owner": "Category"}},
    "Row": {"kind": "object", "boxed_list": "cells",
            "fields": {"cells": "list[str]", "cells0": "list[str]", "owner": "Category", "idx": "int"}},
}
MODEL_CLASSES = ("Container", "Category", "StrList", "RowList", "Row")
INLINE = []
PRUNE_BRANCHES = False

i3, i4, i5 = ["int"] * 3, ["int"] * 4, ["int"] * 5
UFUNS = {
    "parse": (["str"], "int"), "render": (["int"], "str"),
    "nblocks": (["int"], "int"), "ncat": (["int", "int"], "int"), "cname": (i3, "str"),
    "nattr": (i3, "int"), "attr": (i4, "str"), "nrows": (i3, "int"), "rowlen": (i4, "int"), "cell": (i5, "str"),
    # ndist(D, k, i, n): number of different values among the first n cells of item i of category k of block 0 (definition below)
    "ndist": (i4, "int"),
    # firstpos(D, k, i, x): the first row of category k (block 0) whose item i has the value x, if there is one (definition below)
    "firstpos": (["int", "int", "int", "str"], "int"),
    # main(): the command line (what parse_args() returns is a function of sys.argv, fixed during the call) and the files
    "cli_input": ([], "str"), "cli_output": ([], "str"),
    "cli_category": ([], "str"), "cli_copy_from": ([], "str"), "cli_copy_to": ([], "str"), "cli_replace": ([], "str"), "cli_values": ([], "str"),
    "cli_has_category": ([], "bool"), "cli_has_copy_from": ([], "bool"), "cli_has_copy_to": ([], "bool"), "cli_has_replace": ([], "bool"),
    "cli_has_values": ([], "bool"),
    "file_text": (["str"], "str"),  # text of the file at a path when main() starts
}


# ------------------------------------------------------------------------------------------------ spec vocabulary
@spec
def in_cat(D, b, k):
    return 0 <= b and b < nblocks(D) and 0 <= k and k < ncat(D, b)


@spec
def wellformed(D):
    """an mmCIF document: within a category item names are pairwise different, every row has one cell per item"""
    return (forall(lambda b, k, r: implies(in_cat(D, b, k) and 0 <= r and r < nrows(D, b, k), rowlen(D, b, k, r) == nattr(D, b, k)),
                   pats=["rowlen(D, b, k, r)"])
            and forall(lambda b, k, a, a2: implies(in_cat(D, b, k) and 0 <= a and a < a2 and a2 < nattr(D, b, k),
                                                   attr(D, b, k, a) != attr(D, b, k, a2)), pats=[["attr(D, b, k, a)", "attr(D, b, k, a2)"]]))


@spec
def cat_at(D, k, category):
    """category number k of the first data block is the one called `category`"""
    return nblocks(D) > 0 and 0 <= k and k < ncat(D, 0) and cname(D, 0, k) == category


@spec
def item_at(D, k, a, item):
    return 0 <= a and a < nattr(D, 0, k) and attr(D, 0, k, a) == item


@spec
def has_item(D, k, item):
    return exists(lambda a: item_at(D, k, a, item))


@spec
def applies(D, category, item):
    """the first data block has the category and the category has the item"""
    return exists(lambda k: cat_at(D, k, category) and has_item(D, k, item))


@spec
def same_skeleton(P, W):
    """same data blocks, same categories in the same order"""
    return (nblocks(W) == nblocks(P)
            and forall(lambda b: implies(0 <= b and b < nblocks(P), ncat(W, b) == ncat(P, b)), pats=["ncat(W, b)"])
            and forall(lambda b, k: implies(in_cat(P, b, k), cname(W, b, k) == cname(P, b, k)), pats=["cname(W, b, k)"]))


@spec
def same_items(P, W, b, k):
    return (nattr(W, b, k) == nattr(P, b, k)
            and forall(lambda a: implies(0 <= a and a < nattr(P, b, k), attr(W, b, k, a) == attr(P, b, k, a)), pats=["attr(W, b, k, a)"]))


@spec
def same_rows(P, W, b, k):
    return (nrows(W, b, k) == nrows(P, b, k)
            and forall(lambda r: implies(0 <= r and r < nrows(P, b, k), rowlen(W, b, k, r) == rowlen(P, b, k, r)), pats=["rowlen(W, b, k, r)"])
            and forall(lambda r, c: implies(0 <= r and r < nrows(P, b, k) and 0 <= c and c < rowlen(P, b, k, r),
                                            cell(W, b, k, r, c) == cell(P, b, k, r, c)), pats=["cell(W, b, k, r, c)"]))


@spec
def others_untouched(P, W, category):
    """every category except `category` of block 0 has the same items, rows (number, order, length) and cells"""
    return forall(lambda b, k: implies(in_cat(P, b, k) and not (b == 0 and cname(P, b, k) == category),
                                       same_items(P, W, b, k) and same_rows(P, W, b, k)))


@spec
def copy_items(P, W, category, copy_to):
    """items of the edited category: unchanged, except that a target item that did not exist is appended (once, at the end)"""
    return forall(lambda k: implies(cat_at(P, k, category),
                                    forall(lambda a: implies(0 <= a and a < nattr(P, 0, k), attr(W, 0, k, a) == attr(P, 0, k, a)), pats=["attr(W, 0, k, a)"])
                                    and ite(has_item(P, k, copy_to), nattr(W, 0, k) == nattr(P, 0, k),
                                            nattr(W, 0, k) == nattr(P, 0, k) + 1 and attr(W, 0, k, nattr(P, 0, k)) == copy_to)))


@spec
def copy_rows(P, W, category):
    """rows of the edited category: same number (hence order: row r stays row r), one cell per item"""
    return forall(lambda k: implies(cat_at(P, k, category),
                                    nrows(W, 0, k) == nrows(P, 0, k)
                                    and forall(lambda r: implies(0 <= r and r < nrows(P, 0, k), rowlen(W, 0, k, r) == nattr(W, 0, k)), pats=["rowlen(W, 0, k, r)"])))


@spec
def copy_other_cells(P, W, category, copy_to):
    return forall(lambda k, r, c: implies(cat_at(P, k, category) and 0 <= r and r < nrows(P, 0, k) and 0 <= c and c < nattr(P, 0, k)
                                          and attr(P, 0, k, c) != copy_to, cell(W, 0, k, r, c) == cell(P, 0, k, r, c)), pats=["cell(W, 0, k, r, c)"])


@spec
def copy_target(P, W, category, copy_from, copy_to):
    """in every row the target cell equals the source cell of the same row of the input"""
    return forall(lambda k, r, i, j: implies(cat_at(P, k, category) and 0 <= r and r < nrows(P, 0, k) and item_at(P, k, i, copy_from)
                                             and item_at(W, k, j, copy_to), cell(W, 0, k, r, j) == cell(P, 0, k, r, i)),
                  pats=[["cell(W, 0, k, r, j)", "cell(P, 0, k, r, i)"]])


@spec
def repl_shape(P, W, category):
    """the edited category keeps its items and its rows' number, order and lengths"""
    return forall(lambda k: implies(cat_at(P, k, category),
                                    same_items(P, W, 0, k) and nrows(W, 0, k) == nrows(P, 0, k)
                                    and forall(lambda r: implies(0 <= r and r < nrows(P, 0, k), rowlen(W, 0, k, r) == rowlen(P, 0, k, r)), pats=["rowlen(W, 0, k, r)"])))


@spec
def repl_other_cells(P, W, category, column):
    return forall(lambda k, r, c, i: implies(cat_at(P, k, category) and item_at(P, k, i, column) and 0 <= r and r < nrows(P, 0, k)
                                             and 0 <= c and c < nattr(P, 0, k) and c != i, cell(W, 0, k, r, c) == cell(P, 0, k, r, c)),
                  pats=[["cell(W, 0, k, r, c)", "attr(P, 0, k, i)"]])


@spec
def repl_target(P, W, category, column, M):
    """every old value is a key of the returned mapping and the new cell is its image"""
    return forall(lambda k, r, i: implies(cat_at(P, k, category) and item_at(P, k, i, column) and 0 <= r and r < nrows(P, 0, k),
                                          cell(P, 0, k, r, i) in M and cell(W, 0, k, r, i) == M[cell(P, 0, k, r, i)]),
                  pats=["cell(W, 0, k, r, i)"])


@spec
def repl_domain(P, category, column, M):
    """the mapping has no other keys than the values of the item: key x is the value in row firstpos(P, k, i, x)"""
    return forall(lambda k, i: implies(cat_at(P, k, category) and item_at(P, k, i, column),
                                       forall(lambda x: implies(x in M, 0 <= firstpos(P, k, i, x) and firstpos(P, k, i, x) < nrows(P, 0, k)
                                                                and cell(P, 0, k, firstpos(P, k, i, x), i) == x),
                                              sorts={"x": "str"}, pats=["firstpos(P, k, i, x)"])))


@spec
def seen_before(D, k, i, r):
    """the value of item i in row r of category k (block 0) already occurs in an earlier row: the first row holding it (firstpos,
    see firstpos_def) comes before r"""
    return firstpos(D, k, i, cell(D, 0, k, r, i)) < r


@spec
def first_seen(P, category, column, values, M):
    """a value first seen in row r (ndist = number of different values seen before) is mapped to values[ndist]; the mapping has one key
    per different value"""
    return forall(lambda k, i: implies(cat_at(P, k, category) and item_at(P, k, i, column),
                                       len(M) == ndist(P, k, i, nrows(P, 0, k))
                                       and forall(lambda r: implies(0 <= r and r < nrows(P, 0, k) and not seen_before(P, k, i, r),
                                                                    M[cell(P, 0, k, r, i)] == char(values, ndist(P, k, i, r))))))


@spec
def distinct_chars(values):
    return forall(lambda s, t: implies(0 <= s and s < t and t < len(values), char(values, s) != char(values, t)))


@spec
def injective(M):
    return forall(lambda x, y: implies(x in M and y in M and x != y, M[x] != M[y]), sorts={"x": "str", "y": "str"})


@spec
def enough_values(P, category, column, values):
    """the alphabet is not exhausted: len(values) >= number of different values of the item (stated for every prefix of the rows;
    ndist is monotone in n, so this is the same as the statement for all rows).  True when the category or the item is missing.
    Its negation is exactly the condition under which replace_value raises IndexError."""
    return forall(lambda k, i, n: implies(cat_at(P, k, category) and item_at(P, k, i, column) and 0 <= n and n <= nrows(P, 0, k),
                                          ndist(P, k, i, n) <= len(values)), pats=["ndist(P, k, i, n)"])


@spec
def ndist_def(D):
    return (forall(lambda k, i: ndist(D, k, i, 0) == 0, pats=["ndist(D, k, i, 0)"])
            and forall(lambda k, i, n: implies(n >= 0, ndist(D, k, i, n + 1) == ndist(D, k, i, n)
                                               + ite(seen_before(D, k, i, n), 0, 1)),
                       pats=["ndist(D, k, i, n + 1)"]))


@spec
def firstpos_def(D):
    """firstpos(x) is the least row holding x (least-number principle): it holds x and is <= every row r that holds x"""
    return forall(lambda k, i, r: implies(r >= 0, 0 <= firstpos(D, k, i, cell(D, 0, k, r, i)) and firstpos(D, k, i, cell(D, 0, k, r, i)) <= r
                                          and cell(D, 0, k, firstpos(D, k, i, cell(D, 0, k, r, i)), i) == cell(D, 0, k, r, i)),
                  pats=["firstpos(D, k, i, cell(D, 0, k, r, i))"])


LEMMAS = {
    # definition by primitive recursion on n of the counting function used in the statement of replace_value
    "ndist_definition": {"kind": "definition", "params": ["D"], "ensures": ["ndist_def(D)"]},
    # definition of the witness function used in the statement of replace_value (well-ordering of the row numbers)
    "firstpos_definition": {"kind": "definition", "params": ["D"], "ensures": ["firstpos_def(D)"]},
}


# ------------------------------------------------------------------------------------------------ invariants (heap level)
@spec
def lists_kept(attributes):
    """no string-list object other than the attribute list of the edited category has changed; no row list has changed"""
    return (forall(lambda y: implies(not (y is attributes), y.items == y.items0), sorts={"y": "StrList"})
            and forall(lambda z: z.rws == z.rws0, sorts={"z": "RowList"}))


@spec
def rows_kept(C, n):
    """rows other than the first n rows of category object C are as the reader produced them"""
    return forall(lambda x: implies(not (fresh(x) and x.owner is C and 0 <= x.idx and x.idx < n), x.cells == x.cells0),
                  sorts={"x": "Row"})


@spec
def full_rows(C, A0):
    return forall(lambda r: implies(0 <= r and r < len(C.rows.rws0), len(C.rows.rws0[r].cells0) == len(A0)
                                    and fresh(C.rows.rws0[r]) and C.rows.rws0[r].owner is C and C.rows.rws0[r].idx == r))


@spec
def copied(C, n, A1, i1, j1):
    """the first n rows: one cell per item of A1, target cell = old source cell, every other cell as before"""
    return forall(lambda q: implies(0 <= q and q < n,
                                    len(C.rows.rws0[q].cells) == len(A1)
                                    and forall(lambda c: implies(0 <= c and c < len(A1),
                                                                 C.rows.rws0[q].cells[c] == ite(c == j1, C.rows.rws0[q].cells0[i1], C.rows.rws0[q].cells0[c])))))


@spec
def names_are(data, P):
    """bridge heap -> document for the first container: its name list is the category names of block 0"""
    return len(data) == nblocks(P) and implies(len(data) > 0, len(data[0].names.items) == ncat(P, 0)
                                               and forall(lambda k: implies(0 <= k and k < ncat(P, 0), data[0].names.items[k] == cname(P, 0, k))))


@spec
def items_are(A0, P, kc):
    return len(A0) == nattr(P, 0, kc) and forall(lambda a: implies(0 <= a and a < len(A0), A0[a] == attr(P, 0, kc, a)))


@spec
def collected(C, n, transformed):
    """`transformed` holds the first n row objects of C, in order"""
    return len(transformed) == n and forall(lambda q: implies(0 <= q and q < n, transformed[q] is C.rows.rws0[q]))


@spec
def replaced(C, n, ic, M):
    return forall(lambda q: implies(0 <= q and q < n,
                                    len(C.rows.rws0[q].cells) == len(C.rows.rws0[q].cells0)
                                    and C.rows.rws0[q].cells0[ic] in M and C.rows.rws0[q].cells[ic] == M[C.rows.rws0[q].cells0[ic]]
                                    and forall(lambda c: implies(0 <= c and c < len(C.rows.rws0[q].cells0) and c != ic,
                                                                 C.rows.rws0[q].cells[c] == C.rows.rws0[q].cells0[c]))))


@spec
def column_is(C, P, kc, ic):
    """bridge heap -> document: the old cell of item ic in row q of category object C is cell(P, 0, kc, q, ic)"""
    return forall(lambda q: implies(0 <= q and q < len(C.rows.rws0), C.rows.rws0[q].cells0[ic] == cell(P, 0, kc, q, ic)),
                  pats=["C.rows.rws0[q].cells0[ic]"])


@spec
def keys_seen(P, kc, ic, n, M):
    return (forall(lambda q: implies(0 <= q and q < n, cell(P, 0, kc, q, ic) in M), pats=["cell(P, 0, kc, q, ic)"])
            and forall(lambda x: implies(x in M, 0 <= firstpos(P, kc, ic, x) and firstpos(P, kc, ic, x) < n
                                         and cell(P, 0, kc, firstpos(P, kc, ic, x), ic) == x), sorts={"x": "str"}, pats=["firstpos(P, kc, ic, x)"]))


@spec
def first_seen_upto(P, kc, ic, n, values, M):
    return (len(M) == ndist(P, kc, ic, n)
            and forall(lambda q: implies(0 <= q and q < n and not seen_before(P, kc, ic, q),
                                         M[cell(P, 0, kc, q, ic)] == char(values, ndist(P, kc, ic, q)))))


@spec
def prefix_ok(P, kc, ic, n, values):
    """no prefix of the first n rows has more different values than the alphabet has characters"""
    return forall(lambda m: implies(0 <= m and m <= n, ndist(P, kc, ic, m) <= len(values)), pats=["ndist(P, kc, ic, m)"])


@spec
def images_in_prefix(values, M):
    return forall(lambda x: implies(x in M, exists(lambda t: 0 <= t and t < len(M) and M[x] == char(values, t))), sorts={"x": "str"})


# ------------------------------------------------------------------------------------------------ externals (trusted base)
def _alloc(e, st, cls):
    ref = VRef(cls, st.alloc)
    st.alloc = z3.simplify(to_z3(st.alloc) + 1)
    return ref


def _simp(v):
    return z3.simplify(to_z3(v))


def _fs(st):
    """ghost file system: path -> text of the file (as the text layer of open() sees it); initially file_text"""
    if "__fs" not in st.ghost:
        fs0 = z3.Const("fs0", z3.ArraySort(S, S))
        p_ = z3.String(uid("p"))
        st.assume(z3.ForAll([p_], z3.Select(fs0, p_) == z3.Function("file_text", S, S)(p_), patterns=[z3.Select(fs0, p_)]))
        st.ghost["__fs"] = fs0
    return st.ghost["__fs"]


def _is_empty_str(z):
    return z3.is_string_value(z) and z.as_string() == ""


def ext_IoAdapterPy(e, args, kw, node, st):
    if args or kw:
        raise Unsupported("IoAdapterPy(...) with arguments")
    return _alloc(e, st, "Adapter")


def ext_NamedTemporaryFile(e, args, kw, node, st):
    """a new, empty file with a path of its own, opened in the given *text* mode (deleted when closed)"""
    mode = kw.get("mode", args[0] if args else "w+b")
    if len(args) > 1 or set(kw) - {"mode"} or not isinstance(mode, str) or "b" in mode:
        raise Unsupported("NamedTemporaryFile: only NamedTemporaryFile(mode=<text mode>) is modelled")
    f = _alloc(e, st, "TempFile")
    name = z3.String(uid("tmpname"))
    for fld, v in (("name", name), ("buf", ""), ("pos", 0), ("readable", "r" in mode or "+" in mode),
                   ("writable", any(ch in mode for ch in "wxa+")), ("delete", True)):
        e.heap_write(st, f, fld, v)
    st.ghost["__fs"] = z3.Store(_fs(st), name, z3.StringVal(""))
    return f


def _flush(e, st, f):
    """pending written text goes to the file at the current position"""
    buf = _simp(e.heap_read(st, f, "buf"))
    if _is_empty_str(buf):
        return
    name, pos = _simp(e.heap_read(st, f, "name")), _simp(e.heap_read(st, f, "pos"))
    disk = _simp(z3.Select(_fs(st), name))
    if _is_empty_str(disk) and z3.is_int_value(pos) and pos.as_long() == 0:
        new = buf
    else:
        end = pos + z3.Length(buf)
        new = z3.Concat(z3.SubString(disk, 0, pos), buf, z3.SubString(disk, end, z3.Length(disk) - end))
    st.ghost["__fs"] = z3.Store(_fs(st), name, new)
    e.heap_write(st, f, "pos", _simp(pos + z3.Length(buf)))
    e.heap_write(st, f, "buf", "")


def ext_tf_enter(e, args, kw, node, st):
    return args[0]


ext_tf_enter.pure = True


def ext_tf_exit(e, args, kw, node, st):
    f = args[0]
    _flush(e, st, f)
    name = _simp(e.heap_read(st, f, "name"))
    delete = _simp(e.heap_read(st, f, "delete"))
    if z3.is_true(delete):
        st.ghost["__fs"] = z3.Store(_fs(st), name, z3.String(uid("deleted")))  # the file is gone: nothing is known about the path
    elif z3.is_false(delete):
        if z3.is_true(_simp(e.heap_read(st, f, "writable"))):
            # ghost record of the last file written through open(): path and final text
            st.ghost["wrote"], st.ghost["out_path"], st.ghost["out_text"] = z3.BoolVal(True), name, _simp(z3.Select(_fs(st), name))
    else:
        raise Unsupported("file object of unknown kind")
    return False


def ext_tf_write(e, args, kw, node, st):
    if len(args) != 2:
        raise Unsupported("write(...)")
    f, s = args[0], args[1]
    if not (isinstance(s, str) or (z3.is_expr(s) and s.sort() == S)):
        e.may_raise(True, "TypeError", node)  # write() argument must be str
        return 0
    e.may_raise(_simp(NOT(e.heap_read(st, f, "writable"))), "UnsupportedOperation", node)
    e.heap_write(st, f, "buf", _simp(z3.Concat(to_z3(e.heap_read(st, f, "buf")), to_z3(s))))
    return z3.Length(to_z3(s))


def ext_tf_seek(e, args, kw, node, st):
    if len(args) != 2 or isinstance(args[1], bool) or not isinstance(args[1], int) or args[1] != 0:
        raise Unsupported("TempFile.seek: only seek(0) is modelled")
    _flush(e, st, args[0])
    e.heap_write(st, args[0], "pos", 0)
    return 0


def ext_tf_read(e, args, kw, node, st):
    f = args[0]
    if len(args) != 1:
        raise Unsupported("TempFile.read(n)")
    e.may_raise(_simp(NOT(e.heap_read(st, f, "readable"))), "UnsupportedOperation", node)
    _flush(e, st, f)
    name, pos = _simp(e.heap_read(st, f, "name")), _simp(e.heap_read(st, f, "pos"))
    disk = _simp(z3.Select(_fs(st), name))
    res = disk if (z3.is_int_value(pos) and pos.as_long() == 0) else z3.SubString(disk, pos, z3.Length(disk) - pos)
    e.heap_write(st, f, "pos", z3.Length(disk))
    return res


def _h(e, st, cls, f):
    return e.heap_tree(st, cls, f)


def _forall(vs, body, *pats):
    return z3.ForAll(vs, body, patterns=list(pats)) if pats else z3.ForAll(vs, body)


def ext_readFile(e, args, kw, node, st):
    """adapter.readFile(path) -> list of fresh container objects holding parse(text of the file); see the module docstring.
    Assumed about the reader: all objects are new and pairwise different (no list object is shared between two places),
    category names inside a container are pairwise different and each is a key of its catalog."""
    if len(args) != 2 or kw:
        raise Unsupported("readFile(path) only")
    U = e.ufuns
    text = _simp(z3.Select(_fs(st), to_z3(args[1])))
    P = U["parse"](text)
    a0 = to_z3(st.alloc)
    a1 = z3.Int(uid("alloc"))
    st.assume(a1 >= a0)
    # the reader allocates: the model classes' fields are unknown arrays that agree with the old ones on old objects
    r = z3.Int(uid("r"))
    for cls in MODEL_CLASSES:
        for f in e.classes[cls]["fields"]:
            old = leaves(_h(e, st, cls, f))
            e.havoc_heap(st, f"{cls}.{f}")
            new = leaves(_h(e, st, cls, f))
            st.assume(z3.ForAll([r], z3.Implies(z3.And(r >= 1, r < a0), z3.And(*[z3.Select(x, r) == z3.Select(y, r) for x, y in zip(new, old)]))))
    names_of, cat, cpos = _h(e, st, "Container", "names").ident, _h(e, st, "Container", "cat"), _h(e, st, "Container", "pos")
    c_attrs, c_rows = _h(e, st, "Category", "attrs").ident, _h(e, st, "Category", "rows").ident
    c_name, c_nis, c_cont = _h(e, st, "Category", "name"), _h(e, st, "Category", "name_is_str"), _h(e, st, "Category", "cont").ident
    items, s_owner, s_kind = _h(e, st, "StrList", "items"), _h(e, st, "StrList", "owner").ident, _h(e, st, "StrList", "kind")
    rws, rl_owner = _h(e, st, "RowList", "rws"), _h(e, st, "RowList", "owner").ident
    cells, r_owner, r_idx = _h(e, st, "Row", "cells"), _h(e, st, "Row", "owner").ident, _h(e, st, "Row", "idx")
    dom, vals = cat.dom, cat.vals.ident
    # the objects, as functions of their place in the document
    cont = z3.Function(uid("obj_container"), I, I)
    nmo = z3.Function(uid("obj_names"), I, I)
    cto = z3.Function(uid("obj_category"), I, I, I)
    ato = z3.Function(uid("obj_attrs"), I, I, I)
    rlo = z3.Function(uid("obj_rowlist"), I, I, I)
    rwo = z3.Function(uid("obj_row"), I, I, I, I)
    b, k, k2, q, a, c = (z3.Int(uid(x)) for x in "bkkqac")
    s = z3.String(uid("s"))
    n = U["nblocks"](P)
    ncat, cname, nattr, attr, nrows, rowlen, cell = (U[x] for x in ("ncat", "cname", "nattr", "attr", "nrows", "rowlen", "cell"))
    new = lambda t: z3.And(t >= a0, t < a1)
    inb = z3.And(b >= 0, b < n)
    ink = z3.And(inb, k >= 0, k < ncat(P, b))
    inr = z3.And(ink, q >= 0, q < nrows(P, b, k))
    data_el = z3.Const(uid("data.el"), z3.ArraySort(I, I))
    sel2 = lambda arr, x, y: z3.Select(z3.Select(arr, x), y)
    facts = [
        n >= 0,
        _forall([b], z3.Implies(inb, z3.Select(data_el, b) == cont(b)), z3.Select(data_el, b)),
        _forall([b], z3.Implies(inb, z3.And(new(cont(b)), z3.Select(cpos, cont(b)) == b, ncat(P, b) >= 0,
                                            z3.Select(names_of, cont(b)) == nmo(b), new(nmo(b)), z3.Select(s_kind, nmo(b)) == 0,
                                            z3.Select(items.length, nmo(b)) == ncat(P, b))), cont(b)),
        _forall([b, k], z3.Implies(ink, sel2(items.elems, nmo(b), k) == cname(P, b, k)), sel2(items.elems, nmo(b), k), cname(P, b, k)),
        _forall([b, k, k2], z3.Implies(z3.And(ink, k2 >= 0, k2 < ncat(P, b), k != k2), cname(P, b, k) != cname(P, b, k2)),
                z3.MultiPattern(cname(P, b, k), cname(P, b, k2))),
        # every name is a key of the catalog (that the catalog has no further keys is true of the library but not needed)
        _forall([b, k], z3.Implies(ink, z3.And(
            sel2(dom, cont(b), cname(P, b, k)), sel2(vals, cont(b), cname(P, b, k)) == cto(b, k), new(cto(b, k)),
            z3.Select(c_cont, cto(b, k)) == cont(b), z3.Select(c_name, cto(b, k)) == cname(P, b, k), z3.Select(c_nis, cto(b, k)),
            z3.Select(c_attrs, cto(b, k)) == ato(b, k), new(ato(b, k)), z3.Select(s_owner, ato(b, k)) == cto(b, k),
            z3.Select(s_kind, ato(b, k)) == 1, z3.Select(items.length, ato(b, k)) == nattr(P, b, k), nattr(P, b, k) >= 0,
            z3.Select(c_rows, cto(b, k)) == rlo(b, k), new(rlo(b, k)), z3.Select(rl_owner, rlo(b, k)) == cto(b, k),
            z3.Select(rws.length, rlo(b, k)) == nrows(P, b, k), nrows(P, b, k) >= 0)),
            cto(b, k), sel2(vals, cont(b), cname(P, b, k)), sel2(dom, cont(b), cname(P, b, k))),
        _forall([b, k, a], z3.Implies(z3.And(ink, a >= 0, a < nattr(P, b, k)), sel2(items.elems, ato(b, k), a) == attr(P, b, k, a)),
                sel2(items.elems, ato(b, k), a), attr(P, b, k, a)),
        _forall([b, k, q], z3.Implies(inr, z3.And(
            sel2(rws.elems.ident, rlo(b, k), q) == rwo(b, k, q), new(rwo(b, k, q)), z3.Select(r_owner, rwo(b, k, q)) == cto(b, k),
            z3.Select(r_idx, rwo(b, k, q)) == q, z3.Select(cells.length, rwo(b, k, q)) == rowlen(P, b, k, q), rowlen(P, b, k, q) >= 0)),
            rwo(b, k, q), sel2(rws.elems.ident, rlo(b, k), q)),
        _forall([b, k, q, c], z3.Implies(z3.And(inr, c >= 0, c < rowlen(P, b, k, q)), sel2(cells.elems, rwo(b, k, q), c) == cell(P, b, k, q, c)),
                sel2(cells.elems, rwo(b, k, q), c)),
    ]
    for f_ in facts:
        st.assume(f_)
    # ghost snapshots of the list contents
    st.heap[("StrList", "items0")] = st.heap[("StrList", "items")]
    st.heap[("RowList", "rws0")] = st.heap[("RowList", "rws")]
    st.heap[("Row", "cells0")] = st.heap[("Row", "cells")]
    st.alloc = a1
    e.assumed.append("mmcif reader object graph (contracts.transformer_c.ext_readFile)")
    return VList(n, VRef("Container", data_el), ("ref", "Container"))


def ext_getObjNameList(e, args, kw, node, st):
    return e.heap_read(st, args[0], "names")  # the container's own name list object


ext_getObjNameList.pure = True


def ext_getObj(e, args, kw, node, st):
    d = e.heap_read(st, args[0], "cat")
    name = to_z3(args[1])
    return VOpt(NOT(z3.Select(d.dom, name)), VRef("Category", z3.Select(d.vals.ident, name)))  # None when there is no such key


ext_getObj.pure = True


def ext_getAttributeList(e, args, kw, node, st):
    return e.heap_read(st, args[0], "attrs")  # the category's own attribute list object (not a copy)


ext_getAttributeList.pure = True


def ext_getRowList(e, args, kw, node, st):
    return e.heap_read(st, args[0], "rows")  # the category's own row list object


ext_getRowList.pure = True


def ext_DataCategory(e, args, kw, node, st):
    """DataCategory(name, attributeNameList, rowList): a new category object holding deep copies of the two lists (a new
    attribute list object with the same strings, a new row list of new row objects with the same cells).  Nothing existing
    changes.  Its name is the given string - or, when an object is passed as the name, not a string at all."""
    if len(args) != 3 or kw:
        raise Unsupported("DataCategory(name, attributes, rows) only")
    nm, attrs, rows = args
    if isinstance(attrs, VRef) and attrs.cls == "StrList":
        attrs = e.heap_read(st, attrs, "items")
    if isinstance(rows, VRef) and rows.cls == "RowList":
        rows = e.heap_read(st, rows, "rws")
    if not (isinstance(attrs, VList) and isinstance(rows, VList)) or (attrs.elems is not None and attrs.eshape != ("str",)) \
            or (rows.elems is not None and rows.eshape != ("ref", "Row")):
        raise Unsupported("DataCategory: attribute / row lists of this kind")
    new = _alloc(e, st, "Category")
    al = _alloc(e, st, "StrList")
    rl = _alloc(e, st, "RowList")
    e.heap_write(st, al, "items", attrs)
    e.heap_write(st, new, "attrs", al)
    e.heap_write(st, new, "rows", rl)
    base = to_z3(st.alloc)
    n = to_z3(rows.length)
    st.assume(n >= 0)
    q, r = z3.Int(uid("q")), z3.Int(uid("r"))
    copies = z3.Const(uid("copies"), z3.ArraySort(I, I))
    st.assume(z3.ForAll([q], z3.Implies(z3.And(q >= 0, q < n), z3.Select(copies, q) == base + q), patterns=[z3.Select(copies, q)]))
    e.heap_write(st, rl, "rws", VList(n, VRef("Row", copies), ("ref", "Row")))
    if rows.elems is not None:
        old = _h(e, st, "Row", "cells")
        e.havoc_heap(st, "Row.cells")
        cur = _h(e, st, "Row", "cells")
        src = z3.Select(rows.elems.ident, r - base)
        inside = z3.And(r >= base, r < base + n)
        for x, y in zip(leaves(cur), leaves(old)):
            st.assume(z3.ForAll([r], z3.Select(x, r) == z3.If(inside, z3.Select(y, src), z3.Select(y, r)), patterns=[z3.Select(x, r)]))
    st.alloc = z3.simplify(base + n)
    if isinstance(nm, str) or (z3.is_expr(nm) and nm.sort() == S):
        e.heap_write(st, new, "name", nm)
        e.heap_write(st, new, "name_is_str", True)
    elif isinstance(nm, (VRef, VOpt)):
        e.heap_write(st, new, "name_is_str", False)
    else:
        raise Unsupported("DataCategory name of this kind")
    return new


def ext_replace(e, args, kw, node, st):
    """container.replace(obj): if obj.getName() is a key of the catalog, the catalog entry of that name becomes obj.
    Keys are strings; an object that is not a string is never equal to one (DataCategory.__eq__ answers only for its own class)."""
    c, obj = args[0], args[1]
    if isinstance(obj, VOpt):
        e.may_raise(obj.isnone, "AttributeError", node)
        obj = obj.val
    if not (isinstance(obj, VRef) and obj.cls == "Category"):
        raise Unsupported("replace() of a non-category")
    d = e.heap_read(st, c, "cat")
    name = to_z3(e.heap_read(st, obj, "name"))
    cond = _simp(z3.And(to_z3(e.heap_read(st, obj, "name_is_str")), z3.Select(d.dom, name)))
    if z3.is_false(cond):
        return None
    newvals = z3.Store(d.vals.ident, name, to_z3(obj.ident))
    e.heap_write(st, c, "cat", VDict(d.kshape, d.vshape, d.dom, VRef("Category", z3.If(cond, newvals, d.vals.ident))))
    return None


def ext_writeFile(e, args, kw, node, st):
    """adapter.writeFile(path, containers): afterwards the file at `path` holds render(W), W being the document the list of
    containers stands for at this moment (ghost W; its blocks / categories / items / rows / cells are read off the object graph
    the way the writer walks it: names in order, each looked up in the catalog).  Assumed about the writer: the text depends on
    nothing else (in particular not on DataCategory's cached attribute count / catalog, which an in-place append leaves stale)."""
    if len(args) != 3 or kw or not isinstance(args[2], VList):
        raise Unsupported("writeFile(path, list of containers) only")
    U = e.ufuns
    data = args[2]
    W = z3.Int(uid("W"))
    names_of, cat = _h(e, st, "Container", "names").ident, _h(e, st, "Container", "cat")
    c_attrs, c_rows = _h(e, st, "Category", "attrs").ident, _h(e, st, "Category", "rows").ident
    items, rws, cells = _h(e, st, "StrList", "items"), _h(e, st, "RowList", "rws"), _h(e, st, "Row", "cells")
    b, k, q, a, c = (z3.Int(uid(x)) for x in "bkqac")
    sel2 = lambda arr, x, y: z3.Select(z3.Select(arr, x), y)
    ncat, cname, nattr, attr, nrows, rowlen, cell = (U[x] for x in ("ncat", "cname", "nattr", "attr", "nrows", "rowlen", "cell"))
    cobj = z3.Select(data.elems.ident, b)
    nml = z3.Select(names_of, cobj)
    X = sel2(cat.vals.ident, cobj, cname(W, b, k))
    atl, rwl = z3.Select(c_attrs, X), z3.Select(c_rows, X)
    row = sel2(rws.elems.ident, rwl, q)
    for f_ in [
        U["nblocks"](W) == to_z3(data.length),
        _forall([b], ncat(W, b) == z3.Select(items.length, nml), ncat(W, b)),
        _forall([b, k], cname(W, b, k) == sel2(items.elems, nml, k), cname(W, b, k)),
        _forall([b, k], nattr(W, b, k) == z3.Select(items.length, atl), nattr(W, b, k)),
        _forall([b, k, a], attr(W, b, k, a) == sel2(items.elems, atl, a), attr(W, b, k, a)),
        _forall([b, k], nrows(W, b, k) == z3.Select(rws.length, rwl), nrows(W, b, k)),
        _forall([b, k, q], rowlen(W, b, k, q) == z3.Select(cells.length, row), rowlen(W, b, k, q)),
        _forall([b, k, q, c], cell(W, b, k, q, c) == sel2(cells.elems, row, c), cell(W, b, k, q, c)),
    ]:
        st.assume(f_)
    st.ghost["W"] = W
    st.ghost["__fs"] = z3.Store(_fs(st), to_z3(args[1]), U["render"](W))
    return True


def ext_open(e, args, kw, node, st):
    """open(path[, mode]) in text mode 'r' or 'w' on the ghost file system; may fail with OSError (missing file, permissions)"""
    mode = args[1] if len(args) > 1 else kw.get("mode", "r")
    if not (1 <= len(args) <= 2) or set(kw) - {"mode"} or mode not in ("r", "rt", "w", "wt"):
        raise Unsupported("open(): only open(path), open(path, 'r'|'w') are modelled")
    path = args[0]
    if not (isinstance(path, str) or (z3.is_expr(path) and path.sort() == S)):
        e.may_raise(True, "TypeError", node)
        return None
    e.may_raise(z3.Bool(uid("os_error")), "OSError", node)
    f = _alloc(e, st, "TempFile")
    for fld, v in (("name", path), ("buf", ""), ("pos", 0), ("readable", "r" in mode), ("writable", "w" in mode), ("delete", False)):
        e.heap_write(st, f, fld, v)
    if "w" in mode:
        st.ghost["__fs"] = z3.Store(_fs(st), to_z3(path), z3.StringVal(""))  # truncated
    return f


def ext_ArgumentParser(e, args, kw, node, st):
    if args or kw:
        raise Unsupported("ArgumentParser(...) with arguments")
    p = _alloc(e, st, "Parser")
    e.heap_write(st, p, "positionals", e.default_of(("set", ("str",))))
    e.heap_write(st, p, "optionals", e.default_of(("set", ("str",))))
    return p


def ext_add_argument(e, args, kw, node, st):
    """add_argument(name, help=...): registers destination `name` (positional) or, for '--some-name', `some_name` (optional,
    default None), both plain strings"""
    from pyvc.values import VConc, VSet
    if len(args) != 2 or not isinstance(args[1], str) or set(kw) - {"help"}:
        raise Unsupported("add_argument: only add_argument(<one name>, help=...) is modelled")
    nm = args[1]
    if nm.startswith("--") and len(nm) > 2 and not nm[2:].startswith("-"):
        fld, dest = "optionals", nm[2:].replace("-", "_")
    elif not nm.startswith("-") and nm:
        fld, dest = "positionals", nm
    else:
        raise Unsupported(f"add_argument({nm!r})")
    cur = e.heap_read(st, args[0], fld)
    e.heap_write(st, args[0], fld, VSet(cur.kshape, z3.Store(cur.mem, z3.StringVal(dest), z3.BoolVal(True))))
    return VConc(object())


def ext_parse_args(e, args, kw, node, st):
    """parse_args(): exits (SystemExit) on a bad command line, else a namespace with one attribute per registered destination:
    a string for a positional, a string or None for an optional.  The values are the cli_* constants."""
    if len(args) != 1 or kw:
        raise Unsupported("parse_args(...) with arguments")
    U = e.ufuns
    e.may_raise(z3.Bool(uid("bad_command_line")), "SystemExit", node)
    ns = _alloc(e, st, "Namespace")
    pos, opt = e.heap_read(st, args[0], "positionals"), e.heap_read(st, args[0], "optionals")
    for fld, shp in e.classes["Namespace"]["fields"].items():
        reg = pos if shp == "str" else opt
        if not z3.is_true(_simp(z3.Select(reg.mem, z3.StringVal(fld)))):
            raise Unsupported(f"the namespace model has an attribute {fld} that add_argument did not register as {'positional' if shp == 'str' else 'optional'}")
        val = U["cli_" + fld]()
        e.heap_write(st, ns, fld, val if shp == "str" else VOpt(z3.Not(U["cli_has_" + fld]()), val))
    return ns


def ext_print_help(e, args, kw, node, st):
    return None  # writes to stdout only


ext_print_help.pure = True

EXTERNALS = {
    "builtins.open": ext_open,
    "argparse.ArgumentParser": ext_ArgumentParser, "Parser.add_argument": ext_add_argument, "Parser.parse_args": ext_parse_args,
    "Parser.print_help": ext_print_help,
    "mmcif.io.IoAdapterPy.IoAdapterPy": ext_IoAdapterPy,
    "tempfile.NamedTemporaryFile": ext_NamedTemporaryFile,
    "mmcif.api.DataCategory.DataCategory": ext_DataCategory,
    "TempFile.__enter__": ext_tf_enter, "TempFile.__exit__": ext_tf_exit, "TempFile.write": ext_tf_write,
    "TempFile.seek": ext_tf_seek, "TempFile.read": ext_tf_read,
    "Adapter.readFile": ext_readFile, "Adapter.writeFile": ext_writeFile,
    "Container.getObjNameList": ext_getObjNameList, "Container.getObj": ext_getObj, "Container.replace": ext_replace,
    "Category.getAttributeList": ext_getAttributeList, "Category.getRowList": ext_getRowList,
}

# Heap frame of the two functions.  Their parameters are strings: every object of the model classes they touch is created
# inside the call (by readFile) and dropped at return, and what the property says about "everything else untouched" is stated
# on the written document (others_untouched), not on the heap.  The ghost snapshot fields are rewritten wholesale by readFile;
# the contents of the three list classes are cut by the row loop (the invariants speak about list values, i.e. positions
# below the length, which is all Python can observe - not about the array cells beyond it that a field-level frame compares).
GHOST_FIELDS = ["StrList.items0", "RowList.rws0", "Row.cells0"]
LIST_FIELDS = ["StrList.items", "RowList.rws", "Row.cells"]


# ------------------------------------------------------------------------------------------------ contracts
class copy_from_to:
    params = {"file_content": "str", "category": "str", "copy_from": "str", "copy_to": "str"}
    nonnull_params = True
    ghost_returns = {"W": "int"}
    requires = ["wellformed(parse(file_content))"]
    returns = "str"
    raises = []
    modifies = GHOST_FIELDS + LIST_FIELDS
    locals = {"transformed": "list[Row]"}
    ghost_entry = ["let W = 0 - 1", "let P = parse(file_content)"]
    ensures = [
        "implies(not applies(parse(file_content), category, copy_from), result == file_content)",
        "implies(applies(parse(file_content), category, copy_from), result == render(W))",
        "implies(applies(parse(file_content), category, copy_from), same_skeleton(parse(file_content), W))",
        "implies(applies(parse(file_content), category, copy_from), others_untouched(parse(file_content), W, category))",
        "implies(applies(parse(file_content), category, copy_from), copy_items(parse(file_content), W, category, copy_to))",
        "implies(applies(parse(file_content), category, copy_from), copy_rows(parse(file_content), W, category))",
        "implies(applies(parse(file_content), category, copy_from), copy_other_cells(parse(file_content), W, category, copy_to))",
        "implies(applies(parse(file_content), category, copy_from), copy_target(parse(file_content), W, category, copy_from, copy_to))",
    ]
    ensures_labels = {0: "missing-category-or-source-item-returns-the-input", 1: "result-is-the-written-document",
                      2: "blocks-and-categories-kept", 3: "other-categories-untouched", 4: "items-kept-or-one-appended",
                      5: "rows-kept-full-length", 6: "other-cells-kept", 7: "target-equals-source"}
    loops = {0: {"index": "n", "inv": [
        "lists_kept(attributes)",
        "attributes.items == A1",
        "rows_kept(C, n)",
        "copied(C, n, A1, i1, j1)",
        "collected(C, n, transformed)",
    ]}}
    ghost = [
        {"when": "after", "at": "with tempfile.NamedTemporaryFile(mode='wt')", "label": "parsed", "do": ["assert names_are(data, P)"]},
        {"when": "before", "at": "return file_content", "label": "nothing-to-edit", "do": ["assert not applies(P, category, copy_from)"]},
        {"when": "after", "at": "attributes = category_obj.getAttributeList()", "label": "category-object",
         "do": ["let C = data[0].cat[category]", "let A0 = attributes.items", "let kc = data[0].names.items.index(category)",
                "assert attributes is C.attrs and fresh(attributes) and attributes.kind == 1",
                "assert cat_at(P, kc, category) and C is data[0].cat[cname(P, 0, kc)]",
                "assert items_are(A0, P, kc)",
                "assert full_rows(C, A0)"]},
        {"when": "before", "at": "for row in", "label": "attribute-list",
         "do": ["let A1 = attributes.items", "let i1 = A1.index(copy_from)", "let j1 = A1.index(copy_to)",
                "assert 0 <= i1 and i1 < len(A0) and A1[i1] == copy_from and 0 <= j1 and j1 < len(A1) and A1[j1] == copy_to"]},
    ]


class replace_value:
    params = {"file_content": "str", "category": "str", "column": "str", "values": "str"}
    nonnull_params = True
    ghost_returns = {"W": "int"}
    requires = ["wellformed(parse(file_content))",
                "distinct_chars(values)"]
    returns = "tuple[str,dict[str,str]]"
    # exhausted alphabet: IndexError exactly when some prefix of the rows has more different values than `values` has characters
    # (both directions are obligations: raises.IndexError.only-when at the raising statement, raises.IndexError.whenever at
    # every normal exit); no requires about the length of `values`
    raises = {"IndexError": "not enough_values(parse(file_content), category, column, values)"}
    raises_exact = ["IndexError"]
    modifies = GHOST_FIELDS + LIST_FIELDS
    locals = {"transformed": "list[Row]", "mapping": "dict[str,str]"}
    ghost_entry = ["let W = 0 - 1", "let P = parse(file_content)", "use ndist_definition(P)", "use firstpos_definition(P)"]
    ensures = [
        "implies(not applies(parse(file_content), category, column), result[0] == file_content and len(result[1]) == 0)",
        "implies(applies(parse(file_content), category, column), result[0] == render(W))",
        "implies(applies(parse(file_content), category, column), same_skeleton(parse(file_content), W))",
        "implies(applies(parse(file_content), category, column), others_untouched(parse(file_content), W, category))",
        "implies(applies(parse(file_content), category, column), repl_shape(parse(file_content), W, category))",
        "implies(applies(parse(file_content), category, column), repl_other_cells(parse(file_content), W, category, column))",
        "implies(applies(parse(file_content), category, column), repl_target(parse(file_content), W, category, column, result[1]))",
        "implies(applies(parse(file_content), category, column), repl_domain(parse(file_content), category, column, result[1]))",
        "implies(applies(parse(file_content), category, column), first_seen(parse(file_content), category, column, values, result[1]))",
        "implies(applies(parse(file_content), category, column), injective(result[1]))",
    ]
    ensures_labels = {0: "missing-category-or-item-returns-the-input-and-no-mapping", 1: "result-is-the-written-document",
                      2: "blocks-and-categories-kept", 3: "other-categories-untouched", 4: "items-and-row-shape-kept",
                      5: "other-cells-kept", 6: "target-is-image-under-returned-mapping", 7: "mapping-keys-are-the-old-values",
                      8: "mapping-is-first-seen", 9: "mapping-injective"}
    loops = {0: {"index": "n", "inv": [
        "lists_kept(attributes) and attributes.items == A0",
        "rows_kept(C, n)",
        "len(mapping) >= 0",
        "replaced(C, n, ic, mapping)",
        "keys_seen(P, kc, ic, n, mapping)",
        "first_seen_upto(P, kc, ic, n, values, mapping)",
        "images_in_prefix(values, mapping)",
        "injective(mapping)",
        "collected(C, n, transformed)",
        "prefix_ok(P, kc, ic, n, values)",
    ]}}
    ghost = [
        {"when": "after", "at": "with tempfile.NamedTemporaryFile(mode='wt')", "label": "parsed", "do": ["assert names_are(data, P)"]},
        {"when": "before", "at": "return (file_content", "label": "nothing-to-edit", "do": ["assert not applies(P, category, column)"]},
        {"when": "after", "at": "attributes = category_obj.getAttributeList()", "label": "category-object",
         "do": ["let C = data[0].cat[category]", "let A0 = attributes.items", "let kc = data[0].names.items.index(category)",
                "assert attributes is C.attrs and fresh(attributes) and attributes.kind == 1",
                "assert cat_at(P, kc, category) and C is data[0].cat[cname(P, 0, kc)]",
                "assert items_are(A0, P, kc)",
                "assert full_rows(C, A0)"]},
        {"when": "before", "at": "for row in", "label": "column",
         "do": ["let ic = A0.index(column)",
                "assert item_at(P, kc, ic, column)",
                "assert column_is(C, P, kc, ic)"]},
        {"when": "after", "at": "i = attributes.index(column)", "loop": 0, "label": "row",
         "do": ["assert i == ic and row is C.rows.rws0[n] and row.cells == row.cells0",
                "assert row[i] == cell(P, 0, kc, n, ic)",
                "assert implies(row[i] in mapping, firstpos(P, kc, ic, row[i]) < n and seen_before(P, kc, ic, n))",
                "assert implies(seen_before(P, kc, ic, n), row[i] in mapping)"]},
        {"when": "before", "at": "mapping[row[i]] =", "loop": 0, "label": "new-value",
         "do": ["assert ndist(P, kc, ic, n + 1) == ndist(P, kc, ic, n) + 1",
                "assert 0 <= n + 1 and n + 1 <= nrows(P, 0, kc)"]},
        {"when": "before", "at": "transformed.append(row)", "loop": 0, "label": "counted",
         "do": ["assert len(mapping) == ndist(P, kc, ic, n + 1)"]},
    ]


@spec
def copy_mode():
    return cli_has_copy_from() and len(cli_copy_from()) > 0 and cli_has_copy_to() and len(cli_copy_to()) > 0


@spec
def replace_mode():
    return not copy_mode() and cli_has_replace() and len(cli_replace()) > 0 and cli_has_values() and len(cli_values()) > 0


class copy_from_to_cli(copy_from_to):
    """copy_from_to as main() must use it.  Same contract with *more* preconditions (so implied by the proved one): the actual
    arguments of the call are the content of the input file and the command-line values - these become the data-flow
    obligations call[..]->copy_from_to.requires.1..4 of main.  Ghost results: R = the returned string, called = True."""
    requires = copy_from_to.requires + ["file_content == file_text(cli_input())", "category == cli_category()",
                                        "copy_from == cli_copy_from()", "copy_to == cli_copy_to()"]
    ghost_returns = {"W": "int", "R": "str", "called": "bool"}
    ensures = ["R == result", "called"]
    ensures_labels = {}


class replace_value_cli(replace_value):
    """replace_value as main() must use it (see copy_from_to_cli); R = the first component of the result.  The proved
    postcondition is not needed by main (and its len(result[1]) clauses could not be evaluated at a call site, where the
    result dict carries no insertion order)."""
    requires = replace_value.requires + ["file_content == file_text(cli_input())", "category == cli_category()",
                                         "column == cli_replace()", "values == cli_values()"]
    ghost_returns = {"W": "int", "R": "str", "called": "bool"}
    ensures = ["R == result[0]", "called"]
    ensures_labels = {}


class main:
    """data flow of the command-line tool: the library is called with the *content* of the input file and the command-line
    values (call-site obligations, see the @cli variants), and the text written to the output path is the library's string result"""
    params = {}
    callee_variants = {"copy_from_to": "cli", "replace_value": "cli"}
    requires = ["wellformed(parse(file_text(cli_input())))",
                "cli_has_category()",
                "implies(replace_mode(), distinct_chars(cli_values()))"]
    # IndexError: replace mode with an exhausted alphabet (propagated from replace_value, nothing is written then)
    raises = ["SystemExit", "OSError", "IndexError"]
    modifies = GHOST_FIELDS + LIST_FIELDS
    ghost_entry = ["let wrote = False", "let out_path = ''", "let out_text = ''",
                   "let copy_from_to_called = False", "let copy_from_to_R = ''", "let replace_value_called = False", "let replace_value_R = ''"]
    ensures = [
        "implies(copy_mode(), copy_from_to_called and wrote and out_path == cli_output() and out_text == copy_from_to_R)",
        "implies(replace_mode(), replace_value_called and wrote and out_path == cli_output() and out_text == replace_value_R)",
        "implies(not copy_mode() and not replace_mode(), not wrote)",
    ]
    ensures_labels = {0: "copy-mode-output-file-holds-the-library-result", 1: "replace-mode-output-file-holds-the-library-string-result",
                      2: "no-mode-nothing-written"}


CONTRACTS = {"copy_from_to": copy_from_to, "replace_value": replace_value, "main": main,
             "copy_from_to@cli": copy_from_to_cli, "replace_value@cli": replace_value_cli}
