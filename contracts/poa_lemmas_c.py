"""Sidecar of spec-level LEMMAS for the optimality clause of property C02 (pseudoknot order assignment): no code of /repo is
involved - every target here is a `lemma:` proved by SMT over the spec vocabulary of contracts/common_c.py (crossing, proper,
FC_def), contracts/common_milp_c.py (cross, graph_exact, degree_bound, coef) and contracts/common_all_c.py (greedy_stable,
fc_is and the proved lemma fcfs_levels_are_proper_and_greedy_stable, reused by import).

THE OBJECTS
  R    the stems (start, end, length) - what the contract BpSeq.convert_to_dot_bracket@model calls `regions`; the conflict graph
       is cross(R, a, b) on 0 <= a, b < len(R): symmetric and irreflexive by its definition (lemma conflict_graph_is_simple);
       the weight of stem a is R[a][2] (>= 1: lens_ok, part of regions_ok / regions_match proved for BpSeq.__regions)
  O    a level assignment (list of ints);  proper(R, O) is the clause of common_c ("crossing stems never share a level",
       0 <= level < 30)
  term(L, o) = L if o == 0 else -o * L          the property's objective, per stem (== coef(R, a, o) of the MILP model:
                                                lemma coef_is_term)
  S    the list of the running sums of the objective: prefix_sums(S, R, O) says S[0] == 0, S[n] == S[n-1] + term(R[n-1][2],
       O[n-1]); the objective of O is S[len(R)].  A lemma about the objective takes S as a PARAMETER constrained by
       prefix_sums: it holds for whatever list satisfies the recurrence (which determines S[0..len(R)] uniquely) - no
       uninterpreted sum function, no definitional axiom.
  G, M the conflict graph as the dict of neighbour sets built by the code, and max_order: degree_bound(G, R, M) is the clause
       proved as obligations model-1-conflict-graph / model-2-level-bound of convert_to_dot_bracket@model

WHAT IS PROVED (SMT, induction where a sum is involved: `decreases`)
  term_lower_level_is_better        0 <= k < l, L >= 1  =>  term(L, k) > term(L, l)
  sum_after_move                    the running sums of O[a := k] are those of O, shifted by term(len_a, k) - term(len_a, O[a])
                                    from index a + 1 on                                               (induction over the index)
  exchange                          L-exch: O proper, k < O[a], no stem crossing a on level k  =>  O[a := k] proper and its
                                    objective is strictly larger
  not_improvable_is_stable_at       an O that is not beaten by its one-move competitor O[a := k] has a crossing stem on level k
                                    (for every a and every k < O[a]): an optimum is greedy-stable, "no stem could be moved lower"
  stable_level(s)_fit_under_bound   L-bound, spec level: greedy-stable levels are < M = max degree + 1 (one stem / all stems).  Uses
                                    the counting step pigeonhole_level_le_degree, which SMT cannot do: IMPORTED from Lean (kind
                                    "lean": theorems levels_below_attained_le_card(_int) / level_le_degree of lean/Pigeonhole.lean;
                                    the reading of the Lean statement as this one is documented in lean/README.md and is trusted)
  greedy_stable_is_stable           greedy_stable (contracts/common_all_c.py, with its instantiation guard tg) implies stable
  fcfs_is_a_competitor              the first-come-first-served levels are proper and < M: a feasible competitor of the MILP
  optimum_not_worse_than_fcfs       ... so an O that is not beaten by any proper assignment with levels < M (instance: FCFS) has
                                    an objective >= that of FCFS
  one_hot_row_collapses, one_hot_matrix_objective
                                    L-enc, matrix form: for a 0/1 matrix with x[a][j] == 1 iff j == O[a], sum_a sum_j C[a][j] *
                                    x[a][j] == sum_a C[a][O[a]]                                   (induction over columns, then rows)
NOT provable here (second-order: "for all assignments", iteration of the exchange step): "best among the proper assignments
with levels < M  =>  best among ALL proper assignments" - proved in Lean (restricted_optimum_is_global), see lean/README.md.
"""
from contracts import common_all_c, common_c, common_milp_c


def spec(f):
    return f


__file_spec__ = [common_c.__file__, common_all_c.__file__, common_milp_c.__file__, __file__]

SET_CARD_FUNCTION = True
STABLE_BINDERS = True     # the same clause text over the same values is the identical term (engine._quant)
CLASSES = dict(common_c.CLASSES)
SPEC_CONSTS = dict(common_c.SPEC_CONSTS)
UFUNS = dict(common_milp_c.UFUNS)      # FC, taken (common_c) and times (common_milp_c) are the ones used here
CONTRACTS = {}
INLINE = []


# ------------------------------------------------------------------------------------------------ vocabulary
@spec
def term(L, o):
    """the property's objective for one stem of length L on level o: +L on level 0, -o * L above"""
    return ite(o == 0, L, (0 - o) * L)


@spec
def lens_ok(R):
    """every stem has at least one base pair"""
    return forall(lambda a: implies(0 <= a and a < len(R), R[a][2] >= 1))


@spec
def prefix_sums(S, R, O):
    """S lists the running sums of the objective of the level assignment O: S[n] = sum over a < n of term(len_a, O[a])"""
    return (len(S) == len(R) + 1 and S[0] == 0
            and forall(lambda n: implies(1 <= n and n <= len(R), S[n] == S[n - 1] + term(R[n - 1][2], O[n - 1])), pats=["S[n]"]))


@spec
def free_level(R, O, a, k):
    """no stem crossing stem a sits on level k"""
    return forall(lambda b: implies(0 <= b and b < len(R) and cross(R, a, b), O[b] != k))


@spec
def stable_at(R, O, a, l):
    """if l is a level below the level of stem a, some stem crossing a sits on it"""
    return implies(0 <= a and a < len(R) and 0 <= l and l < O[a],
                   exists(lambda b: 0 <= b and b < len(R) and cross(R, a, b) and O[b] == l))


@spec
def stable_stem(R, O, a):
    """every level below the level of stem a is the level of a stem crossing a: stem a could not be moved to a lower level"""
    return forall(lambda l: stable_at(R, O, a, l))


@spec
def stable(R, O):
    """greedy-stable: every stem sits on the lowest level not used by a stem crossing it ("no stem could be moved to a lower
    level") - greedy_stable of contracts/common_all_c.py without its instantiation guard tg"""
    return forall(lambda a: stable_stem(R, O, a), pats=["O[a]"])


@spec
def neighbours_of(G, R, a):
    """G[a] is exactly the set of stems crossing stem a (what graph_exact(G, R) says about a key a of G)"""
    return forall(lambda b: (b in G[a]) == (0 <= b and b < len(R) and cross(R, a, b)))


@spec
def levels_below(R, O, M):
    return forall(lambda a: implies(0 <= a and a < len(R), 0 <= O[a] and O[a] < M))


@spec
def one_hot(X, O, a, M):
    """row a of the 0/1 matrix X has its single 1 in column O[a]"""
    return (0 <= O[a] and O[a] < M
            and forall(lambda j: implies(0 <= j and j < M, (X[a][j] == 0 or X[a][j] == 1) and ((X[a][j] == 1) == (j == O[a])))))


@spec
def row_sums(W, C, X, a, M):
    """W[a] lists the running sums of row a of the objective: W[a][j] = sum over o < j of C[a][o] * X[a][o]"""
    return (W[a][0] == 0
            and forall(lambda j: implies(1 <= j and j <= M, W[a][j] == W[a][j - 1] + C[a][j - 1] * X[a][j - 1]), pats=["W[a][j]"]))


@spec
def matrix_sums(T, W, n, M):
    """T lists the running sums over the rows of the row totals: T[r] = sum over a < r of W[a][M]"""
    return T[0] == 0 and forall(lambda r: implies(1 <= r and r <= n, T[r] == T[r - 1] + W[r - 1][M]), pats=["T[r]"])


@spec
def chosen_sums(S, C, O, n):
    """S lists the running sums of the coefficients at the chosen columns: S[r] = sum over a < r of C[a][O[a]]"""
    return S[0] == 0 and forall(lambda r: implies(1 <= r and r <= n, S[r] == S[r - 1] + C[r - 1][O[r - 1]]), pats=["S[r]"])


_R, _O, _S, _G = "list[tuple[int,int,int]]", "list[int]", "list[int]", "dict[int,set[int]]"
_MX = "list[list[int]]"
_MOVE_REQ = ["prefix_sums(S, R, O)", "prefix_sums(S2, R, upd(O, a, k))"]

LEMMAS = {
    # reused by import (proved as a target of C16 and, with this sidecar's vocabulary, again here)
    "fcfs_levels_are_proper_and_greedy_stable": common_all_c.LEMMAS["fcfs_levels_are_proper_and_greedy_stable"],
    "times_definition": common_milp_c.LEMMAS["times_definition"],
    # the counting step.  NOT an SMT lemma: proved in Lean 4 + Mathlib (lean/Pigeonhole.lean, theorem level_le_degree, instance of
    # levels_below_attained_le_card with N := G[a] - finite, a subset of range(len(R)) - and f := O), checked by
    # `./check.py C02 --tier thorough`.  card is the uninterpreted set cardinality len.set of the SMT model: that it denotes the
    # number of elements (Finset.card) is part of the trusted reading (lean/README.md).
    "pigeonhole_level_le_degree": {
        "kind": "lean", "params": ["R", "O", "G", "a"], "shapes": [_R, _O, _G, "int"],
        "ensures": ["implies(0 <= a and a < len(R) and neighbours_of(G, R, a) and stable(R, O), "
                    "O[a] <= card(G[a]))"]},

    # ---- the conflict graph is a simple graph; the MILP coefficient is the property's term
    "conflict_graph_is_simple": {
        "kind": "smt", "params": ["R", "a", "b"], "shapes": [_R, "int", "int"],
        "ensures": ["cross(R, a, b) == cross(R, b, a)", "not cross(R, a, a)"]},
    "coef_is_term": {
        "kind": "smt", "params": ["R", "a", "o"], "shapes": [_R, "int", "int"],
        "steps": ["use times_definition(-1 * R[a][2], o)"],
        "ensures": ["coef(R, a, o) == term(R[a][2], o)"]},

    # ---- L-exch
    "term_lower_level_is_better": {
        "kind": "smt", "params": ["L", "k", "l"],
        "steps": ["assert implies(L >= 1 and 0 <= k and k < l, (l - k) * L >= L)",
                  "assert implies(L >= 1 and 0 <= k and k < l, l * L >= L)"],
        "ensures": ["implies(L >= 1 and 0 <= k and k < l, term(L, k) > term(L, l))"]},
    "sum_after_move": {
        "kind": "smt", "params": ["R", "O", "S", "S2", "a", "k", "n"], "shapes": [_R, _O, _S, _S, "int", "int", "int"],
        "requires": _MOVE_REQ,
        "decreases": "ite(n > 0, n, 0)",
        "steps": ["use sum_after_move(R, O, S, S2, a, k, n - 1) when n > 0",
                  "let IN = 0 <= a and a < len(R) and 1 <= n and n <= len(R)",
                  "assert implies(IN, S[n] == S[n - 1] + term(R[n - 1][2], O[n - 1]))",
                  "assert implies(IN, S2[n] == S2[n - 1] + term(R[n - 1][2], upd(O, a, k)[n - 1]))"],
        "ensures": ["implies(0 <= a and a < len(R) and 0 <= n and n <= len(R), "
                    "S2[n] == S[n] + ite(a < n, term(R[a][2], k) - term(R[a][2], O[a]), 0))"]},
    "exchange": {
        "kind": "smt", "params": ["R", "O", "S", "S2", "a", "k"], "shapes": [_R, _O, _S, _S, "int", "int"],
        "requires": _MOVE_REQ + ["lens_ok(R)", "proper(R, O)", "0 <= a and a < len(R)", "0 <= k and k < O[a]", "free_level(R, O, a, k)"],
        "steps": ["use sum_after_move(R, O, S, S2, a, k, len(R))",
                  "use term_lower_level_is_better(R[a][2], k, O[a])",
                  "assert S2[len(R)] == S[len(R)] + term(R[a][2], k) - term(R[a][2], O[a])",
                  "forall x | assert implies(0 <= x and x < len(R), 0 <= upd(O, a, k)[x] and upd(O, a, k)[x] < 30)",
                  "forall x, y | use conflict_graph_is_simple(R, x, y) | use conflict_graph_is_simple(R, x, x) "
                  "| assert implies(0 <= x and x < len(R) and 0 <= y and y < len(R) and cross(R, x, y), upd(O, a, k)[x] != upd(O, a, k)[y])"],
        "ensures": ["proper(R, upd(O, a, k))", "S2[len(R)] > S[len(R)]"]},
    # "hence an optimal proper assignment is greedy-stable": optimality is used at ONE competitor, the assignment O[a := k]
    # (first-order instance of "no proper assignment has a larger objective"); a and k are arbitrary
    "not_improvable_is_stable_at": {
        "kind": "smt", "params": ["R", "O", "S", "S2", "a", "k"], "shapes": [_R, _O, _S, _S, "int", "int"],
        "requires": _MOVE_REQ + ["lens_ok(R)", "proper(R, O)",
                                 "implies(proper(R, upd(O, a, k)), S2[len(R)] <= S[len(R)])"],
        "steps": ["let HYP = 0 <= a and a < len(R) and 0 <= k and k < O[a] and free_level(R, O, a, k)",
                  "use exchange(R, O, S, S2, a, k) when HYP",
                  "assert not HYP"],
        "ensures": ["stable_at(R, O, a, k)"]},

    # ---- L-bound at spec level (the counting step imported from Lean)
    "stable_level_fits_under_bound": {
        "kind": "smt", "params": ["R", "O", "G", "M", "a"], "shapes": [_R, _O, _G, "int", "int"],
        "requires": ["degree_bound(G, R, M)", "stable(R, O)"],
        "steps": ["assert_last 1 stable_at(R, O, a, 0)",     # (from the last hypothesis alone: stable(R, O) at a, l = 0)
                  "assert M >= 1",
                  # a stem that crosses nothing sits on level 0
                  "forall b | assert implies(0 <= a and a < len(R) and 0 <= b and b < len(R) and cross(R, a, b), a in G and b in G[a])",
                  "assert implies(0 <= a and a < len(R) and not (a in G), forall(lambda b: implies(0 <= b and b < len(R), not cross(R, a, b))))",
                  "assert implies(0 <= a and a < len(R) and not (a in G), O[a] <= 0)",
                  # a stem with crossing stems: its level is at most their number (Lean), which is below M
                  "assert implies(a in G, 0 <= a and a < len(R) and neighbours_of(G, R, a))",
                  "use pigeonhole_level_le_degree(R, O, G, a)",
                  "assert implies(a in G, O[a] <= card(G[a]) and card(G[a]) + 1 <= M)"],
        "ensures": ["implies(0 <= a and a < len(R), O[a] < M)"]},
    "stable_levels_fit_under_bound": {
        "kind": "smt", "params": ["R", "O", "G", "M"], "shapes": [_R, _O, _G, "int"],
        "requires": ["degree_bound(G, R, M)", "stable(R, O)"],
        "steps": ["forall a | use stable_level_fits_under_bound(R, O, G, M, a) "
                  "| assert implies(0 <= a and a < len(R), O[a] < M)"],
        "ensures": ["forall(lambda a: implies(0 <= a and a < len(R), O[a] < M))"]},

    # ---- FCFS is a feasible competitor of the MILP; an optimum of the MILP's problem is never worse
    "greedy_stable_is_stable": {
        "kind": "smt", "params": ["R", "O"], "shapes": [_R, _O],
        "steps": ["define tg(x, l) = True",
                  "forall a, l | assert implies(greedy_stable(R, O), stable_at(R, O, a, l))",
                  "forall a | assert implies(greedy_stable(R, O), stable_stem(R, O, a))"],
        "ensures": ["implies(greedy_stable(R, O), stable(R, O))"]},
    "fcfs_is_a_competitor": {
        "kind": "smt", "params": ["R", "F", "G", "M"], "shapes": [_R, _O, _G, "int"],
        "requires": ["fc_is(R, F)", "degree_bound(G, R, M)"],
        "steps": ["define tg(x, l) = True",
                  "use fcfs_levels_are_proper_and_greedy_stable(R, F)",
                  "use greedy_stable_is_stable(R, F)",
                  "use stable_levels_fit_under_bound(R, F, G, M)"],
        "ensures": ["proper(R, F)", "stable(R, F)", "levels_below(R, F, M)"]},
    # optimality of O is used at ONE competitor: the FCFS levels F
    "optimum_not_worse_than_fcfs": {
        "kind": "smt", "params": ["R", "O", "S", "F", "SF", "G", "M"], "shapes": [_R, _O, _S, _O, _S, _G, "int"],
        "requires": ["fc_is(R, F)", "degree_bound(G, R, M)", "prefix_sums(S, R, O)", "prefix_sums(SF, R, F)",
                     "implies(proper(R, F) and levels_below(R, F, M), SF[len(R)] <= S[len(R)])"],
        "steps": ["use fcfs_is_a_competitor(R, F, G, M)"],
        "ensures": ["SF[len(R)] <= S[len(R)]"]},

    # ---- L-enc, matrix form
    "one_hot_row_collapses": {
        "kind": "smt", "params": ["C", "X", "O", "W", "a", "M", "j"], "shapes": [_MX, _MX, _O, _MX, "int", "int", "int"],
        "requires": ["one_hot(X, O, a, M)", "row_sums(W, C, X, a, M)"],
        "decreases": "ite(j > 0, j, 0)",
        "steps": ["use one_hot_row_collapses(C, X, O, W, a, M, j - 1) when j > 0",
                  "let IN = 1 <= j and j <= M",
                  "assert implies(IN, W[a][j] == W[a][j - 1] + C[a][j - 1] * X[a][j - 1])",
                  "assert implies(IN, X[a][j - 1] == ite(j - 1 == O[a], 1, 0))",
                  "assert implies(IN, C[a][j - 1] * X[a][j - 1] == ite(j - 1 == O[a], C[a][j - 1], 0))"],
        "ensures": ["implies(0 <= j and j <= M, W[a][j] == ite(O[a] < j, C[a][O[a]], 0))"]},
    "one_hot_matrix_objective": {
        "kind": "smt", "params": ["C", "X", "O", "W", "T", "S", "n", "M", "r"], "shapes": [_MX, _MX, _O, _MX, _S, _S, "int", "int", "int"],
        "requires": ["forall(lambda a: implies(0 <= a and a < n, one_hot(X, O, a, M) and row_sums(W, C, X, a, M)))",
                     "matrix_sums(T, W, n, M)", "chosen_sums(S, C, O, n)"],
        "decreases": "ite(r > 0, r, 0)",
        "steps": ["use one_hot_matrix_objective(C, X, O, W, T, S, n, M, r - 1) when r > 0",
                  "let IN = 1 <= r and r <= n",
                  "assert implies(IN, one_hot(X, O, r - 1, M) and row_sums(W, C, X, r - 1, M))",
                  "use one_hot_row_collapses(C, X, O, W, r - 1, M, M) when IN",
                  "assert implies(IN, W[r - 1][M] == C[r - 1][O[r - 1]])",
                  "assert implies(IN, T[r] == T[r - 1] + W[r - 1][M] and S[r] == S[r - 1] + C[r - 1][O[r - 1]])"],
        "ensures": ["implies(0 <= r and r <= n, T[r] == S[r])"]},
}
