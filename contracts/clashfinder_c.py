"""Sidecar contract for rnapolis/clashfinder.py (C17): find_clashes == the pairwise van-der-Waals definition.

Abstract model of the structure (what the function reads and nothing more):
  Residue3D : heap object with fields  atoms (sequence of Atom references; a tuple in the library, only iterated and
              indexed) and is_nucleotide (bool; a cached property of the library, opaque here);  `==` on two residues is the
              dataclass-generated __eq__, modelled as the uninterpreted relation res_eq (see requires[0])
  Atom      : heap object with fields  name (str), coordinates (vec3; the library's cached property numpy.array([x, y, z])),
              occupancy (Optional[float])

Vocabulary of the contract.  A *position* is a pair (a, p): atom p of residue a of the argument list.  The ghost lists GA, GP
(residue index / atom index of the t-th selected atom) enumerate the selected positions in structure order; the ghost lists
KI, KJ give, for the k-th entry of the result, the two enumeration indices it was built from.  They are written only by ghost
code below and are fully determined by the postcondition (strictly increasing enumeration of exactly the selected positions).
Proof-only ghosts (invariants, never in the postcondition): IX maps a selected position to its enumeration index, KQ gives for
each result entry its place in the (arbitrary, duplicate-free) iteration order S of the KD-tree pair set PAIRS, KX maps a place
of S to the result entry made from it - explicit witnesses, so that no invariant needs an existential quantifier.

Numbers: floats are reals (assumption A-real); decimal literals denote exactly their decimal value.
The Euclidean distance is the *uninterpreted* function dist3(p, q): the same function stands for numpy.linalg.norm(p - q) in
the code, for the distance used by scipy's KD tree, and for "distance" in the postcondition, so no property of it is needed
and every obligation is linear arithmetic.  str.strip is likewise uninterpreted (py_strip): the proof holds for any function."""
import z3

from pyvc.expr import VVec
from pyvc.values import Unsupported, VConc, VDict, VList, VSet, fresh, key_sorts, key_terms, sel, sto, to_z3, uid


def spec(f):
    return f


# pinned reference table of the property (the tool's reduced heavy-atom radii); same numbers as oracles/geom_o.RADII.
# The code's own constants are read from the real module on every run; a changed constant makes code and table disagree.
RADII = {"C": 0.6, "N": 0.54, "O": 0.53, "P": 0.94}
MOLPROBITY_MARGIN = 0.5
SPEC_CONSTS = {"R_C": RADII["C"], "R_N": RADII["N"], "R_O": RADII["O"], "R_P": RADII["P"], "MARGIN": MOLPROBITY_MARGIN}

CLASSES = {
    "Residue3D": {"kind": "object", "eq": "res_eq", "fields": {"atoms": "list[Atom]", "is_nucleotide": "bool"}},
    "Atom": {"kind": "object", "fields": {"name": "str", "coordinates": "vec3", "occupancy": "opt[real]"}},
}
INLINE = ["AtomType.matches"]
PRUNE_BRANCHES = False

UFUNS = {
    "res_eq": (["int", "int"], "bool"),      # Residue3D.__eq__ (dataclass-generated field-wise equality) on two references
    "dist3": (["real"] * 6, "real"),         # Euclidean distance |p - q| of two points of 3-space (uninterpreted)
    "py_strip": (["str"], "str"),            # str.strip() (uninterpreted)
}


# ------------------------------------------------------------------ assumed contracts of third-party / stdlib calls
def _norm(e, args, kw, node, st):
    """numpy.linalg.norm(p - q) for two 3-vectors p, q == dist3(p, q), the Euclidean distance of the two points (A-real).
    Only this use of norm (norm of a difference of two vectors) is given a contract here."""
    v = args[0]
    if not isinstance(v, VVec) or len(v.c) != 3 or kw:
        raise Unsupported("norm of something that is not a plain 3-vector")
    if not all(z3.is_app_of(c, z3.Z3_OP_SUB) and c.num_args() == 2 for c in v.c):
        raise Unsupported("norm of a vector that is not syntactically a difference p - q")
    return e.ufuns["dist3"](*([c.arg(0) for c in v.c] + [c.arg(1) for c in v.c]))


def _isclose(e, args, kw, node, st):
    """math.isclose(a, b) per its documentation with the default tolerances:
    abs(a-b) <= max(rel_tol * max(abs(a), abs(b)), abs_tol), rel_tol = 1e-09, abs_tol = 0.0   (finite reals, A-real)"""
    if kw or len(args) != 2:
        raise Unsupported("math.isclose with explicit tolerances")
    a, b = to_z3(args[0], "real"), to_z3(args[1], "real")
    ab = lambda x: z3.If(x >= 0, x, -x)
    big = z3.If(ab(a) >= ab(b), ab(a), ab(b))
    return ab(a - b) <= z3.RealVal("1/1000000000") * big


class _KD:
    """value of scipy.spatial.KDTree(points): just remembers the points"""

    def __init__(self, points):
        self.points = points
        self.query_pairs = _QP()


class _QP:
    def __init__(self):
        self.__module__, self.__qualname__ = "scipy.spatial", "KDTree.query_pairs"

    def __call__(self, *a, **k):
        raise RuntimeError("symbolic handle")


def _kdtree(e, args, kw, node, st):
    """scipy.spatial.KDTree(points) for a non-empty sequence of 3-vectors: the tree over exactly these points, in order"""
    pts = args[0]
    if kw or len(args) != 1 or not isinstance(pts, VList) or pts.eshape != ("vec", 3):
        raise Unsupported("KDTree of something that is not a list of 3-vectors")
    e.may_raise(to_z3(pts.length) < 1, "ValueError", node)
    return VConc(_KD(pts))


def _query_pairs(e, args, kw, node, st):
    """tree.query_pairs(r) returns exactly the SET {(i, j) : 0 <= i < j < n, dist3(p_i, p_j) <= r}  (a Python set: the engine
    iterates it in an arbitrary duplicate-free order)"""
    if kw or len(args) != 1:
        raise Unsupported("query_pairs with options")
    tree = e.ev(node.func.value, st)  # the receiver (re-evaluated: KDTree(...) is pure)
    if not (isinstance(tree, VConc) and isinstance(tree.obj, _KD)):
        raise Unsupported("query_pairs on an unknown receiver")
    pts = tree.obj.points
    r = to_z3(args[0], "real")
    n = to_z3(pts.length)
    mem = z3.Const(uid("kdpairs"), z3.ArraySort(z3.IntSort(), z3.ArraySort(z3.IntSort(), z3.BoolSort())))
    i, j = z3.Int(uid("i")), z3.Int(uid("j"))
    inside = z3.And(0 <= i, i < j, j < n, e.ufuns["dist3"](*(sel(pts.elems, i).c + sel(pts.elems, j).c)) <= r)
    st.assume(z3.ForAll([i, j], mem[i][j] == inside, patterns=[mem[i][j]]))
    return VSet(("tuple", (("int",), ("int",))), mem)


def _strip(e, args, kw, node, st):
    """s.strip() == py_strip(s): a function of the string value (nothing else is assumed)"""
    if len(args) != 1:
        raise Unsupported("str.strip(chars)")
    return e.ufuns["py_strip"](to_z3(args[0]))


# spec vocabulary (not third-party): list append as a value, the empty int list
def _push(e, args, kw, node, st):
    lst, x = args
    return VList(to_z3(lst.length) + 1, sto(lst.elems, [to_z3(lst.length)], e.coerce(x, lst.eshape)), lst.eshape)


def _empty_ints(e, args, kw, node, st):
    return e.default_of(("list", ("int",)))


def _empty_map(kshape):
    def f(e, args, kw, node, st):
        ks = key_sorts(kshape)
        dom = z3.BoolVal(False)
        for k in reversed(ks):
            dom = z3.K(k, dom)
        return VDict(kshape, ("int",), dom, fresh(("int",), uid("gmap"), tuple(ks)), None, None)
    return f


def _put(e, args, kw, node, st):
    """map update as a value (ghost maps are total arrays; only the stored entries are ever read)"""
    d, key, val = args
    ks = key_terms(key)
    from pyvc.calls import _store_multi
    return VDict(d.kshape, d.vshape, _store_multi(d.dom, ks, z3.BoolVal(True)), sto(d.vals, ks, to_z3(val)), None, None)


EXTERNALS = {
    "numpy.linalg.norm": _norm, "math.isclose": _isclose,
    "scipy.spatial._kdtree.KDTree": _kdtree, "KDTree": _kdtree, "scipy.spatial.KDTree.query_pairs": _query_pairs,
    "str.strip": _strip,
    "spec.push": _push, "spec.empty_ints": _empty_ints, "spec.put": _put,
    "spec.empty_map1": _empty_map(("int",)), "spec.empty_map2": _empty_map(("tuple", (("int",), ("int",)))),
}
SPEC_EXTERNALS = {"norm": "numpy.linalg.norm", "isclose": "math.isclose", "push": "spec.push", "empty_ints": "spec.empty_ints",
                  "put": "spec.put", "empty_map1": "spec.empty_map1", "empty_map2": "spec.empty_map2"}


# ------------------------------------------------------------------ the definition (transcribed from the property statement)
@spec
def passes(r, nucleic_acid_only):
    """residues passing the nucleic-acid-only option"""
    return implies(nucleic_acid_only, r.is_nucleotide)


@spec
def selected(x):
    """C/N/O/P atoms: the stripped name starts with C, N, O or P"""
    return (x.name.strip().startswith("C") or x.name.strip().startswith("N") or x.name.strip().startswith("O")
            or x.name.strip().startswith("P"))


@spec
def rad(x):
    """radius of the atom's type (pinned table)"""
    return ite(x.name.strip().startswith("C"), R_C, ite(x.name.strip().startswith("N"), R_N,
                                                          ite(x.name.strip().startswith("O"), R_O, R_P)))


@spec
def selpos(residues, nao, a, p):
    """(a, p) is a selected position"""
    return (0 <= a and a < len(residues) and 0 <= p and p < len(residues[a].atoms) and passes(residues[a], nao)
            and selected(residues[a].atoms[p]))


@spec
def lexlt(a, p, b, q):
    return a < b or (a == b and p < q)


@spec
def occp(x):
    """occ' = occupancy or 1.0"""
    return x.occupancy or 1.0


@spec
def is_clash(x, y, same_residue, ignore_occupancy, ignore_autoclashes, require_same_atom_name, enable_molprobity_mode):
    """the pairwise definition for two selected atoms x, y"""
    return (norm(x.coordinates - y.coordinates) <= rad(x) + rad(y) + ite(enable_molprobity_mode, MARGIN, 0.0)
            and not (ignore_autoclashes and same_residue)
            and not (require_same_atom_name and x.name != y.name)
            and (ignore_occupancy or isclose(occp(x) + occp(y), 1.0)))


@spec
def clash(residues, GA, GP, t, u, io, ia, rs, mp):
    """enumeration indices t, u name a clashing pair; same residue = same position in the residue list"""
    return is_clash(residues[GA[t]].atoms[GP[t]], residues[GA[u]].atoms[GP[u]], GA[t] == GA[u], io, ia, rs, mp)


@spec
def entry_is(e, residues, GA, GP, t, u):
    """e == ((residue, atom) of t, (residue, atom) of u, occ'_t + occ'_u), by object identity"""
    return (e[0][0] is residues[GA[t]] and e[0][1] is residues[GA[t]].atoms[GP[t]]
            and e[1][0] is residues[GA[u]] and e[1][1] is residues[GA[u]].atoms[GP[u]]
            and e[2] == occp(residues[GA[t]].atoms[GP[t]]) + occp(residues[GA[u]].atoms[GP[u]]))


@spec
def flat_ok(residues, nao, GA, GP, RR, RA, CO, t):
    """the program's flat lists agree with the ghost enumeration at index t"""
    return (selpos(residues, nao, GA[t], GP[t]) and RR[t] is residues[GA[t]] and RA[t] is residues[GA[t]].atoms[GP[t]]
            and CO[t] == residues[GA[t]].atoms[GP[t]].coordinates)


OPTS = "ignore_occupancy, ignore_autoclashes, require_same_atom_name, enable_molprobity_mode"
FLAT = "residues, nucleic_acid_only, GA, GP, reference_residues, reference_atoms, coordinates"
LENS = ("0 <= len(GA) and len(GA) == len(GP) and len(reference_residues) == len(GA) and len(reference_atoms) == len(GA) "
        "and len(coordinates) == len(GA)")


class find_clashes:
    params = {"residues": "list[Residue3D]", "ignore_occupancy": "bool", "ignore_autoclashes": "bool",
              "nucleic_acid_only": "bool", "require_same_atom_name": "bool", "enable_molprobity_mode": "bool"}
    requires = [
        # `ri == rj` is the dataclass __eq__ of Residue3D: reflexive, and distinct entries of the list are not equal
        "forall(lambda a, b: implies(0 <= a and a < len(residues) and 0 <= b and b < len(residues), res_eq(residues[a], residues[b]) == (a == b)))",
        # derived from `AtomType[ai.name[0]]` (KeyError / wrong type otherwise): a selected atom's name and its stripped name
        # start with the same character - true whenever the stored name carries no leading blank (both parsers strip it)
        "forall(lambda a, p: implies(selpos(residues, nucleic_acid_only, a, p), char(residues[a].atoms[p].name, 0) == char(residues[a].atoms[p].name.strip(), 0)))",
    ]
    returns = "list[tuple[tuple[Residue3D,Atom],tuple[Residue3D,Atom],real]]"
    # the ghost lists the postcondition is stated with, for callers (clashfinder_main_c.main): exists GA, GP, KI, KJ. ensures
    ghost_returns = {"GA": "list[int]", "GP": "list[int]", "KI": "list[int]", "KJ": "list[int]"}
    raises = []
    modifies = []
    locals = {"reference_residues": "list[Residue3D]", "reference_atoms": "list[Atom]", "coordinates": "list[vec3]",
              "result": "list[tuple[tuple[Residue3D,Atom],tuple[Residue3D,Atom],real]]"}
    ensures = [
        # (GA, GP) enumerates exactly the selected positions, in structure order
        "len(GA) == len(GP) and forall(lambda t: implies(0 <= t and t < len(GA), selpos(residues, nucleic_acid_only, GA[t], GP[t])))",
        "forall(lambda t, u: implies(0 <= t and t < u and u < len(GA), lexlt(GA[t], GP[t], GA[u], GP[u])))",
        "forall(lambda a, p: implies(selpos(residues, nucleic_acid_only, a, p), exists(lambda t: 0 <= t and t < len(GA) and GA[t] == a and GP[t] == p)))",
        # every listed entry is a pair t < u of selected atoms satisfying the definition, with its residues, atoms, occupancy sum
        "len(KI) == len(result) and len(KJ) == len(result) and forall(lambda k: implies(0 <= k and k < len(result), "
        f"0 <= KI[k] and KI[k] < KJ[k] and KJ[k] < len(GA) and entry_is(result[k], residues, GA, GP, KI[k], KJ[k]) and clash(residues, GA, GP, KI[k], KJ[k], {OPTS})))",
        # each pair once
        "forall(lambda k, l: implies(0 <= k and k < l and l < len(result), KI[k] != KI[l] or KJ[k] != KJ[l]))",
        # every pair satisfying the definition is listed
        f"forall(lambda t, u: implies(0 <= t and t < u and u < len(GA) and clash(residues, GA, GP, t, u, {OPTS}), "
        "exists(lambda k: 0 <= k and k < len(result) and KI[k] == t and KJ[k] == u)))",
    ]
    ensures_labels = {0: "enumeration.selected", 1: "enumeration.ordered", 2: "enumeration.complete",
                      3: "listed-pairs-satisfy-definition", 4: "each-pair-once", 5: "every-clash-listed"}
    loops = {
        0: {"index": "a", "labels": {0: "lengths", 1: "flat-lists-are-selected-atoms", 2: "structure-order", 3: "no-selected-atom-skipped"}, "inv": [
            LENS,
            f"forall(lambda t: implies(0 <= t and t < len(GA), flat_ok({FLAT}, t) and GA[t] < a))",
            "forall(lambda t, u: implies(0 <= t and t < u and u < len(GA), lexlt(GA[t], GP[t], GA[u], GP[u])))",
            "forall(lambda b, q: implies(selpos(residues, nucleic_acid_only, b, q) and b < a, 0 <= IX[b, q] and IX[b, q] < len(GA) and GA[IX[b, q]] == b and GP[IX[b, q]] == q))",
        ]},
        1: {"index": "p", "labels": {0: "lengths", 1: "flat-lists-are-selected-atoms", 2: "structure-order", 3: "no-selected-atom-skipped"}, "inv": [
            LENS,
            f"forall(lambda t: implies(0 <= t and t < len(GA), flat_ok({FLAT}, t) and lexlt(GA[t], GP[t], a, p)))",
            "forall(lambda t, u: implies(0 <= t and t < u and u < len(GA), lexlt(GA[t], GP[t], GA[u], GP[u])))",
            "forall(lambda b, q: implies(selpos(residues, nucleic_acid_only, b, q) and lexlt(b, q, a, p), 0 <= IX[b, q] and IX[b, q] < len(GA) and GA[IX[b, q]] == b and GP[IX[b, q]] == q))",
        ]},
        2: {"index": "w", "seq": "S", "iter": "PAIRS",
            "labels": {0: "lengths", 1: "recorded-pairs-satisfy-definition", 2: "recorded-in-enumeration-order",
                       3: "every-clash-of-the-prefix-recorded", 4: "kd-radius-sufficient"}, "inv": [
            "0 <= len(result) and len(KQ) == len(result) and len(KI) == len(result) and len(KJ) == len(result)",
            "forall(lambda k: implies(0 <= k and k < len(result), 0 <= KQ[k] and KQ[k] < w and KI[k] == S[KQ[k]][0] and KJ[k] == S[KQ[k]][1] "
            f"and 0 <= KI[k] and KI[k] < KJ[k] and KJ[k] < len(GA) and entry_is(result[k], residues, GA, GP, KI[k], KJ[k]) and clash(residues, GA, GP, KI[k], KJ[k], {OPTS})))",
            "forall(lambda k, l: implies(0 <= k and k < l and l < len(result), KQ[k] < KQ[l]))",
            f"forall(lambda v: implies(0 <= v and v < w and 0 <= S[v][0] and S[v][0] < S[v][1] and S[v][1] < len(GA) and clash(residues, GA, GP, S[v][0], S[v][1], {OPTS}), "
            "0 <= KX[v] and KX[v] < len(result) and KQ[KX[v]] == v))",
            # KD radius sufficiency: the pre-filter (pairs within 2 * max radius + margin) loses no clash
            f"forall(lambda t, u: implies(0 <= t and t < u and u < len(GA) and clash(residues, GA, GP, t, u, {OPTS}), "
            "(t, u) in PAIRS))",
        ]},
    }
    ghost = [
        {"when": "after", "at": "coordinates = []", "label": "ghost-init",
         "do": ["let GA = empty_ints()", "let GP = empty_ints()", "let KQ = empty_ints()", "let KI = empty_ints()", "let KJ = empty_ints()",
                "let IX = empty_map2()", "let KX = empty_map1()"]},
        {"when": "after", "at": "coordinates.append(", "label": "enumerate",
         "do": ["let IX = put(IX, (a, p), len(GA))", "let GA = push(GA, a)", "let GP = push(GP, p)"]},
        {"when": "after", "at": "ri, rj =", "label": "pair-is-two-selected-atoms",
         "do": ["assert 0 <= i and i < j and j < len(GA)",
                f"assert flat_ok({FLAT}, i) and flat_ok({FLAT}, j)",
                "assert ai is residues[GA[i]].atoms[GP[i]] and aj is residues[GA[j]].atoms[GP[j]] and ri is residues[GA[i]] and rj is residues[GA[j]]",
                "assert (ri == rj) == (GA[i] == GA[j])"]},
        {"when": "after", "at": "sum_vdw_radii =", "label": "radii-are-the-table",
         "do": ["assert sum_vdw_radii == rad(ai) + rad(aj)"]},
        {"when": "after", "at": "sum_occupancies =", "label": "occupancy-sum",
         "do": ["assert sum_occupancies == occp(ai) + occp(aj)"]},
        {"when": "before", "at": "return result", "label": "no-clash-lost",
         "do": [f"forall t, u | assert implies(0 <= t and t < u and u < len(GA) and clash(residues, GA, GP, t, u, {OPTS}), (t, u) in PAIRS)"
                f" | assert implies(0 <= t and t < u and u < len(GA) and clash(residues, GA, GP, t, u, {OPTS}), exists(lambda v: 0 <= v and v < len(S) and S[v][0] == t and S[v][1] == u))"
                f" | assert implies(0 <= t and t < u and u < len(GA) and clash(residues, GA, GP, t, u, {OPTS}), exists(lambda k: 0 <= k and k < len(result) and KI[k] == t and KJ[k] == u))"]},
        {"when": "after", "at": "result.append(", "label": "record-pair",
         "do": ["let KX = put(KX, w, len(KQ))", "let KQ = push(KQ, w)", "let KI = push(KI, i)", "let KJ = push(KJ, j)"]},
    ]


CONTRACTS = {"find_clashes": find_clashes}
