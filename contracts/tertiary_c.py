"""Sidecar contracts for the torsion functions of rnapolis/tertiary.py and rnapolis/tertiary_v2.py (C18).
Arithmetic is over the reals (assumption A-real); atan2 is an uninterpreted function characterised by positive
scale invariance (lemma atan2_scale, an assumed property of libm's atan2 over the reals).

Proof engineering: x / n is encoded as x * inv(n) with the defining fact n != 0 -> inv(n) * n == 1, so every ghost
assertion is either a pure ring identity (decided by z3's polynomial normaliser) or linear over monomials once one
of the tiny algebra lemmas below (each proved by SMT in isolation) has been instantiated."""
from contracts.externals import NUMPY


def spec(f):
    return f


EXTERNALS = NUMPY
SPEC_EXTERNALS = {"norm": "numpy.linalg.norm", "atan2": "math.atan2"}
CLASSES = {}
INLINE = []
PRUNE_BRANCHES = True


@spec
def dot3(a, b):
    return a[0] * b[0] + a[1] * b[1] + a[2] * b[2]


@spec
def cross3(a, b):
    return vec(a[1] * b[2] - a[2] * b[1], a[2] * b[0] - a[0] * b[2], a[0] * b[1] - a[1] * b[0])


@spec
def inv(x):
    return 1 / x


@spec
def iupac_x(p1, p2, p3, p4):
    return dot3(cross3(p2 - p1, p3 - p2), cross3(p3 - p2, p4 - p3))


@spec
def triple(p1, p2, p3, p4):
    return dot3(p2 - p1, cross3(p3 - p2, p4 - p3))


@spec
def iupac_y(p1, p2, p3, p4):
    return norm(p3 - p2) * triple(p1, p2, p3, p4)


R = ["real"]
LEMMAS = {
    # assumed property of atan2 over the reals: invariance under positive scaling of the point (x, y)
    "atan2_scale": {"kind": "assumed-external", "params": ["y", "x", "lam", "y0", "x0"],
                    "requires": ["lam > 0", "y == lam * y0", "x == lam * x0"], "ensures": ["atan2(y, x) == atan2(y0, x0)"]},
    # algebra lemmas, each proved in isolation
    "mul_one": {"kind": "smt", "params": ["a", "b"], "shapes": R * 2, "requires": ["b == 1"], "ensures": ["a * b == a"]},
    "mul_eq": {"kind": "smt", "params": ["a", "b", "c"], "shapes": R * 3, "requires": ["b == c"], "ensures": ["a * b == a * c"]},
    "sq_one": {"kind": "smt", "params": ["u"], "shapes": R, "requires": ["u == 1"], "ensures": ["u * u == 1"]},
    "one_minus_sq": {"kind": "smt", "params": ["a", "d"], "shapes": R * 2, "requires": ["a == 1 - d * d"], "ensures": ["a <= 1", ]},
    "prod_le_one": {"kind": "smt", "params": ["a", "b"], "shapes": R * 2,
                    "requires": ["0 <= a", "a <= 1", "0 <= b", "b <= 1"], "ensures": ["a * b <= 1"]},
    "sq_bound": {"kind": "smt", "params": ["x", "ab", "c"], "shapes": R * 3,
                 "requires": ["ab - x * x == c", "c >= 0", "ab <= 1"], "ensures": ["-1 <= x", "x <= 1"]},
    "sumsq_nonneg": {"kind": "smt", "params": ["a", "b", "c"], "shapes": R * 3, "ensures": ["a * a + b * b + c * c >= 0"]},
    "pos_prod4": {"kind": "smt", "params": ["a", "b", "c", "d"], "shapes": R * 4,
                  "requires": ["a > 0", "b > 0", "c > 0", "d > 0"], "ensures": ["a * b * c * d > 0"]},
    "inv_pos": {"kind": "smt", "params": ["n", "r"], "shapes": R * 2, "requires": ["n > 0", "r * n == 1"], "ensures": ["r > 0"]},
}


# spec-level lemmas of C18 over the IUPAC polynomials (no code involved): reversal keeps (X, T), mirroring negates T
V = ["vec3"] * 4
LEMMAS["reversal"] = {"kind": "smt", "params": ["p1", "p2", "p3", "p4"], "shapes": V,
                      "ensures": ["iupac_x(p4, p3, p2, p1) == iupac_x(p1, p2, p3, p4)",
                                  "triple(p4, p3, p2, p1) == triple(p1, p2, p3, p4)",
                                  "dot3(p2 - p3, p2 - p3) == dot3(p3 - p2, p3 - p2)"]}
LEMMAS["mirror"] = {"kind": "smt", "params": ["p1", "p2", "p3", "p4"], "shapes": V,
                    "ensures": ["iupac_x(vec(p1[0], p1[1], 0 - p1[2]), vec(p2[0], p2[1], 0 - p2[2]), vec(p3[0], p3[1], 0 - p3[2]), vec(p4[0], p4[1], 0 - p4[2])) == iupac_x(p1, p2, p3, p4)",
                                "triple(vec(p1[0], p1[1], 0 - p1[2]), vec(p2[0], p2[1], 0 - p2[2]), vec(p3[0], p3[1], 0 - p3[2]), vec(p4[0], p4[1], 0 - p4[2])) == 0 - triple(p1, p2, p3, p4)"]}
LEMMAS["translation"] = {"kind": "smt", "params": ["p1", "p2", "p3", "p4", "t"], "shapes": V + ["vec3"],
                         "ensures": ["iupac_x(p1 + t, p2 + t, p3 + t, p4 + t) == iupac_x(p1, p2, p3, p4)",
                                     "triple(p1 + t, p2 + t, p3 + t, p4 + t) == triple(p1, p2, p3, p4)"]}


class torsion_coords:
    target = "calculate_torsion_angle_coords"
    params = {"p1": "vec3", "p2": "vec3", "p3": "vec3", "p4": "vec3"}
    # the function's own non-degeneracy guards, as preconditions
    requires = ["norm(p2 - p1) > 1e-6", "norm(p3 - p2) > 1e-6", "norm(p4 - p3) > 1e-6",
                "norm(cross3((p2 - p1) / norm(p2 - p1), (p3 - p2) / norm(p3 - p2))) >= 1e-6",
                "norm(cross3((p3 - p2) / norm(p3 - p2), (p4 - p3) / norm(p4 - p3))) >= 1e-6"]
    returns = "real"
    ensures = ["result == atan2(iupac_y(p1, p2, p3, p4), iupac_x(p1, p2, p3, p4))"]
    ensures_labels = {0: "iupac"}
    raises = []
    ghost = [
        {"when": "after", "at": "v3_norm =", "label": "unit",
         "do": ["let r1 = inv(norm(v1))", "let r2 = inv(norm(v2))", "let r3 = inv(norm(v3))",
                "assert r1 * norm(v1) == 1 and r2 * norm(v2) == 1 and r3 * norm(v3) == 1",
                "assert v1_norm == v1 * r1 and v2_norm == v2 * r2 and v3_norm == v3 * r3",
                # |v_norm|^2 = r^2 (v.v) = r^2 n^2 = (r n)^2 = 1
                "assert dot3(v1_norm, v1_norm) == (r1 * r1) * dot3(v1, v1) and dot3(v2_norm, v2_norm) == (r2 * r2) * dot3(v2, v2) and dot3(v3_norm, v3_norm) == (r3 * r3) * dot3(v3, v3)",
                "use mul_eq(r1 * r1, dot3(v1, v1), norm(v1) * norm(v1))", "use sq_one(r1 * norm(v1))",
                "use mul_eq(r2 * r2, dot3(v2, v2), norm(v2) * norm(v2))", "use sq_one(r2 * norm(v2))",
                "use mul_eq(r3 * r3, dot3(v3, v3), norm(v3) * norm(v3))", "use sq_one(r3 * norm(v3))",
                "assert dot3(v1_norm, v1_norm) == 1 and dot3(v2_norm, v2_norm) == 1 and dot3(v3_norm, v3_norm) == 1",
                "use inv_pos(norm(v1), r1)", "use inv_pos(norm(v2), r2)", "use inv_pos(norm(v3), r3)"]},
        {"when": "after", "at": "t1 =", "label": "t1",
         "do": ["assert t1 == cross3(v1, v2) * (r1 * r2)",
                "identity dot3(t1, t1) == dot3(v1_norm, v1_norm) * dot3(v2_norm, v2_norm) - dot3(v1_norm, v2_norm) * dot3(v1_norm, v2_norm)",
                "use one_minus_sq(dot3(t1, t1), dot3(v1_norm, v2_norm))",
                "use sumsq_nonneg(t1[0], t1[1], t1[2])"]},
        {"when": "after", "at": "t2 =", "label": "t2",
         "do": ["assert t2 == cross3(v2, v3) * (r2 * r3)",
                "identity dot3(t2, t2) == dot3(v2_norm, v2_norm) * dot3(v3_norm, v3_norm) - dot3(v2_norm, v3_norm) * dot3(v2_norm, v3_norm)",
                "use one_minus_sq(dot3(t2, t2), dot3(v2_norm, v3_norm))",
                "use sumsq_nonneg(t2[0], t2[1], t2[2])"]},
        {"when": "after", "at": "t3 =", "label": "t3",
         "do": ["assert norm(v2_norm) * norm(v2_norm) == 1", "assert norm(v2_norm) == 1", "assert t3 == v1 * r1 * norm(v2_norm)"]},
        {"when": "after", "at": "dot_t1_t2 = numpy.dot", "label": "x",
         "do": ["let lam = r1 * r2 * r2 * r3",
                "use pos_prod4(r1, r2, r2, r3)",
                "assert dot_t1_t2 == lam * iupac_x(p1, p2, p3, p4)",
                "identity dot3(t1, t1) * dot3(t2, t2) - dot_t1_t2 * dot_t1_t2 == dot3(cross3(t1, t2), cross3(t1, t2))",
                "use sumsq_nonneg(cross3(t1, t2)[0], cross3(t1, t2)[1], cross3(t1, t2)[2])",
                "use prod_le_one(dot3(t1, t1), dot3(t2, t2))",
                "use sq_bound(dot_t1_t2, dot3(t1, t1) * dot3(t2, t2), dot3(cross3(t1, t2), cross3(t1, t2)))"]},
        {"when": "after", "at": "dot_t2_t3 = numpy.dot", "label": "y",
         "do": ["assert dot_t2_t3 == (r1 * r2 * r3) * triple(p1, p2, p3, p4) * norm(v2_norm)",
                "use mul_one((r1 * r2 * r3) * triple(p1, p2, p3, p4), norm(v2_norm))",
                "assert lam * iupac_y(p1, p2, p3, p4) == ((r1 * r2 * r3) * triple(p1, p2, p3, p4)) * (r2 * norm(v2))",
                "use mul_one((r1 * r2 * r3) * triple(p1, p2, p3, p4), r2 * norm(v2))",
                "assert dot_t2_t3 == lam * iupac_y(p1, p2, p3, p4)"]},
        {"when": "after", "at": "dot_t1_t2 = numpy.clip", "label": "clip",
         "do": ["assert dot_t1_t2 == lam * iupac_x(p1, p2, p3, p4)"]},
        {"when": "before", "at": "angle = math.atan2", "label": "scale",
         "do": ["use atan2_scale(dot_t2_t3, dot_t1_t2, lam, iupac_y(p1, p2, p3, p4), iupac_x(p1, p2, p3, p4))"]},
    ]


CONTRACTS = {"calculate_torsion_angle_coords": torsion_coords}
LEMMAS["cancel_sq"] = {"kind": "smt", "params": ["r", "n"], "shapes": R * 2, "requires": ["r * n == 1"], "ensures": ["r * (n * n) == n"]}


def _v2_ghost(sign):
    """proof script for tertiary_v2.calculate_torsion_angle computing atan2(sign*Y, X)"""
    sy = "iupac_y(a1, a2, a3, a4)" if sign > 0 else "(0 - iupac_y(a1, a2, a3, a4))"
    st = "(lam * triple(a1, a2, a3, a4))" if sign > 0 else "(0 - lam * triple(a1, a2, a3, a4))"
    return [
        {"when": "after", "at": "n2 = n2 / n2_norm", "label": "unit",
         "do": ["let N1 = cross3(v1, v2)", "let N2 = cross3(v2, v3)",
                "let q1 = inv(n1_norm)", "let q2 = inv(n2_norm)", "let r2 = inv(norm(v2))",
                "assert q1 * n1_norm == 1 and q2 * n2_norm == 1 and r2 * norm(v2) == 1",
                "use inv_pos(n1_norm, q1)", "use inv_pos(n2_norm, q2)",
                "assert n1 == N1 * q1 and n2 == N2 * q2"]},
        {"when": "after", "at": "y = np.dot", "label": "xy",
         "do": ["let lam = q1 * q2",
                "use pos_prod4(q1, q2, 1, 1)",
                "identity x == lam * iupac_x(a1, a2, a3, a4)",
                f"identity y == {st} * (r2 * dot3(v2, v2))",
                "use mul_eq(r2, dot3(v2, v2), norm(v2) * norm(v2))",
                "use cancel_sq(r2, norm(v2))",
                f"use mul_eq({st}, r2 * dot3(v2, v2), norm(v2))",
                f"identity lam * {sy} == {st} * norm(v2)",
                f"assert y == lam * {sy}"]},
        {"when": "before", "at": "angle = np.arctan2", "label": "scale",
         "do": [f"use atan2_scale(y, x, lam, {sy}, iupac_x(a1, a2, a3, a4))"]}]


class torsion_v2_base:
    target = "calculate_torsion_angle"
    params = {"a1": "vec3", "a2": "vec3", "a3": "vec3", "a4": "vec3"}
    # the function's own collinearity guards as preconditions; norm(v2) > 0 is implied by them mathematically
    requires = ["norm(cross3(a2 - a1, a3 - a2)) >= 1e-6", "norm(cross3(a3 - a2, a4 - a3)) >= 1e-6", "norm(a3 - a2) > 0"]
    returns = "real"
    raises = []


class torsion_v2_iupac(torsion_v2_base):
    """what C18 states: the IUPAC value. Fails on the current tree (the function returns the negated angle)."""
    ensures = ["result == atan2(iupac_y(a1, a2, a3, a4), iupac_x(a1, a2, a3, a4))"]
    ensures_labels = {0: "iupac"}
    ghost = _v2_ghost(+1)


class torsion_v2_negated(torsion_v2_base):
    """what the code computes today: atan2(-Y, X); pins the current behaviour so that any other change is noticed"""
    ensures = ["result == atan2(0 - iupac_y(a1, a2, a3, a4), iupac_x(a1, a2, a3, a4))"]
    ensures_labels = {0: "negated-iupac"}
    ghost = _v2_ghost(-1)


CONTRACTS_V2 = {"calculate_torsion_angle": torsion_v2_iupac, "calculate_torsion_angle@negated": torsion_v2_negated}
