"""C18, "independent of ... rigid motion": the torsion is the same real number for the points p_k and for R p_k + t.

No code is under contract here (spec-level lemmas only).  The code contracts of C18 (contracts/tertiary_c.py) state
    calculate_torsion_angle_coords(p1..p4) == atan2(iupac_y(p1..p4), iupac_x(p1..p4))      under its five guards,
    tertiary_v2.calculate_torsion_angle(a1..a4) == atan2(0 - iupac_y(..), iupac_x(..))      under its three guards (@negated)
with X = iupac_x = (v1 x v2).(v2 x v3), T = triple = v1.(v2 x v3), Y = iupac_y = |v2| T.  This file proves, for a matrix R
given by its rows ra, rb, rc with R^T R = I (six polynomial equations, ORTH) and det R = 1 (DET1) and any translation t:
  * inv_torsion (taken over from contracts/geometry_lemmas_c.py, re-proved as a target of C18): X, T and Y of the moved
    points EQUAL X, T and Y of the original points (no scale factor is needed);
  * rigid_torsion: hence both atan2 expressions above are the same real number for the moved points;
  * rigid_guards_coords / rigid_guards_v2: the guards (the `requires` of the two code contracts, taken textually from
    contracts/tertiary_c.py) hold for the moved points whenever they hold for the original ones - so the code contracts
    apply to the moved points at all (orthogonality only: distances and the norms of the two unit-vector cross products);
  * rigid_motion_coords / rigid_motion_v2: both together, i.e. by the proved code contracts
    f(R p1 + t, .., R p4 + t) == f(p1, .., p4) for both functions on every non-degenerate input.

How: the primitives of contracts/geometry_lemmas_c.py (rot_dot: (Ru).(Rv) == u.v with the certificate
goal - sum m_ij (G_ij - delta_ij) == 0; rot_det: det[Ru Rv Rw] == det R det[u v w]; binet_cauchy: (a x b).(c x d) ==
(a.c)(b.d) - (a.d)(b.c), a ring identity; inv_dot_diff / inv_dist / inv_volume for p -> R p + t).  Every lemma carries its
certificate in `steps` (ring `identity`, one `use mul_*` per product, a final linear-bookkeeping lemma over abstract reals),
so that no solver has to do non-linear search: all obligations are discharged by z3 in well under a second.
Every lemma that is used is a target of C18 itself (TARGETS below = the dependency closure; checked at import).

x / n in a spec is x * inv!k with the fact n != 0 -> inv!k * n == 1 (pyvc real_div), norm(v) is the n >= 0 with n * n == v.v
(contracts/externals.py np_norm): the unit vectors of the guards are treated through these two definitions (inv_same).

FALSE_SIBLINGS (python -m contracts.torsion_rot_c): a reflection instead of a rotation, a missing orthogonality equation,
a shifted value - each must be REFUTED with a model (which also shows that the hypotheses ORTH + DET1 + guards are
satisfiable, i.e. the lemmas are not vacuous)."""
import os
import re

from contracts import geometry_lemmas_c as G
from contracts import tertiary_c as T
from contracts.externals import NUMPY

_HERE = os.path.dirname(os.path.abspath(__file__))
# vocabulary: dot3, cross3, iupac_x, triple, iupac_y, inv (tertiary_c); rot, mv, g00.., det3 (geometry_lemmas_c)
__file_spec__ = [os.path.join(_HERE, "tertiary_c.py"), os.path.join(_HERE, "geometry_lemmas_c.py")]

EXTERNALS = NUMPY
SPEC_EXTERNALS = {"norm": "numpy.linalg.norm", "atan2": "math.atan2"}
CLASSES = {}
INLINE = []
CONTRACTS = {}

ORTH, DET1, RIG, A4, M, V = G.ORTH, G.DET1, G.RIG, G.A4, G.M, G.V
R = ["real"]


def D(x, y, moved):
    """the difference x - y of two points, of the moved points if `moved`"""
    return f"({M(x)} - {M(y)})" if moved else f"({x} - {y})"


# ---- taken over unchanged from geometry_lemmas_c (same dicts; proved again as targets of C18, see TARGETS)
_BASE = ["mul_zero", "mul_one", "mul_eq", "mul_eq2", "sqrt_unique", "lin_zero6", "lin_diff2", "trans3", "trans4", "binet_cauchy",
         "rot_dot", "rot_det", "inv_dot_diff", "inv_sqdist", "inv_dist", "inv_volume", "inv_torsion"]
LEMMAS = {k: G.LEMMAS[k] for k in _BASE}

# ---- small algebra lemmas (each proved in isolation)
# the memoised inverses inv(n) = 1 / n of two equal positive numbers are equal (each is only known through inv(x) * x == 1)
LEMMAS["inv_same"] = {"kind": "smt", "params": ["n", "m"], "shapes": R * 2, "requires": ["m > 0", "n == m"],
                      "steps": ["assert inv(n) * n == 1 and inv(m) * m == 1", "use mul_eq(inv(m), n, m)",
                                "identity inv(n) * (inv(m) * n) == inv(m) * (inv(n) * n)",
                                "use mul_one(inv(n), inv(m) * n)", "use mul_one(inv(m), inv(n) * n)"],
                      "ensures": ["inv(n) == inv(m)"]}
# bookkeeping over abstract reals / uninterpreted atan2: every instance's `requires` is literally an established fact
LEMMAS["chain_eq"] = {"kind": "smt", "params": ["a", "b", "c", "d"], "shapes": R * 4, "requires": ["a == b", "b == c", "d == c"],
                      "ensures": ["a == d"]}
LEMMAS["neg_eq"] = {"kind": "smt", "params": ["a", "b"], "shapes": R * 2, "requires": ["a == b"], "ensures": ["0 - a == 0 - b"]}
LEMMAS["atan2_cong"] = {"kind": "smt", "params": ["y1", "x1", "y2", "x2"], "shapes": R * 4, "requires": ["y1 == y2", "x1 == x2"],
                        "ensures": ["atan2(y1, x1) == atan2(y2, x2)"]}
# vectors with equal squared norms have equal norms (norm: the non-negative root)
LEMMAS["norm_eq_of_sq"] = {"kind": "smt", "params": ["c1", "c2"], "shapes": ["vec3", "vec3"], "requires": ["dot3(c1, c1) == dot3(c2, c2)"],
                           "steps": ["use trans4(norm(c1) * norm(c1), dot3(c1, c1), dot3(c2, c2), norm(c2) * norm(c2))",
                                     "use sqrt_unique(norm(c1), norm(c2))"],
                           "ensures": ["norm(c1) == norm(c2)"]}
LEMMAS["ge_eq"] = {"kind": "smt", "params": ["a", "b", "c"], "shapes": R * 3, "requires": ["a == b", "b >= c"], "ensures": ["a >= c"]}
LEMMAS["gt_eq"] = {"kind": "smt", "params": ["a", "b", "c"], "shapes": R * 3, "requires": ["a == b", "b > c"], "ensures": ["a > c"]}
# |(a u) x (b v)|^2 == (a b)^2 |u x v|^2   (ring identity; u / n is u * inv(n))
LEMMAS["unit_cross_sq"] = {"kind": "smt", "params": ["u", "v", "n", "m"], "shapes": ["vec3", "vec3", "real", "real"],
                           "ensures": ["dot3(cross3(u / n, v / m), cross3(u / n, v / m)) == "
                                       "((inv(n) * inv(m)) * (inv(n) * inv(m))) * dot3(cross3(u, v), cross3(u, v))"]}


# ---- dot product of two cross products of coordinate differences (the X polynomial is the instance
# (p2 - p1) x (p3 - p2) . (p3 - p2) x (p4 - p3); the squared norms of the guards' cross products are the instances with both
# factors equal).  Binet-Cauchy turns it into four dot products of differences, each invariant by inv_dot_diff.
def _bc(m):
    return (f"dot3({D('p', 'q', m)}, {D('e', 'f', m)})", f"dot3({D('r', 's', m)}, {D('g', 'h', m)})",
            f"dot3({D('p', 'q', m)}, {D('g', 'h', m)})", f"dot3({D('r', 's', m)}, {D('e', 'f', m)})")


def _cc(m):
    return f"dot3(cross3({D('p', 'q', m)}, {D('r', 's', m)}), cross3({D('e', 'f', m)}, {D('g', 'h', m)}))"


_m, _u = _bc(True), _bc(False)
LEMMAS["inv_cross_dot"] = {
    "kind": "smt", "params": RIG + ["p", "q", "r", "s", "e", "f", "g", "h"], "shapes": V(12), "requires": ORTH,
    "steps": [f"use binet_cauchy({D('p', 'q', True)}, {D('r', 's', True)}, {D('e', 'f', True)}, {D('g', 'h', True)})",
              "use binet_cauchy(p - q, r - s, e - f, g - h)",
              f"use inv_dot_diff({A4}, p, q, e, f)", f"use inv_dot_diff({A4}, r, s, g, h)",
              f"use inv_dot_diff({A4}, p, q, g, h)", f"use inv_dot_diff({A4}, r, s, e, f)",
              f"use mul_eq2({_m[0]}, {_m[1]}, {_u[0]}, {_u[1]})", f"use mul_eq2({_m[2]}, {_m[3]}, {_u[2]}, {_u[3]})",
              f"use lin_diff2({_cc(True)}, {_cc(False)}, {_m[0]} * {_m[1]}, {_m[2]} * {_m[3]}, {_u[0]} * {_u[1]}, {_u[2]} * {_u[3]})"],
    "ensures": [f"{_cc(True)} == {_cc(False)}"]}


def _x(m):
    return f"cross3({D('p', 'q', m)}, {D('r', 's', m)})"


# the norm of the cross product of two differences (guards of tertiary_v2.calculate_torsion_angle)
LEMMAS["inv_cross_norm"] = {
    "kind": "smt", "params": RIG + ["p", "q", "r", "s"], "shapes": V(8), "requires": ORTH,
    # (`keep 1`: from here on only the last fact is a hypothesis - fewer hypotheses, always sound; keeps the large polynomials of
    # the certificate out of the obligations that mention the norms)
    "steps": [f"use inv_cross_dot({A4}, p, q, r, s, p, q, r, s)", "keep 1", f"use norm_eq_of_sq({_x(True)}, {_x(False)})"],
    "ensures": [f"norm({_x(True)}) == norm({_x(False)})"]}


def _n(x, y, m):
    return f"norm({D(x, y, m)})"


def _ux(m):
    """the guards' cross product of the two unit vectors, written exactly as contracts/tertiary_c.py writes it"""
    return f"cross3({D('p', 'q', m)} / {_n('p', 'q', m)}, {D('r', 's', m)} / {_n('r', 's', m)})"


def _k(m):
    a, b = f"inv({_n('p', 'q', m)})", f"inv({_n('r', 's', m)})"
    return f"(({a} * {b}) * ({a} * {b}))"


# the norm of the cross product of the two UNIT vectors (p - q) / |p - q|, (r - s) / |r - s| (guards of
# calculate_torsion_angle_coords):  |c|^2 == (a b)^2 |(p - q) x (r - s)|^2 with a, b the inverses of the two lengths; lengths
# (inv_dist), hence inverses (inv_same), and the squared norm of the cross product (inv_cross_dot) are invariant
LEMMAS["inv_unit_cross_norm"] = {
    "kind": "smt", "params": RIG + ["p", "q", "r", "s"], "shapes": V(8),
    "requires": ORTH + ["norm(p - q) > 0", "norm(r - s) > 0"],
    "steps": [f"use inv_dist({A4}, p, q)", f"use inv_dist({A4}, r, s)",
              f"use inv_same({_n('p', 'q', True)}, {_n('p', 'q', False)})", f"use inv_same({_n('r', 's', True)}, {_n('r', 's', False)})",
              f"use mul_eq2(inv({_n('p', 'q', True)}), inv({_n('r', 's', True)}), inv({_n('p', 'q', False)}), inv({_n('r', 's', False)}))",
              f"use mul_eq2(inv({_n('p', 'q', True)}) * inv({_n('r', 's', True)}), inv({_n('p', 'q', True)}) * inv({_n('r', 's', True)}), "
              f"inv({_n('p', 'q', False)}) * inv({_n('r', 's', False)}), inv({_n('p', 'q', False)}) * inv({_n('r', 's', False)}))",
              f"use inv_cross_dot({A4}, p, q, r, s, p, q, r, s)",
              f"use unit_cross_sq({D('p', 'q', True)}, {D('r', 's', True)}, {_n('p', 'q', True)}, {_n('r', 's', True)})",
              f"use unit_cross_sq({D('p', 'q', False)}, {D('r', 's', False)}, {_n('p', 'q', False)}, {_n('r', 's', False)})",
              f"use mul_eq2({_k(True)}, dot3({_x(True)}, {_x(True)}), {_k(False)}, dot3({_x(False)}, {_x(False)}))",
              f"use chain_eq(dot3({_ux(True)}, {_ux(True)}), {_k(True)} * dot3({_x(True)}, {_x(True)}), "
              f"{_k(False)} * dot3({_x(False)}, {_x(False)}), dot3({_ux(False)}, {_ux(False)}))",
              "keep 1", f"use norm_eq_of_sq({_ux(True)}, {_ux(False)})"],
    "ensures": [f"norm({_ux(True)}) == norm({_ux(False)})"]}


# ---- the statements of C18 ------------------------------------------------------------------------------------------
def _moved(text, names):
    """the clause `text` about the points `names`, stated for the moved points"""
    return re.sub(r"\b(" + "|".join(names) + r")\b", lambda mo: M(mo.group(1)), text)


P = ["p1", "p2", "p3", "p4"]
Q = ["a1", "a2", "a3", "a4"]
_P4, _P4m = ", ".join(P), ", ".join(M(p) for p in P)
_Q4, _Q4m = ", ".join(Q), ", ".join(M(p) for p in Q)
# the guards are the `requires` of the two code contracts, textually
GUARDS_COORDS = list(T.torsion_coords.requires)
GUARDS_V2 = list(T.torsion_v2_base.requires)
assert GUARDS_COORDS[:3] == ["norm(p2 - p1) > 1e-6", "norm(p3 - p2) > 1e-6", "norm(p4 - p3) > 1e-6"] and len(GUARDS_COORDS) == 5
assert GUARDS_COORDS[3] == "norm(cross3((p2 - p1) / norm(p2 - p1), (p3 - p2) / norm(p3 - p2))) >= 1e-6"
assert GUARDS_COORDS[4] == "norm(cross3((p3 - p2) / norm(p3 - p2), (p4 - p3) / norm(p4 - p3))) >= 1e-6"
assert GUARDS_V2 == ["norm(cross3(a2 - a1, a3 - a2)) >= 1e-6", "norm(cross3(a3 - a2, a4 - a3)) >= 1e-6", "norm(a3 - a2) > 0"]

# both atan2 expressions of the code contracts (ensures of torsion_coords and of torsion_v2_negated / torsion_v2_iupac)
_X, _Y, _Xm, _Ym = f"iupac_x({_P4})", f"iupac_y({_P4})", f"iupac_x({_P4m})", f"iupac_y({_P4m})"
LEMMAS["rigid_torsion"] = {
    "kind": "smt", "params": RIG + P, "shapes": V(8), "requires": ORTH + DET1,
    "steps": [f"use inv_torsion({A4}, {_P4})", "keep 3", f"use neg_eq({_Ym}, {_Y})",
              f"use atan2_cong({_Ym}, {_Xm}, {_Y}, {_X})", f"use atan2_cong(0 - {_Ym}, {_Xm}, 0 - {_Y}, {_X})"],
    "ensures": [f"{_Xm} == {_X}", f"{_Ym} == {_Y}", f"atan2({_Ym}, {_Xm}) == atan2({_Y}, {_X})",
                f"atan2(0 - {_Ym}, {_Xm}) == atan2(0 - {_Y}, {_X})"]}


def _cmp(clause, names):
    """`use ge_eq / gt_eq`: the moved left-hand side equals the original one, which satisfies the bound"""
    lhs, op, bound = re.match(r"(.*) (>=|>) (\S+)$", clause).groups()
    return f"use {'ge_eq' if op == '>=' else 'gt_eq'}({_moved(lhs, names)}, {lhs}, {bound})"


LEMMAS["rigid_guards_coords"] = {
    "kind": "smt", "params": RIG + P, "shapes": V(8), "requires": ORTH + GUARDS_COORDS,
    "steps": [f"use inv_dist({A4}, p2, p1)", f"use inv_dist({A4}, p3, p2)", f"use inv_dist({A4}, p4, p3)",
              f"use inv_unit_cross_norm({A4}, p2, p1, p3, p2)", f"use inv_unit_cross_norm({A4}, p3, p2, p4, p3)"]
             + [_cmp(c, P) for c in GUARDS_COORDS],
    "ensures": [_moved(c, P) for c in GUARDS_COORDS]}
LEMMAS["rigid_guards_v2"] = {
    "kind": "smt", "params": RIG + Q, "shapes": V(8), "requires": ORTH + GUARDS_V2,
    "steps": [f"use inv_cross_norm({A4}, a2, a1, a3, a2)", f"use inv_cross_norm({A4}, a3, a2, a4, a3)", f"use inv_dist({A4}, a3, a2)"]
             + [_cmp(c, Q) for c in GUARDS_V2],
    "ensures": [_moved(c, Q) for c in GUARDS_V2]}

# "independent of rigid motion", for each of the two functions: guards(p) -> guards(R p + t) and the contract's value is the same
_VAL = T.torsion_coords.ensures[0].split(" == ", 1)[1]
_VAL2 = T.torsion_v2_negated.ensures[0].split(" == ", 1)[1]
_VAL2I = T.torsion_v2_iupac.ensures[0].split(" == ", 1)[1]
LEMMAS["rigid_motion_coords"] = {
    "kind": "smt", "params": RIG + P, "shapes": V(8), "requires": ORTH + DET1 + GUARDS_COORDS,
    "steps": [f"use rigid_guards_coords({A4}, {_P4})", f"use rigid_torsion({A4}, {_P4})"],
    "ensures": [_moved(c, P) for c in GUARDS_COORDS] + [f"{_moved(_VAL, P)} == {_VAL}"]}
LEMMAS["rigid_motion_v2"] = {
    "kind": "smt", "params": RIG + Q, "shapes": V(8), "requires": ORTH + DET1 + GUARDS_V2,
    "steps": [f"use rigid_guards_v2({A4}, {_Q4})", f"use rigid_torsion({A4}, {_Q4})"],
    "ensures": [_moved(c, Q) for c in GUARDS_V2] + [f"{_moved(_VAL2, Q)} == {_VAL2}", f"{_moved(_VAL2I, Q)} == {_VAL2I}"]}


# ---- every lemma used is proved here: TARGETS is the dependency closure of the C18 statements
def _uses(name):
    return set(re.findall(r"\buse (\w+)\(", " ".join(LEMMAS[name].get("steps", []))))


def _closure(roots):
    seen, todo = [], list(roots)
    while todo:
        n = todo.pop()
        if n not in seen:
            seen.append(n)
            todo += sorted(_uses(n))
    return seen


ROOTS = ["rigid_motion_coords", "rigid_motion_v2"]
TARGETS = [k for k in LEMMAS if k in _closure(ROOTS)]
assert set(TARGETS) == set(LEMMAS), f"lemmas not needed by the C18 statements: {sorted(set(LEMMAS) - set(TARGETS))}"
assert all(v["kind"] == "smt" for v in LEMMAS.values())


# --------------------------------------------------------------------------- vacuity protection: false siblings
def _variant(name, **changes):
    d = dict(LEMMAS[name])
    d.update(changes)
    return d


def _is(name, x, y, z):
    return [f"{name}[0] == {x}", f"{name}[1] == {y}", f"{name}[2] == {z}"]


REFLECT = ["det3(ra, rb, rc) == 0 - 1"]
# concrete witnesses (a model finder for non-linear real arithmetic with square roots is slow on the general statements): four
# points in general position with the right angle torsion (all lengths rational), the quarter turn about z, the mirror z -> -z,
# and a stretch along x (all orthogonality equations but g00 == 1 hold; note that ORTH without g00 == 1 together with det R == 1
# implies g00 == 1 - det^2 == det(R^T R) - so that sibling drops the determinant too: X needs orthogonality only)
def _points(names):
    return _is(names[0], 1, 0, 0) + _is(names[1], 0, 0, 0) + _is(names[2], 0, 2, 0) + _is(names[3], 0, 2, 1)


QUARTER_TURN = _is("ra", 0, "0 - 1", 0) + _is("rb", 1, 0, 0) + _is("rc", 0, 0, 1)
MIRROR_Z = _is("ra", 1, 0, 0) + _is("rb", 0, 1, 0) + _is("rc", 0, 0, "0 - 1")
STRETCH_X = _is("ra", 2, 0, 0) + _is("rb", 0, 1, 0) + _is("rc", 0, 0, 1)
FALSE_SIBLINGS = {
    # a reflection negates T and Y: neither the triple product nor the torsion value is kept (atan2 is uninterpreted: a model
    # separates atan2(-2, 0) from atan2(2, 0))
    "false_triple_reflection": _variant("rigid_torsion", requires=ORTH + REFLECT, steps=[], ensures=[f"triple({_P4m}) == triple({_P4})"]),
    "false_value_reflection": _variant("rigid_motion_coords", requires=ORTH + REFLECT + GUARDS_COORDS + MIRROR_Z + _points(P), steps=[],
                                       ensures=[LEMMAS["rigid_motion_coords"]["ensures"][-1]]),
    "false_value_reflection_v2": _variant("rigid_motion_v2", requires=ORTH + REFLECT + GUARDS_V2 + MIRROR_Z + _points(Q), steps=[],
                                          ensures=[LEMMAS["rigid_motion_v2"]["ensures"][-2]]),
    # a linear map that is not an isometry (one orthogonality equation dropped) keeps neither X nor the guards
    "false_x_without_g00": _variant("rigid_torsion", requires=ORTH[1:] + STRETCH_X + _points(P)[:9] + _is("p4", 1, 2, 1), steps=[],
                                    ensures=[LEMMAS["rigid_torsion"]["ensures"][0]]),
    "false_guard_without_g11": _variant("rigid_guards_v2", requires=ORTH[:1] + ORTH[2:] + GUARDS_V2, steps=[],
                                        ensures=[LEMMAS["rigid_guards_v2"]["ensures"][0]]),
    # hypotheses satisfiable: under ORTH + DET1 + all guards a shifted value is refuted by a model
    "false_shifted_x": _variant("rigid_motion_coords", requires=ORTH + DET1 + GUARDS_COORDS + QUARTER_TURN + _points(P), steps=[],
                                ensures=[f"iupac_x({_P4m}) == iupac_x({_P4}) + 1"]),
    "false_shifted_x_v2": _variant("rigid_motion_v2", steps=[], ensures=[f"iupac_x({_Q4m}) == iupac_x({_Q4}) + 1"]),
    # the inverse of a number that may be zero is not determined
    "false_inv_of_zero": _variant("inv_same", requires=["m >= 0", "n == m"], steps=[]),
}


def run_false_siblings(z3_ms=10000, cvc5_s=10):
    """every false sibling must be refuted; returns [(name, [(obligation, result, ms)], model)]"""
    import sys
    import types
    sys.path.insert(0, os.path.dirname(_HERE))
    from pyvc.engine import Engine
    from pyvc.solve import discharge
    me = sys.modules[__name__]
    side = types.ModuleType("torsion_rot_false_siblings")
    side.__dict__.update({k: v for k, v in me.__dict__.items() if not k.startswith("__")})
    side.__file__ = me.__file__
    side.__file_spec__ = __file_spec__
    side.LEMMAS = dict(LEMMAS, **FALSE_SIBLINGS)
    out = []
    for name in FALSE_SIBLINGS:
        eng = Engine("rnapolis.tertiary", side)
        obls = eng.verify_lemma(name)
        res = discharge(obls, opts={"z3_ms": z3_ms, "cvc5_s": cvc5_s})
        out.append((name, [(o.name, r["result"], r["ms"]) for o, r in zip(obls, res)],
                    next((r.get("model") for r in res if r["result"] == "sat" and r.get("model")), None)))
    return out


if __name__ == "__main__":
    import sys
    bad = 0
    for name, rs, model in run_false_siblings():
        refuted = any(r == "sat" for _, r, _ in rs)
        proved = all(r == "unsat" for _, r, _ in rs)
        bad += proved or not refuted
        print(f"{name}: {'REFUTED (model)' if refuted else 'PROVED?!' if proved else 'not proved, no model'}  "
              + ", ".join(f"{n.split('#')[1]}={r}/{ms}ms" for n, r, ms in rs))
        if "-v" in sys.argv and model:
            print("    model: " + ", ".join(f"{k}={v}" for k, v in sorted(model.items()) if not k.startswith(("inv!", "norm!")))[:400])
    raise SystemExit(1 if bad else 0)
