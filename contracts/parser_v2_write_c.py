"""Sidecar contract for rnapolis/parser_v2.py write_pdb - the record-level sentence of C09:
"Written PDB atom and TER records obey the 80-column fixed layout, with MODEL/ENDMDL around every model and a TER after
every chain."

Under contract (real code, re-read on every run)
  write_pdb       whole function for output=None (the text is returned): the row loop with its MODEL / ENDMDL / TER state machine

Abstraction of pandas (EXTERNALS below; every entry is trusted base, listed in props/C09.py)
  df              a value object Frame(id, empty, attrs): `df.attrs` a dict holding the str `format`, `df.empty`
  df.iterrows()   the list of (label, row) pairs in table order; row i is the value object Row(df, i)
  row.get(k[, d]) the cell of column k of that row (an opaque object Cell(cell_of(df, i, k))) when the table has the column
                  (uninterpreted has_col(df, k)), else the default d
  pd.isna(c)      uninterpreted predicate cell_isna on cells (True for None)
  int(c) / float(c) / str(c)   uninterpreted cell_int / cell_float / cell_str of the cell; int() / float() raise unless the
                  uninterpreted cell_int_ok / cell_float_ok hold
  io.StringIO()   a new buffer object; write(s) appends s to its list of chunks; getvalue() is the uninterpreted `joined` of that
                  list (the concatenation of the chunks, in order)
Callee contracts (proved in contracts/parser_v2_c.py, same function texts): _format_pdb_ter_line; _format_pdb_atom_line through
the DERIVED contract format_atom_any (see there).

Ghost state kept along the real loop (existence-free specification: every quantified variable is a row index)
  POS[i]    position, in the chunk list, of the ATOM/HETATM line of row i
  LINES[i]  the string _format_pdb_atom_line returned for row i
  TER[i]    the string _format_pdb_ter_line returned for the chain that ends with row i
Proof devices (all conservative: explicit definitions, dropped hypotheses, proved-equal substitutions)
  define opaque LOK / TOK / SC / SM / MR   names for "line is the layout of row i's atom", "TER line is the layout for row i",
            "rows i, i+1 in the same chain / model", "MODEL record of row i"; `reveal P(args)` adds one instance of a definition
  replace x by e   the program variable x is shown equal to the specification term e and denotes e from there on
  mark / stash / unstash, summarize, scoped keep n   keep string constraints out of the bookkeeping obligations
"""
import z3 as _z3

from contracts import parser_v2_c as _V
from contracts.parser_v2_c import DIGIT_SIGN, SIGNED_DIGIT, WS_CHARS  # noqa: F401  (regex names used by matches(..))
from pyvc.expr import AND, NOT, OR
from pyvc.values import Unsupported, VList, VOpt, VRec, VRef, VTuple, to_z3, uid

__file_spec__ = list(_V.__file_spec__) + [__file__]


def spec(f):
    return f


_I, _S, _B, _R = _z3.IntSort(), _z3.StringSort(), _z3.BoolSort(), _z3.RealSort()

CLASSES = {
    "AtomData": _V.CLASSES["AtomData"],
    # df.attrs: a dict that holds the format tag; `format` = what df.attrs.get("format", "PDB") returns (a str)
    "Attrs": {"kind": "record", "dict_keys": True, "fields": {"format": "str"}},
    "Frame": {"kind": "record", "fields": {"id": "int", "empty": "bool", "attrs": "rec[Attrs]"}},
    "Row": {"kind": "record", "fields": {"df": "int", "i": "int"}},
    "Cell": {"kind": "record", "fields": {"id": "int"}},
    "Buffer": {"kind": "object", "fields": {"chunks": "list[str]"}},
}
INLINE = []
PRUNE_BRANCHES = False

UFUNS = {
    "nrows": (["int"], "int"),                       # number of rows of the table
    "has_col": (["int", "str"], "bool"),             # the table has a column of that name
    "cell_of": (["int", "int", "str"], "int"),       # identity of the cell object at (table, row number, column)
    "cell_isna": (["int"], "bool"), "cell_is_str": (["int"], "bool"),
    "cell_str": (["int"], "str"), "cell_int": (["int"], "int"), "cell_int_ok": (["int"], "bool"),
    "cell_float": (["int"], "real"), "cell_float_ok": (["int"], "bool"),
}

# columns whose cell the code uses as a str object without converting it (record name)
STR_COLUMNS = ("record_type", "group_PDB")


# ------------------------------------------------------------------------------------------------ assumed externals (pandas, io)
def _cell(e, row, key):
    return VRec("Cell", {"id": e.ufuns["cell_of"](to_z3(row.fields["df"]), to_z3(row.fields["i"]), _z3.StringVal(key))})


def _ext_iterrows(e, args, kw, node, st):
    """df.iterrows(): the (label, row) pairs of the table in table order - nrows(df) of them, the i-th being (some label,
    Row(df, i)).  The label is never used by the code under contract; it is modelled as the row number."""
    if len(args) != 1 or kw:
        raise Unsupported("iterrows(...) with arguments")
    d = to_z3(args[0].fields["id"])
    n = e.ufuns["nrows"](d)
    st.assume(n >= 0)
    q = _z3.Int(uid("q"))
    lab = _z3.Lambda([q], q)
    return VList(n, VTuple([lab, VRec("Row", {"df": _z3.Lambda([q], d), "i": _z3.Lambda([q], q)})]), ("tuple", (("int",), ("rec", "Row"))))


_ext_iterrows.pure = True


def _ext_row_get(e, args, kw, node, st):
    """row.get(key[, default]) (pandas Series.get): the cell of column `key` when the table has that column, else the default.
    The union of "a cell" and "the default" is representable when the default is None (-> Optional cell), another cell or an
    Optional cell; for a default that is a plain constant (0, "", 1.0 ...) the column has to be there: OBLIGATION
    `row.get[<key>].column-present` (discharged from the contract's requires).  Columns named in STR_COLUMNS are used by the
    code as str objects: OBLIGATION `row.get[<key>].cell-is-a-str`, and the value is that string (str(s) == s for a str s)."""
    if not (2 <= len(args) <= 3) or kw or not isinstance(args[1], str):
        raise Unsupported("row.get: only row.get(<constant column name>[, default])")
    row, key = args[0], args[1]
    c = _cell(e, row, key)
    has = e.ufuns["has_col"](to_z3(row.fields["df"]), _z3.StringVal(key))
    dflt = args[2] if len(args) == 3 else None
    if key in STR_COLUMNS:
        e.emit(f"row.get[{key}].cell-is-a-str", st, _z3.Implies(has, e.ufuns["cell_is_str"](c.fields["id"])), node, kind="call-pre", guard=list(e.guard))
        text = e.ufuns["cell_str"](c.fields["id"])
        if isinstance(dflt, str) or (_z3.is_expr(dflt) and dflt.sort() == _S):
            return _z3.If(has, text, to_z3(dflt))
        e.emit(f"row.get[{key}].column-present", st, has, node, kind="call-pre", guard=list(e.guard))
        return text
    if dflt is None:
        return VOpt(NOT(has), c)
    if isinstance(dflt, VRec) and dflt.cls == "Cell":
        return VRec("Cell", {"id": _z3.If(has, c.fields["id"], to_z3(dflt.fields["id"]))})
    if isinstance(dflt, VOpt) and isinstance(dflt.val, VRec) and dflt.val.cls == "Cell":
        return VOpt(AND(NOT(has), dflt.isnone), VRec("Cell", {"id": _z3.If(has, c.fields["id"], to_z3(dflt.val.fields["id"]))}))
    e.emit(f"row.get[{key}].column-present", st, has, node, kind="call-pre", guard=list(e.guard))
    return c


_ext_row_get.pure = True


def _ext_isna(e, args, kw, node, st):
    """pd.isna(x) for a scalar x: True for None; for a cell an uninterpreted predicate of the cell"""
    if len(args) != 1 or kw:
        raise Unsupported("pd.isna(...)")
    v = args[0]
    if v is None:
        return True
    if isinstance(v, VOpt) and isinstance(v.val, VRec) and v.val.cls == "Cell":
        return OR(v.isnone, e.ufuns["cell_isna"](to_z3(v.val.fields["id"])))
    if isinstance(v, VRec) and v.cls == "Cell":
        return e.ufuns["cell_isna"](to_z3(v.fields["id"]))
    raise Unsupported("pd.isna of this value")


def _conv(fn, ok):
    def f(e, args, kw, node, st):
        c = to_z3(args[0].fields["id"])
        if ok is not None:
            # int() / float() of an object that is not a number (None, NaN, pd.NA, text that does not parse) raise
            # ValueError or TypeError; which of the two is not modelled (both are obligations of the caller)
            e.may_raise(NOT(e.ufuns[ok](c)), "ValueError", node)
        return e.ufuns[fn](c)
    f.pure = True
    f.__doc__ = f"{fn}: uninterpreted function of the cell" + (f"; raises unless the uninterpreted {ok}(cell)" if ok else "")
    return f


def _ext_stringio(e, args, kw, node, st):
    """io.StringIO(): a new text buffer with nothing written to it"""
    if args or kw:
        raise Unsupported("io.StringIO(...) with arguments")
    ref = VRef("Buffer", st.alloc)
    st.alloc = _z3.simplify(to_z3(st.alloc) + 1)
    e.heap_write(st, ref, "chunks", e.default_of(("list", ("str",))))
    return ref


def _ext_buf_write(e, args, kw, node, st):
    """buffer.write(s): s is appended to what has been written (kept as the list of written chunks, in order)"""
    if len(args) != 2 or kw:
        raise Unsupported("write(...)")
    buf, s = args
    if not (isinstance(s, str) or (_z3.is_expr(s) and s.sort() == _S)):
        e.may_raise(True, "TypeError", node)
        return 0
    L = e.heap_read(st, buf, "chunks")
    from pyvc.values import sto
    e.heap_write(st, buf, "chunks", VList(to_z3(L.length) + 1, sto(L.elems, [to_z3(L.length)], to_z3(s)), ("str",)))
    return _z3.Length(to_z3(s))


_ext_buf_write.writes = ["Buffer.chunks"]


def _joined(e, L):
    return e.ufun("joined", _z3.ArraySort(_I, _S), _I, _S)(L.elems, to_z3(L.length))


def _ext_buf_getvalue(e, args, kw, node, st):
    """buffer.getvalue(): the concatenation of the written chunks in order - the uninterpreted `joined` of the chunk list"""
    return _joined(e, e.heap_read(st, args[0], "chunks"))


_ext_buf_getvalue.pure = True


def _ext_buf_close(e, args, kw, node, st):
    """buffer.close(): releases the buffer (the code does not use it afterwards)"""
    return None


_ext_buf_close.pure = True

# spec-level views of the same symbols
def _sx_cell(e, args, kw, node, st):
    return _cell(e, args[0], args[1])


def _sx_has(e, args, kw, node, st):
    return e.ufuns["has_col"](to_z3(args[0].fields["id"]), _z3.StringVal(args[1]))


def _sx_on_cell(fn):
    return lambda e, args, kw, node, st: e.ufuns[fn](to_z3(args[0].fields["id"]))


def _sx_joined(e, args, kw, node, st):
    return _joined(e, args[0])


import pandas as _pd

EXTERNALS = dict(_V.EXTERNALS)
EXTERNALS.update({
    "Frame.iterrows": _ext_iterrows, "Row.get": _ext_row_get,
    f"{_pd.isna.__module__}.isna": _ext_isna,
    "Cell.__int__": _conv("cell_int", "cell_int_ok"), "Cell.__float__": _conv("cell_float", "cell_float_ok"), "Cell.__str__": _conv("cell_str", None),
    "_io.StringIO": _ext_stringio, "Buffer.write": _ext_buf_write, "Buffer.getvalue": _ext_buf_getvalue, "Buffer.close": _ext_buf_close,
    "spec.cell": _sx_cell, "spec.has": _sx_has, "spec.isna": _sx_on_cell("cell_isna"), "spec.is_str": _sx_on_cell("cell_is_str"),
    "spec.cstr": _sx_on_cell("cell_str"), "spec.cint": _sx_on_cell("cell_int"), "spec.cfloat": _sx_on_cell("cell_float"),
    "spec.cint_ok": _sx_on_cell("cell_int_ok"), "spec.float_ok_c": _sx_on_cell("cell_float_ok"), "spec.joined": _sx_joined,
})
SPEC_EXTERNALS = dict(_V.SPEC_EXTERNALS)
SPEC_EXTERNALS.update({"cell": "spec.cell", "has": "spec.has", "isna": "spec.isna", "is_str": "spec.is_str", "cstr": "spec.cstr",
                       "cint": "spec.cint", "cfloat": "spec.cfloat", "cint_ok": "spec.cint_ok", "cfloat_ok": "spec.float_ok_c",
                       "joined": "spec.joined"})
LEMMAS = dict(_V.LEMMAS)


# ------------------------------------------------------------------------------------------------ callee contracts
def _conj(texts):
    return " and ".join(f"({t_})" for t_ in texts)


def _derive_either(A, B):
    """DERIVED contract (Hoare conjunction + consequence rule, not re-proved): if the same function satisfies {RA} f {EA} and
    {RB} f {EB} (both proved in contracts/parser_v2_c.py, both without exceptional exits and with an empty frame), it
    satisfies {RA or RB} f {(RA -> EA) and (RB -> EB)}; the parameter is an immutable record, so RA / RB in the postcondition
    speak about the argument.  Clauses common to EA and EB are kept unguarded."""
    ra, rb = _conj(A.requires), _conj(B.requires)
    assert A.params == B.params and A.raises == [] and B.raises == [] and A.modifies == [] and B.modifies == []
    ens = [t_ if t_ in B.ensures else f"implies({ra}, {t_})" for t_ in A.ensures] + [f"implies({rb}, {t_})" for t_ in B.ensures if t_ not in A.ensures]

    class either:
        params = A.params
        requires = [f"({ra}) or ({rb})"]
        returns = "str"
        raises = []
        modifies = []
        ensures = ens
    return either


# _format_pdb_atom_line for a charge in either form: PDB text ('', '2+') or signed integer text ('2', '-1' - what str() gives
# for the Int64 charge of an mmCIF table)
format_atom_any = _derive_either(_V.format_atom_c, _V.format_atom_signed_charge_c)


class format_ter_nn(_V.format_ter_c):
    """_format_pdb_ter_line with the contract proved in parser_v2_c; additionally an Optional argument has to be shown not to
    be None at the call site (obligation call[..].arg-not-None.<param>)"""
    nonnull_params = True


# ------------------------------------------------------------------------------------------------ spec vocabulary: the table
@spec
def row(df, i):
    return rec(Row, df=df.id, i=i)


@spec
def text_or_blank(c):
    """optional text field: '' for a missing value (None / NaN / pd.NA), else the cell as text"""
    return ite(isna(c), "", cstr(c))


@spec
def opt_text(df, r, key):
    """the same for a column that the table may lack"""
    return ite(has(df, key), text_or_blank(cell(r, key)), "")


@spec
def pick(df, r, k1, k2):
    """the cell of column k1 if the table has it, else the cell of column k2 (author identifiers before label identifiers)"""
    return ite(has(df, k1), cell(r, k1), cell(r, k2))


@spec
def atom_pdb(r):
    """the PDB fields of row r of a table in the PDB column naming (as built by parse_pdb_atoms)"""
    return rec(AtomData, record_name=cstr(cell(r, "record_type")), serial=cint(cell(r, "serial")), name=cstr(cell(r, "name")),
               altLoc=text_or_blank(cell(r, "altLoc")), resName=cstr(cell(r, "resName")), chainID=cstr(cell(r, "chainID")),
               resSeq=cint(cell(r, "resSeq")), iCode=text_or_blank(cell(r, "iCode")), x=cfloat(cell(r, "x")), y=cfloat(cell(r, "y")),
               z=cfloat(cell(r, "z")), occupancy=cfloat(cell(r, "occupancy")), tempFactor=cfloat(cell(r, "tempFactor")),
               element=text_or_blank(cell(r, "element")), charge=text_or_blank(cell(r, "charge")), model=cint(cell(r, "model")))


@spec
def atom_cif(df, r):
    """the PDB fields of row r of a table in the mmCIF atom_site naming (as built by parse_cif_atoms): author identifiers where
    the table has them, label identifiers otherwise"""
    return rec(AtomData, record_name=cstr(cell(r, "group_PDB")), serial=cint(cell(r, "id")),
               name=cstr(pick(df, r, "auth_atom_id", "label_atom_id")), altLoc=opt_text(df, r, "label_alt_id"),
               resName=cstr(pick(df, r, "auth_comp_id", "label_comp_id")),
               chainID=ite(has(df, "auth_asym_id"), text_or_blank(cell(r, "auth_asym_id")), opt_text(df, r, "label_asym_id")),
               resSeq=cint(pick(df, r, "auth_seq_id", "label_seq_id")), iCode=opt_text(df, r, "pdbx_PDB_ins_code"),
               x=cfloat(cell(r, "Cartn_x")), y=cfloat(cell(r, "Cartn_y")), z=cfloat(cell(r, "Cartn_z")),
               occupancy=cfloat(cell(r, "occupancy")), tempFactor=cfloat(cell(r, "B_iso_or_equiv")),
               element=opt_text(df, r, "type_symbol"), charge=opt_text(df, r, "pdbx_formal_charge"),
               model=cint(cell(r, "pdbx_PDB_model_num")))


@spec
def is_pdb(df):
    return df.attrs.format == "PDB"


@spec
def is_cif(df):
    return df.attrs.format == "mmCIF"


@spec
def known_format(df):
    return is_pdb(df) or is_cif(df)


@spec
def atom(df, i):
    """the atom that row i of the table stands for"""
    return ite(is_pdb(df), atom_pdb(row(df, i)), atom_cif(df, row(df, i)))


@spec
def pdb_columns(df):
    return (has(df, "record_type") and has(df, "serial") and has(df, "name") and has(df, "altLoc") and has(df, "resName")
            and has(df, "chainID") and has(df, "resSeq") and has(df, "iCode") and has(df, "x") and has(df, "y") and has(df, "z")
            and has(df, "occupancy") and has(df, "tempFactor") and has(df, "element") and has(df, "charge") and has(df, "model"))


@spec
def cif_columns(df):
    """the mandatory atom_site items (author identifiers, alternate location, insertion code, element, charge, label_asym_id
    may be missing)"""
    return (has(df, "group_PDB") and has(df, "id") and has(df, "label_atom_id") and has(df, "label_comp_id") and has(df, "label_seq_id")
            and has(df, "Cartn_x") and has(df, "Cartn_y") and has(df, "Cartn_z") and has(df, "occupancy") and has(df, "B_iso_or_equiv")
            and has(df, "pdbx_PDB_model_num"))


@spec
def readable_pdb(r):
    """the record name is a str object; the numeric cells hold numbers (int() / float() accept them)"""
    return (is_str(cell(r, "record_type")) and cint_ok(cell(r, "serial")) and cint_ok(cell(r, "resSeq")) and cint_ok(cell(r, "model"))
            and cfloat_ok(cell(r, "x")) and cfloat_ok(cell(r, "y")) and cfloat_ok(cell(r, "z")) and cfloat_ok(cell(r, "occupancy"))
            and cfloat_ok(cell(r, "tempFactor")))


@spec
def readable_cif(df, r):
    return (is_str(cell(r, "group_PDB")) and cint_ok(cell(r, "id")) and cint_ok(pick(df, r, "auth_seq_id", "label_seq_id"))
            and cint_ok(cell(r, "pdbx_PDB_model_num")) and cfloat_ok(cell(r, "Cartn_x")) and cfloat_ok(cell(r, "Cartn_y"))
            and cfloat_ok(cell(r, "Cartn_z")) and cfloat_ok(cell(r, "occupancy")) and cfloat_ok(cell(r, "B_iso_or_equiv")))


@spec
def readable(df, i):
    return ite(is_pdb(df), readable_pdb(row(df, i)), readable_cif(df, row(df, i)))


@spec
def fits_any(a):
    """within PDB field widths (spec fits_core of parser_v2_c), the charge blank, PDB text (digit, sign) or a signed digit"""
    return fits_core(a) and (a.charge == "" or matches(a.charge, DIGIT_SIGN) or matches(a.charge, SIGNED_DIGIT))


@spec
def same_model(df, i, j):
    return atom(df, i).model == atom(df, j).model


@spec
def same_chain(df, i, j):
    """rows i and j belong to the same chain: same model and same chain identifier"""
    return same_model(df, i, j) and atom(df, i).chainID == atom(df, j).chainID


@spec
def ends_chain(df, i):
    """row i is the last row of a maximal run of rows with one (model, chain identifier)"""
    return i == nrows(df.id) - 1 or not same_chain(df, i, i + 1)


@spec
def ter_fits(a):
    """room for the TER record behind this atom: its serial + 1 fits columns 7-11, the residue name carries no padding blanks"""
    return a.serial <= 99998 and clean(a.resName)


# ------------------------------------------------------------------------------------------------ spec vocabulary: the records
@spec
def model_record(m):
    return f"MODEL     {m:>4}\n"


@spec
def atom_line_ok(atom_data, result):
    """`result` is what _format_pdb_atom_line returns for `atom_data`: the postcondition of the callee contract format_atom_any
    (checked against it when this module is loaded), i.e. the 80-column PDB 3.3 layout of an ATOM/HETATM record"""
    return (len(result) == 80 and lay_record(atom_data, result) and lay_serial(atom_data, result) and lay_name(atom_data, result)
            and lay_altloc(atom_data, result) and lay_resname(atom_data, result) and lay_chain(atom_data, result)
            and lay_resseq(atom_data, result) and lay_icode(atom_data, result) and lay_xyz(atom_data, result)
            and lay_occ_b(atom_data, result) and lay_element(atom_data, result)
            and implies(fits_pdb(atom_data), lay_charge(atom_data, result))
            and lay_blanks(result)
            and implies(fits_core(atom_data) and matches(atom_data.charge, SIGNED_DIGIT), col(result, 79, 80) == pdb_charge_text(int(atom_data.charge))))


@spec
def ter_layout(serial, res_info, chain_id, result):
    """`result` is what _format_pdb_ter_line(serial, res_info, chain_id) returns: the postcondition of its contract (checked
    against it when this module is loaded), i.e. the 80-column layout of a TER record"""
    return (len(result) == 80 and col(result, 1, 6) == 'TER   ' and col(result, 7, 11) == str(serial).rjust(5)
            and col(result, 12, 17) == '      ' and col(result, 18, 20) == res_info[2].rjust(3) and col(result, 21, 21) == ' '
            and col(result, 22, 22) == chain_id.ljust(1) and col(result, 23, 26) == str(res_info[0]).rjust(4)
            and col(result, 27, 27) == res_info[1].ljust(1) and col(result, 28, 80) == ' ' * 53)


@spec
def ter_line_ok(a, L):
    """L is the TER record closing the chain whose last atom is a: serial one above the atom's, the atom's residue name, chain
    identifier, residue number and insertion code"""
    return ter_layout(a.serial + 1, (a.resSeq, a.iCode, a.resName), a.chainID, L)


def _check_spec_matches_contract(fname, clauses):
    """the hand-written conjunction in the @spec function `fname` is, conjunct by conjunct, the list of contract clauses"""
    import ast
    fn = [n_ for n_ in ast.parse(open(__file__).read()).body if isinstance(n_, ast.FunctionDef) and n_.name == fname][0]
    body = fn.body[-1].value
    got = sorted(ast.unparse(v_) for v_ in body.values)
    want = sorted(ast.unparse(ast.parse(t_, mode="eval").body) for t_ in clauses)
    assert got == want, (fname, [x_ for x_ in got if x_ not in want], [x_ for x_ in want if x_ not in got])


_check_spec_matches_contract("atom_line_ok", format_atom_any.ensures)
_check_spec_matches_contract("ter_layout", format_ter_nn.ensures)


# ------------------------------------------------------------------------------------------------ write_pdb
@spec
def between(C, POS, TER, i, sc, sm, mr):
    """what stands between the atom lines of rows i and i + 1 (C = list of written chunks, every chunk one line with its newline;
    sc / sm: the two rows have the same chain / the same model; mr: the MODEL record of row i + 1): nothing inside a chain; the
    chain's TER at a chain change inside a model; TER, ENDMDL and the next MODEL at a model change"""
    return (implies(sc, POS[i + 1] == POS[i] + 1)
            and implies(sm and not sc, C[POS[i] + 1] == TER[i] + "\n" and POS[i + 1] == POS[i] + 2)
            and implies(not sm, C[POS[i] + 1] == TER[i] + "\n" and C[POS[i] + 2] == "ENDMDL\n" and C[POS[i] + 3] == mr and POS[i + 1] == POS[i] + 4))


class write_pdb_c:
    """write_pdb(df) (output=None: the text is returned).  N = nrows(df); OUT = the list of chunks written to the buffer, each
    one line with its newline; result = their concatenation.  Ghost maps: POS, LINES, TER (module docstring)."""
    params = {"df": "rec[Frame]"}
    defaults = {"output": None}
    requires = [
        # pandas: a table is `empty` exactly when it has no rows (tables with rows but no columns are excluded)
        "df.empty == (nrows(df.id) == 0)",
        "implies(is_pdb(df), pdb_columns(df)) and implies(is_cif(df), cif_columns(df))",
        "forall(lambda i: implies(0 <= i and i < nrows(df.id) and known_format(df), readable(df, i)))",
        # the property's quantifier: atom tables within PDB limits
        "forall(lambda i: implies(0 <= i and i < nrows(df.id) and known_format(df), fits_any(atom(df, i))))",
        "forall(lambda i: implies(0 <= i and i < nrows(df.id) and known_format(df) and ends_chain(df, i), ter_fits(atom(df, i))))",
    ]
    returns = "str"
    raises = {"ValueError": "nrows(df.id) > 0 and not known_format(df)"}
    raises_exact = ["ValueError"]
    modifies = ["Buffer.chunks"]
    locals = {"atom_data": "rec[AtomData]", "last_model_num": "opt[int]", "last_chain_id": "opt[str]",
              "last_res_info": "opt[tuple[int,str,str]]"}
    ghost_entry = ["let POS = empty('list[int]')", "let LINES = empty('list[str]')", "let TER = empty('dict[int,str]')",
                   "let OUT = empty('list[str]')", "let CX = empty('list[str]')", "let C0 = empty('list[str]')",
                   # the string-level predicates and terms get names (explicit definitions - conservative - whose bodies are
                   # revealed, instance by instance, only where a proof needs them): the bookkeeping obligations of the loop
                   # then carry no string constraints
                   "define opaque LOK(i, L:str) = atom_line_ok(atom(df, i), L)",
                   "define opaque TOK(i, L:str) = ter_line_ok(atom(df, i), L)",
                   "define opaque SC(i) = same_chain(df, i, i + 1)",
                   "define opaque SM(i) = same_model(df, i, i + 1)",
                   "define opaque MR(i) = model_record(atom(df, i).model)",
                   # the quantified preconditions are set aside and instantiated for the current row at the top of the loop body
                   "mark REQ 0", "stash REQ"]
    ensures = [
        "result == joined(OUT)",
        "implies(nrows(df.id) == 0, len(OUT) == 1 and OUT[0] == 'END\\n')",
        # (1) one atom line per row, in table order, and it is the formatter's line for the row's atom
        "len(POS) == nrows(df.id) and len(LINES) == nrows(df.id)",
        "forall(lambda i: implies(0 <= i and i < nrows(df.id), 1 <= POS[i] and POS[i] + 3 < len(OUT) and OUT[POS[i]] == LINES[i] + '\\n'))",
        "forall(lambda i: implies(0 <= i and i < nrows(df.id), atom_line_ok(atom(df, i), LINES[i])))",
        "forall(lambda i: implies(0 <= i and i + 1 < nrows(df.id), POS[i] < POS[i + 1]))",
        # (2) MODEL / ENDMDL
        "implies(nrows(df.id) > 0, POS[0] == 1 and OUT[0] == model_record(atom(df, 0).model))",
        "forall(lambda i: implies(0 <= i and i + 1 < nrows(df.id) and not same_model(df, i, i + 1), "
        "OUT[POS[i] + 2] == 'ENDMDL\\n' and OUT[POS[i] + 3] == model_record(atom(df, i + 1).model) and POS[i + 1] == POS[i] + 4))",
        "implies(nrows(df.id) > 0, OUT[POS[nrows(df.id) - 1] + 2] == 'ENDMDL\\n')",
        # (3) TER after the last atom of every chain, before the next chain's first atom / before ENDMDL
        "forall(lambda i: implies(0 <= i and i < nrows(df.id) and ends_chain(df, i), OUT[POS[i] + 1] == TER[i] + '\\n' and ter_line_ok(atom(df, i), TER[i])))",
        # (4) nothing else: inside a chain the next atom line follows directly, at a chain change only the TER stands between,
        # and behind the last model's ENDMDL there is END and nothing more
        "forall(lambda i: implies(0 <= i and i + 1 < nrows(df.id) and same_chain(df, i, i + 1), POS[i + 1] == POS[i] + 1))",
        "forall(lambda i: implies(0 <= i and i + 1 < nrows(df.id) and same_model(df, i, i + 1) and not same_chain(df, i, i + 1), POS[i + 1] == POS[i] + 2))",
        "implies(nrows(df.id) > 0, OUT[POS[nrows(df.id) - 1] + 3] == 'END\\n' and len(OUT) == POS[nrows(df.id) - 1] + 4)",
    ]
    ensures_labels = {0: "returned-text-is-the-written-chunks", 1: "empty-table-END-only",
                      2: "one-atom-line-per-row", 3: "atom-line-of-row-i-at-POS-i", 4: "atom-line-is-the-formatter-layout-of-the-row",
                      5: "atom-lines-in-table-order",
                      6: "MODEL-opens-the-first-model", 7: "ENDMDL-then-MODEL-at-every-model-change", 8: "ENDMDL-closes-the-last-model",
                      9: "TER-after-the-last-atom-of-every-chain",
                      10: "nothing-between-atoms-of-one-chain", 11: "only-TER-between-chains-of-one-model", 12: "END-and-nothing-more"}
    loops = {0: {"index": "n", "writes": ["Buffer.chunks"], "inv": [
        "n >= 0 and len(POS) == n and len(LINES) == n and len(buffer.chunks) >= 0",
        "implies(n == 0, len(buffer.chunks) == 0 and is_none(last_model_num) and is_none(last_chain_id))",
        "implies(n > 0, known_format(df))",
        "implies(n > 0, not is_none(last_model_num) and some(last_model_num) == atom(df, n - 1).model "
        "and not is_none(last_chain_id) and some(last_chain_id) == atom(df, n - 1).chainID)",
        "implies(n > 0, not is_none(last_res_info) and some(last_res_info)[0] == atom(df, n - 1).resSeq "
        "and some(last_res_info)[1] == atom(df, n - 1).iCode and some(last_res_info)[2] == atom(df, n - 1).resName "
        "and last_serial == atom(df, n - 1).serial)",
        "implies(n > 0, len(buffer.chunks) == POS[n - 1] + 1 and POS[0] == 1 and buffer.chunks[0] == MR(0))",
        "forall(lambda i: implies(0 <= i and i < n, 1 <= POS[i] and POS[i] < len(buffer.chunks) and buffer.chunks[POS[i]] == LINES[i] + '\\n'))",
        "forall(lambda i: implies(0 <= i and i < n, LOK(i, LINES[i])))",
        "forall(lambda i: implies(0 <= i and i + 1 < n, POS[i] < POS[i + 1] and between(buffer.chunks, POS, TER, i, SC(i), SM(i), MR(i + 1))))",
        "forall(lambda i: implies(0 <= i and i + 1 < n and not SC(i), TOK(i, TER[i])))",
    ], "labels": {0: "bookkeeping", 1: "nothing-written-before-the-first-row", 2: "format-known", 3: "last-model-and-chain-are-the-previous-row's",
                  4: "last-residue-and-serial-are-the-previous-row's", 5: "buffer-ends-with-the-previous-atom-line-MODEL-first",
                  6: "atom-line-of-row-i-at-POS-i", 7: "atom-line-is-the-formatter-layout-of-the-row",
                  8: "between-consecutive-atoms-TER-ENDMDL-MODEL-as-chains-and-models-change", 9: "TER-is-the-layout-of-the-chain's-last-atom"}}}
    _TER_BEFORE = ["replace last_serial by atom(df, n - 1).serial", "replace last_chain_id by atom(df, n - 1).chainID",
                   "replace last_res_info by (atom(df, n - 1).resSeq, atom(df, n - 1).iCode, atom(df, n - 1).resName)", "mark T"]
    _TER_AFTER = ["let TER = dstore(TER, n - 1, _format_pdb_ter_line_result)",
                  "scoped keep 10 | reveal TOK(n - 1, TER[n - 1]) | assert TOK(n - 1, TER[n - 1])", "summarize T as TOK(n - 1, TER[n - 1])"]
    _TER_LABEL = "TER-is-the-layout-of-the-chain's-last-atom"
    _ALL = "0 <= i and i < nrows(df.id)"
    _PAIR = "0 <= i and i + 1 < nrows(df.id)"
    _REV = "forall i | reveal SC(i) | reveal SM(i) | reveal MR(i + 1) | assert "
    ghost = [
        {"when": "before", "at": "atom_data = {}", "loop": 0, "label": "preconditions-for-this-row",
         "do": ["let C0 = buffer.chunks", "mark B", "unstash REQ",
                "assert implies(known_format(df), readable(df, n) and fits_any(atom(df, n)))",
                "assert implies(known_format(df) and n > 0 and not same_chain(df, n - 1, n), ter_fits(atom(df, n - 1)) and fits_any(atom(df, n - 1)))",
                "stash B", "reveal SC(n - 1)", "reveal SM(n - 1)", "reveal MR(n)"]},
        {"when": "after", "at": "for _, row in df.iterrows()", "label": "preconditions-for-the-last-row",
         "do": ["let CX = buffer.chunks", "mark E", "unstash REQ",
                "assert implies(nrows(df.id) > 0, ter_fits(atom(df, nrows(df.id) - 1)) and fits_any(atom(df, nrows(df.id) - 1)))", "stash E"]},
        {"when": "before", "at": "current_model_num = atom_data[", "loop": 0, "label": "atom-data-is-the-row's-atom",
         "do": ["replace atom_data by atom(df, n)"]},
        {"when": "before", "at": "pdb_line = _format_pdb_atom_line(atom_data)", "loop": 0, "label": "atom-line-is-the-formatter-layout-of-the-row",
         "do": ["mark A"]},
        {"when": "after", "at": "pdb_line = _format_pdb_atom_line(atom_data)", "loop": 0, "label": "atom-line-is-the-formatter-layout-of-the-row",
         "do": ["scoped keep 15 | reveal LOK(n, pdb_line) | assert LOK(n, pdb_line)", "summarize A as LOK(n, pdb_line)"]},
        {"when": "after", "at": "buffer.write(pdb_line", "loop": 0, "label": "atom-line-position",
         "do": ["let POS = snoc(POS, len(buffer.chunks) - 1)", "let LINES = snoc(LINES, pdb_line)"]},
        {"when": "before", "at": "last_serial = atom_data[", "loop": 0, "label": "earlier-chunks-kept",
         "do": ["assert len(buffer.chunks) >= len(C0) and forall(lambda k: implies(0 <= k and k < len(C0), buffer.chunks[k] == C0[k]))"]},
        {"when": "before", "at": "last_serial = atom_data[", "loop": 0, "label": "TER-after-a-chain-ENDMDL-MODEL-at-a-model-change-nothing-else-between-this-atom-and-the-previous",
         "do": ["assert implies(n > 0, POS[n - 1] < POS[n] and between(buffer.chunks, POS, TER, n - 1, SC(n - 1), SM(n - 1), MR(n)))"]},
        {"when": "before", "at": "last_serial = atom_data[", "loop": 0, "label": "TER-of-the-previous-chain-is-the-layout-of-its-last-atom",
         "do": ["assert implies(n > 0 and not SC(n - 1), TOK(n - 1, TER[n - 1]))"]},
        {"when": "before", "at": "buffer.write(_format_pdb_ter_line(", "loop": 0, "label": _TER_LABEL, "do": _TER_BEFORE},
        {"when": "after", "at": "buffer.write(_format_pdb_ter_line(", "loop": 0, "label": _TER_LABEL, "do": _TER_AFTER},
        {"when": "before", "at": "buffer.write(_format_pdb_ter_line(", "loop": None, "label": _TER_LABEL, "do": _TER_BEFORE},
        {"when": "after", "at": "buffer.write(_format_pdb_ter_line(", "loop": None, "label": _TER_LABEL, "do": _TER_AFTER},
        {"when": "before", "at": "content = buffer.getvalue()", "label": "written-chunks",
         "do": ["let OUT = buffer.chunks",
                "assert len(OUT) >= len(CX) and forall(lambda k: implies(0 <= k and k < len(CX), OUT[k] == CX[k]))",
                "reveal MR(0)"]},
        {"when": "before", "at": "content = buffer.getvalue()", "label": "TER-after-the-last-atom-of-every-chain",
         "do": [f"forall i | reveal SC(i) | assert implies({_ALL} and ends_chain(df, i), OUT[POS[i] + 1] == TER[i] + '\\n')"]},
        {"when": "before", "at": "content = buffer.getvalue()", "label": "ENDMDL-then-MODEL-at-every-model-change",
         "do": [_REV + f"implies({_PAIR} and not same_model(df, i, i + 1), OUT[POS[i] + 2] == 'ENDMDL\\n' "
                       "and OUT[POS[i] + 3] == model_record(atom(df, i + 1).model) and POS[i + 1] == POS[i] + 4)"]},
        {"when": "before", "at": "content = buffer.getvalue()", "label": "nothing-between-atoms-of-one-chain",
         "do": [_REV + f"implies({_PAIR} and same_chain(df, i, i + 1), POS[i + 1] == POS[i] + 1)"]},
        {"when": "before", "at": "content = buffer.getvalue()", "label": "only-TER-between-chains-of-one-model",
         "do": [_REV + f"implies({_PAIR} and same_model(df, i, i + 1) and not same_chain(df, i, i + 1), POS[i + 1] == POS[i] + 2)"]},
        # (the two facts with string constraints under the quantifier come last: nothing after them has to live with them)
        {"when": "before", "at": "content = buffer.getvalue()", "label": "TER-is-the-layout-of-the-chain's-last-atom",
         "do": [f"forall i | assert implies({_ALL} and (i == nrows(df.id) - 1 or not SC(i)), TOK(i, TER[i]))",
                f"forall i | keep 1 | reveal SC(i) | reveal TOK(i, TER[i]) | assert implies({_ALL} and ends_chain(df, i), ter_line_ok(atom(df, i), TER[i]))"]},
        {"when": "before", "at": "content = buffer.getvalue()", "label": "atom-line-is-the-formatter-layout-of-the-row",
         "do": [f"forall i | assert implies({_ALL}, LOK(i, LINES[i]))",
                f"forall i | keep 1 | reveal LOK(i, LINES[i]) | assert implies({_ALL}, atom_line_ok(atom(df, i), LINES[i]))"]},
    ]


CONTRACTS = {"write_pdb": write_pdb_c, "_format_pdb_atom_line": format_atom_any, "_format_pdb_ter_line": format_ter_nn}
